"""Equivalence check for refactoring 6 (ceos_alos2/common.py, ceos_alos2/sar_image/file_descriptor.py).

Run as ``python equiv.py`` or through pytest.  The expected values were recorded
from the unchanged code (HEAD) and must be reproduced with and without the patch.
"""

import hashlib
import io as stdlib_io
import struct

import construct

from ceos_alos2 import common
from ceos_alos2.sar_image import file_descriptor, io
from ceos_alos2.utils import to_dict

record = file_descriptor.file_descriptor_record
preamble = common.record_preamble


def outcome(func, *args, **kwargs):
    try:
        value = func(*args, **kwargs)
    except Exception as e:  # noqa: BLE001
        return f"raised {type(e).__module__}.{type(e).__qualname__}: {e}"
    return f"{type(value).__name__} {value!r}"


def describe(con, path="record"):
    """flatten a construct tree into (path, type, parameters) rows"""
    parameters = {}
    for attr in ("length", "fmtstr", "encoding", "flagbuildnone"):
        if attr in vars(con):
            parameters[attr] = vars(con)[attr]
    rows = [(path, type(con).__name__, repr(parameters))]
    if isinstance(con, construct.Renamed):
        rows = []
        path = f"{path}.{con.name}"
        rows.extend(describe(con.subcon, path))
    elif hasattr(con, "subcons"):
        for sub in con.subcons:
            rows.extend(describe(sub, path))
    elif hasattr(con, "subcon"):
        rows.extend(describe(con.subcon, path + "<"))
    return rows


class Lcg:
    """tiny deterministic number source (independent of the stdlib implementation)"""

    def __init__(self, seed):
        self.state = seed & 0xFFFFFFFF

    def next(self):
        self.state = (1664525 * self.state + 1013904223) & 0xFFFFFFFF
        return self.state >> 8


# (width, kind) of the fields following the 12 byte preamble
LAYOUT = (
    [(2, "s"), (2, "s"), (12, "s"), (2, "s"), (2, "s"), (12, "s"), (4, "i"), (16, "s")]
    + [(4, "s"), (8, "i"), (4, "i")] * 3
    + [(1, "s")] * 4
    + [(64, "s"), (6, "i"), (6, "i"), (24, "s")]
    + [(4, "i"), (4, "i"), (4, "i"), (4, "s")]
    + [(4, "i"), (8, "i"), (4, "i"), (8, "i"), (4, "i"), (4, "i"), (4, "i"), (4, "s")]
    + [(2, "i"), (2, "i"), (4, "i"), (8, "i"), (4, "i"), (4, "s")]
    + [(8, "s")] * 5
    + [(4, "s"), (28, "s")]
    + [(8, "s")] * 4
    + [(28, "s"), (4, "s"), (4, "i"), (4, "i"), (8, "i"), (4, "i"), (4, "i")]
    + [(4, "i"), (260, "s")]
)
assert sum(width for width, _ in LAYOUT) == 708

LETTERS = b"ABCDEFGHIJKLMNOPQRSTUVWXYZabcdefghijklmnopqrstuvwxyz0123456789*-_./"


def make_preamble(seed, record_length=720):
    return struct.pack(">IBBBBI", seed, 63, 192, 18, 18, record_length)


def make_descriptor(seed, *, blank_every=0, pad="left"):
    rng = Lcg(seed)
    parts = [make_preamble(seed)]
    for index, (width, kind) in enumerate(LAYOUT):
        if blank_every and index % blank_every == seed % blank_every:
            parts.append(b" " * width)
            continue
        if kind == "i":
            digits = 1 + rng.next() % width
            text = str(rng.next() % 10**digits).encode()
        else:
            length = 1 + rng.next() % width
            text = bytes(LETTERS[rng.next() % len(LETTERS)] for _ in range(length))
        if pad == "left":
            parts.append(text.rjust(width))
        elif pad == "right":
            parts.append(text.ljust(width))
        else:
            parts.append(text.center(width))
    data = b"".join(parts)
    assert len(data) == 720
    return data


def digest(obj):
    return hashlib.sha256(repr(obj).encode()).hexdigest()


class LoggingFile:
    """file-like which records the requests made to it"""

    def __init__(self, data):
        self.buffer = stdlib_io.BytesIO(data)
        self.log = []

    def read(self, *args):
        self.log.append(("read", args, self.buffer.tell()))
        return self.buffer.read(*args)

    def seek(self, *args):
        self.log.append(("seek", args))
        return self.buffer.seek(*args)

    def tell(self):
        self.log.append(("tell",))
        return self.buffer.tell()


def observe():
    observed = []

    # ---- the record preamble -------------------------------------------------------
    observed.append(("preamble structure", describe(preamble, "preamble")))
    observed.append(("preamble names", [sub.name for sub in preamble.subcons]))
    observed.append(("preamble types", [type(sub).__name__ for sub in preamble.subcons]))
    observed.append(("preamble lookup", list(preamble._subcons)))
    observed.append(("preamble sizeof", outcome(preamble.sizeof)))
    observed.append(("preamble flagbuildnone", preamble.flagbuildnone))
    observed.append(("preamble attr", type(preamble.record_length).__name__, preamble.record_length.name))
    observed.append(("preamble attr", outcome(lambda: preamble.nope)))
    for data in [
        bytes(12),
        b"\xff" * 12,
        bytes(range(12)),
        make_preamble(1),
        make_preamble(2**32 - 1, 2**32 - 1),
        bytes(range(30)),
    ]:
        observed.append(("preamble parse", data, outcome(lambda: to_dict(preamble.parse(data)))))
        observed.append(
            (
                "preamble order",
                data,
                outcome(lambda: [k for k in preamble.parse(data) if k != "_io"]),
            )
        )
    for size in range(0, 12):
        observed.append(("preamble truncated", size, outcome(preamble.parse, bytes(range(size)))))
    full = dict(
        record_sequence_number=7,
        first_record_subtype=50,
        record_type=11,
        second_record_subtype=18,
        third_record_subtype=20,
        record_length=720,
    )
    observed.append(("preamble build", outcome(preamble.build, full)))
    observed.append(("preamble build reversed", outcome(preamble.build, dict(reversed(full.items())))))
    for missing in full:
        partial = {k: v for k, v in full.items() if k != missing}
        observed.append(("preamble build missing", missing, outcome(preamble.build, partial)))
    for name, value in [
        ("record_type", 256),
        ("record_type", -1),
        ("record_length", 2**32),
        ("record_sequence_number", "a"),
        ("third_record_subtype", None),
    ]:
        observed.append(
            ("preamble build bad", name, repr(value), outcome(preamble.build, dict(full, **{name: value})))
        )
    observed.append(("preamble build none", outcome(preamble.build, None)))
    observed.append(("preamble array", outcome(lambda: to_dict(preamble[2].parse(bytes(range(24)))))))
    nested = construct.Struct("preamble" / preamble, "x" / construct.Int8ub)
    observed.append(("preamble nested", outcome(lambda: to_dict(nested.parse(bytes(range(13)))))))
    observed.append(("preamble nested short", outcome(nested.parse, bytes(range(9)))))

    # ---- the file descriptor record --------------------------------------------------
    observed.append(("structure", describe(record)))
    observed.append(("field names", [sub.name for sub in record.subcons]))
    observed.append(("lookup", list(record._subcons)))
    observed.append(("sizeof", outcome(record.sizeof)))
    observed.append(
        (
            "nested sizeof",
            [
                (sub.name, sub.sizeof())
                for sub in record.subcons
                if isinstance(sub.subcon, construct.Struct)
            ],
        )
    )
    observed.append(
        (
            "module names",
            [
                n
                for n in ["Struct", "record_preamble", "AsciiInteger", "PaddedString", "file_descriptor_record"]
                if hasattr(file_descriptor, n)
            ],
        )
    )
    observed.append(("common names", sorted(n for n in vars(common) if not n.startswith("_"))))

    # fully spelled out
    observed.append(("blank", outcome(lambda: to_dict(record.parse(make_preamble(0) + b" " * 708)))))
    observed.append(("left padded", outcome(lambda: to_dict(record.parse(make_descriptor(1))))))
    observed.append(
        ("right padded", outcome(lambda: to_dict(record.parse(make_descriptor(2, pad="right")))))
    )
    observed.append(
        (
            "centered, some blank",
            outcome(lambda: to_dict(record.parse(make_descriptor(3, pad="center", blank_every=3)))),
        )
    )
    observed.append(
        ("key order", outcome(lambda: [k for k in record.parse(make_descriptor(1)) if k != "_io"]))
    )
    observed.append(
        (
            "nested key order",
            outcome(
                lambda: [
                    [k for k in v if k != "_io"]
                    for v in record.parse(make_descriptor(1)).values()
                    if isinstance(v, construct.Container)
                ]
            ),
        )
    )

    # bulk
    bulk = []
    for seed in range(100, 300):
        data = make_descriptor(seed, pad=("left", "right", "center")[seed % 3], blank_every=seed % 5)
        bulk.append(outcome(lambda: to_dict(record.parse(data))))
    observed.append(("bulk digest", digest(bulk)))

    # truncation at every offset: error path names the field
    data = make_descriptor(4)
    for size in range(0, 721):
        observed.append(("truncated", size, outcome(lambda: digest(to_dict(record.parse(data[:size]))))))
    observed.append(("trailing", outcome(lambda: digest(to_dict(record.parse(data + b"trailing"))))))

    # corrupt one byte at a time: letters in integer fields, non-ascii bytes
    for position in range(12, 720, 7):
        for byte in (b"x", b"\xff", b"\x00"):
            corrupted = data[:position] + byte + data[position + 1 :]
            observed.append(
                (
                    "corrupt",
                    position,
                    byte,
                    outcome(lambda: digest(to_dict(record.parse(corrupted)))),
                )
            )

    # building is not supported by the adapters
    observed.append(("build", outcome(record.build, dict(record.parse(data)))))

    # through the reader functions: same requests in the same order
    f = LoggingFile(make_descriptor(5) + b"rest")
    observed.append(("read_file_descriptor", outcome(lambda: digest(to_dict(io.read_file_descriptor(f)))), f.log))
    f = LoggingFile(make_descriptor(5)[:100])
    observed.append(("read_file_descriptor short", outcome(io.read_file_descriptor, f), f.log))

    # the preamble decides which record is used by the chunk parser
    for record_type in [0, 9, 10, 11, 12, 255]:
        chunk = struct.pack(">IBBBBI", 1, 50, record_type, 18, 20, 12)
        observed.append(("parse_chunk dispatch", record_type, outcome(io.parse_chunk, chunk, 12)))

    observed.append(("construct", construct.__version__))

    return observed


EXPECTED = [('preamble structure',
  [('preamble', 'Struct', "{'flagbuildnone': False}"),
   ('preamble.record_sequence_number',
    'FormatField',
    "{'length': 4, 'fmtstr': '>L', 'flagbuildnone': False}"),
   ('preamble.first_record_subtype',
    'FormatField',
    "{'length': 1, 'fmtstr': '>B', 'flagbuildnone': False}"),
   ('preamble.record_type', 'FormatField', "{'length': 1, 'fmtstr': '>B', 'flagbuildnone': False}"),
   ('preamble.second_record_subtype',
    'FormatField',
    "{'length': 1, 'fmtstr': '>B', 'flagbuildnone': False}"),
   ('preamble.third_record_subtype',
    'FormatField',
    "{'length': 1, 'fmtstr': '>B', 'flagbuildnone': False}"),
   ('preamble.record_length',
    'FormatField',
    "{'length': 4, 'fmtstr': '>L', 'flagbuildnone': False}")]),
 ('preamble names',
  ['record_sequence_number',
   'first_record_subtype',
   'record_type',
   'second_record_subtype',
   'third_record_subtype',
   'record_length']),
 ('preamble types', ['Renamed', 'Renamed', 'Renamed', 'Renamed', 'Renamed', 'Renamed']),
 ('preamble lookup',
  ['record_sequence_number',
   'first_record_subtype',
   'record_type',
   'second_record_subtype',
   'third_record_subtype',
   'record_length']),
 ('preamble sizeof', 'int 12'),
 ('preamble flagbuildnone', False),
 ('preamble attr', 'Renamed', 'record_length'),
 ('preamble attr', 'raised builtins.AttributeError: '),
 ('preamble parse',
  b'\x00\x00\x00\x00\x00\x00\x00\x00\x00\x00\x00\x00',
  "dict {'record_sequence_number': 0, 'first_record_subtype': 0, 'record_type': 0, "
  "'second_record_subtype': 0, 'third_record_subtype': 0, 'record_length': 0}"),
 ('preamble order',
  b'\x00\x00\x00\x00\x00\x00\x00\x00\x00\x00\x00\x00',
  "list ['record_sequence_number', 'first_record_subtype', 'record_type', 'second_record_subtype', "
  "'third_record_subtype', 'record_length']"),
 ('preamble parse',
  b'\xff\xff\xff\xff\xff\xff\xff\xff\xff\xff\xff\xff',
  "dict {'record_sequence_number': 4294967295, 'first_record_subtype': 255, 'record_type': 255, "
  "'second_record_subtype': 255, 'third_record_subtype': 255, 'record_length': 4294967295}"),
 ('preamble order',
  b'\xff\xff\xff\xff\xff\xff\xff\xff\xff\xff\xff\xff',
  "list ['record_sequence_number', 'first_record_subtype', 'record_type', 'second_record_subtype', "
  "'third_record_subtype', 'record_length']"),
 ('preamble parse',
  b'\x00\x01\x02\x03\x04\x05\x06\x07\x08\t\n\x0b',
  "dict {'record_sequence_number': 66051, 'first_record_subtype': 4, 'record_type': 5, "
  "'second_record_subtype': 6, 'third_record_subtype': 7, 'record_length': 134810123}"),
 ('preamble order',
  b'\x00\x01\x02\x03\x04\x05\x06\x07\x08\t\n\x0b',
  "list ['record_sequence_number', 'first_record_subtype', 'record_type', 'second_record_subtype', "
  "'third_record_subtype', 'record_length']"),
 ('preamble parse',
  b'\x00\x00\x00\x01?\xc0\x12\x12\x00\x00\x02\xd0',
  "dict {'record_sequence_number': 1, 'first_record_subtype': 63, 'record_type': 192, "
  "'second_record_subtype': 18, 'third_record_subtype': 18, 'record_length': 720}"),
 ('preamble order',
  b'\x00\x00\x00\x01?\xc0\x12\x12\x00\x00\x02\xd0',
  "list ['record_sequence_number', 'first_record_subtype', 'record_type', 'second_record_subtype', "
  "'third_record_subtype', 'record_length']"),
 ('preamble parse',
  b'\xff\xff\xff\xff?\xc0\x12\x12\xff\xff\xff\xff',
  "dict {'record_sequence_number': 4294967295, 'first_record_subtype': 63, 'record_type': 192, "
  "'second_record_subtype': 18, 'third_record_subtype': 18, 'record_length': 4294967295}"),
 ('preamble order',
  b'\xff\xff\xff\xff?\xc0\x12\x12\xff\xff\xff\xff',
  "list ['record_sequence_number', 'first_record_subtype', 'record_type', 'second_record_subtype', "
  "'third_record_subtype', 'record_length']"),
 ('preamble parse',
  b'\x00\x01\x02\x03\x04\x05\x06\x07\x08\t\n\x0b\x0c\r\x0e\x0f\x10\x11\x12\x13\x14\x15\x16\x17'
  b'\x18\x19\x1a\x1b\x1c\x1d',
  "dict {'record_sequence_number': 66051, 'first_record_subtype': 4, 'record_type': 5, "
  "'second_record_subtype': 6, 'third_record_subtype': 7, 'record_length': 134810123}"),
 ('preamble order',
  b'\x00\x01\x02\x03\x04\x05\x06\x07\x08\t\n\x0b\x0c\r\x0e\x0f\x10\x11\x12\x13\x14\x15\x16\x17'
  b'\x18\x19\x1a\x1b\x1c\x1d',
  "list ['record_sequence_number', 'first_record_subtype', 'record_type', 'second_record_subtype', "
  "'third_record_subtype', 'record_length']"),
 ('preamble truncated',
  0,
  'raised construct.core.StreamError: Error in path (parsing) -> record_sequence_number\n'
  'stream read less than specified amount, expected 4, found 0'),
 ('preamble truncated',
  1,
  'raised construct.core.StreamError: Error in path (parsing) -> record_sequence_number\n'
  'stream read less than specified amount, expected 4, found 1'),
 ('preamble truncated',
  2,
  'raised construct.core.StreamError: Error in path (parsing) -> record_sequence_number\n'
  'stream read less than specified amount, expected 4, found 2'),
 ('preamble truncated',
  3,
  'raised construct.core.StreamError: Error in path (parsing) -> record_sequence_number\n'
  'stream read less than specified amount, expected 4, found 3'),
 ('preamble truncated',
  4,
  'raised construct.core.StreamError: Error in path (parsing) -> first_record_subtype\n'
  'stream read less than specified amount, expected 1, found 0'),
 ('preamble truncated',
  5,
  'raised construct.core.StreamError: Error in path (parsing) -> record_type\n'
  'stream read less than specified amount, expected 1, found 0'),
 ('preamble truncated',
  6,
  'raised construct.core.StreamError: Error in path (parsing) -> second_record_subtype\n'
  'stream read less than specified amount, expected 1, found 0'),
 ('preamble truncated',
  7,
  'raised construct.core.StreamError: Error in path (parsing) -> third_record_subtype\n'
  'stream read less than specified amount, expected 1, found 0'),
 ('preamble truncated',
  8,
  'raised construct.core.StreamError: Error in path (parsing) -> record_length\n'
  'stream read less than specified amount, expected 4, found 0'),
 ('preamble truncated',
  9,
  'raised construct.core.StreamError: Error in path (parsing) -> record_length\n'
  'stream read less than specified amount, expected 4, found 1'),
 ('preamble truncated',
  10,
  'raised construct.core.StreamError: Error in path (parsing) -> record_length\n'
  'stream read less than specified amount, expected 4, found 2'),
 ('preamble truncated',
  11,
  'raised construct.core.StreamError: Error in path (parsing) -> record_length\n'
  'stream read less than specified amount, expected 4, found 3'),
 ('preamble build', "bytes b'\\x00\\x00\\x00\\x072\\x0b\\x12\\x14\\x00\\x00\\x02\\xd0'"),
 ('preamble build reversed', "bytes b'\\x00\\x00\\x00\\x072\\x0b\\x12\\x14\\x00\\x00\\x02\\xd0'"),
 ('preamble build missing',
  'record_sequence_number',
  "raised builtins.KeyError: 'record_sequence_number'"),
 ('preamble build missing',
  'first_record_subtype',
  "raised builtins.KeyError: 'first_record_subtype'"),
 ('preamble build missing', 'record_type', "raised builtins.KeyError: 'record_type'"),
 ('preamble build missing',
  'second_record_subtype',
  "raised builtins.KeyError: 'second_record_subtype'"),
 ('preamble build missing',
  'third_record_subtype',
  "raised builtins.KeyError: 'third_record_subtype'"),
 ('preamble build missing', 'record_length', "raised builtins.KeyError: 'record_length'"),
 ('preamble build bad',
  'record_type',
  '256',
  'raised construct.core.FormatFieldError: Error in path (building) -> record_type\n'
  "struct '>B' error during building, given value 256"),
 ('preamble build bad',
  'record_type',
  '-1',
  'raised construct.core.FormatFieldError: Error in path (building) -> record_type\n'
  "struct '>B' error during building, given value -1"),
 ('preamble build bad',
  'record_length',
  '4294967296',
  'raised construct.core.FormatFieldError: Error in path (building) -> record_length\n'
  "struct '>L' error during building, given value 4294967296"),
 ('preamble build bad',
  'record_sequence_number',
  "'a'",
  'raised construct.core.FormatFieldError: Error in path (building) -> record_sequence_number\n'
  "struct '>L' error during building, given value 'a'"),
 ('preamble build bad',
  'third_record_subtype',
  'None',
  'raised construct.core.FormatFieldError: Error in path (building) -> third_record_subtype\n'
  "struct '>B' error during building, given value None"),
 ('preamble build none', "raised builtins.KeyError: 'record_sequence_number'"),
 ('preamble array',
  "list [{'record_sequence_number': 66051, 'first_record_subtype': 4, 'record_type': 5, "
  "'second_record_subtype': 6, 'third_record_subtype': 7, 'record_length': 134810123}, "
  "{'record_sequence_number': 202182159, 'first_record_subtype': 16, 'record_type': 17, "
  "'second_record_subtype': 18, 'third_record_subtype': 19, 'record_length': 336926231}]"),
 ('preamble nested',
  "dict {'preamble': {'record_sequence_number': 66051, 'first_record_subtype': 4, 'record_type': "
  "5, 'second_record_subtype': 6, 'third_record_subtype': 7, 'record_length': 134810123}, 'x': "
  '12}'),
 ('preamble nested short',
  'raised construct.core.StreamError: Error in path (parsing) -> preamble -> record_length\n'
  'stream read less than specified amount, expected 4, found 1'),
 ('structure',
  [('record', 'Struct', "{'flagbuildnone': False}"),
   ('record.preamble', 'Struct', "{'flagbuildnone': False}"),
   ('record.preamble.record_sequence_number',
    'FormatField',
    "{'length': 4, 'fmtstr': '>L', 'flagbuildnone': False}"),
   ('record.preamble.first_record_subtype',
    'FormatField',
    "{'length': 1, 'fmtstr': '>B', 'flagbuildnone': False}"),
   ('record.preamble.record_type',
    'FormatField',
    "{'length': 1, 'fmtstr': '>B', 'flagbuildnone': False}"),
   ('record.preamble.second_record_subtype',
    'FormatField',
    "{'length': 1, 'fmtstr': '>B', 'flagbuildnone': False}"),
   ('record.preamble.third_record_subtype',
    'FormatField',
    "{'length': 1, 'fmtstr': '>B', 'flagbuildnone': False}"),
   ('record.preamble.record_length',
    'FormatField',
    "{'length': 4, 'fmtstr': '>L', 'flagbuildnone': False}"),
   ('record.ascii_ebcdic_flag', 'PaddedString', "{'flagbuildnone': False}"),
   ('record.ascii_ebcdic_flag<', 'StringEncoded', "{'encoding': 'ascii', 'flagbuildnone': False}"),
   ('record.ascii_ebcdic_flag<<', 'FixedSized', "{'length': 2, 'flagbuildnone': False}"),
   ('record.ascii_ebcdic_flag<<<', 'NullStripped', "{'flagbuildnone': False}"),
   ('record.ascii_ebcdic_flag<<<<', 'GreedyBytes', "{'flagbuildnone': False}"),
   ('record.blanks1', 'PaddedString', "{'flagbuildnone': False}"),
   ('record.blanks1<', 'StringEncoded', "{'encoding': 'ascii', 'flagbuildnone': False}"),
   ('record.blanks1<<', 'FixedSized', "{'length': 2, 'flagbuildnone': False}"),
   ('record.blanks1<<<', 'NullStripped', "{'flagbuildnone': False}"),
   ('record.blanks1<<<<', 'GreedyBytes', "{'flagbuildnone': False}"),
   ('record.format_control_document_id', 'PaddedString', "{'flagbuildnone': False}"),
   ('record.format_control_document_id<',
    'StringEncoded',
    "{'encoding': 'ascii', 'flagbuildnone': False}"),
   ('record.format_control_document_id<<', 'FixedSized', "{'length': 12, 'flagbuildnone': False}"),
   ('record.format_control_document_id<<<', 'NullStripped', "{'flagbuildnone': False}"),
   ('record.format_control_document_id<<<<', 'GreedyBytes', "{'flagbuildnone': False}"),
   ('record.format_control_document_revision_level', 'PaddedString', "{'flagbuildnone': False}"),
   ('record.format_control_document_revision_level<',
    'StringEncoded',
    "{'encoding': 'ascii', 'flagbuildnone': False}"),
   ('record.format_control_document_revision_level<<',
    'FixedSized',
    "{'length': 2, 'flagbuildnone': False}"),
   ('record.format_control_document_revision_level<<<', 'NullStripped', "{'flagbuildnone': False}"),
   ('record.format_control_document_revision_level<<<<', 'GreedyBytes', "{'flagbuildnone': False}"),
   ('record.file_design_descriptor_revision_letter', 'PaddedString', "{'flagbuildnone': False}"),
   ('record.file_design_descriptor_revision_letter<',
    'StringEncoded',
    "{'encoding': 'ascii', 'flagbuildnone': False}"),
   ('record.file_design_descriptor_revision_letter<<',
    'FixedSized',
    "{'length': 2, 'flagbuildnone': False}"),
   ('record.file_design_descriptor_revision_letter<<<', 'NullStripped', "{'flagbuildnone': False}"),
   ('record.file_design_descriptor_revision_letter<<<<', 'GreedyBytes', "{'flagbuildnone': False}"),
   ('record.software_release_and_revision_number', 'PaddedString', "{'flagbuildnone': False}"),
   ('record.software_release_and_revision_number<',
    'StringEncoded',
    "{'encoding': 'ascii', 'flagbuildnone': False}"),
   ('record.software_release_and_revision_number<<',
    'FixedSized',
    "{'length': 12, 'flagbuildnone': False}"),
   ('record.software_release_and_revision_number<<<', 'NullStripped', "{'flagbuildnone': False}"),
   ('record.software_release_and_revision_number<<<<', 'GreedyBytes', "{'flagbuildnone': False}"),
   ('record.file_number', 'AsciiInteger', "{'flagbuildnone': False}"),
   ('record.file_number<', 'StringEncoded', "{'encoding': 'ascii', 'flagbuildnone': False}"),
   ('record.file_number<<', 'FixedSized', "{'length': 4, 'flagbuildnone': False}"),
   ('record.file_number<<<', 'NullStripped', "{'flagbuildnone': False}"),
   ('record.file_number<<<<', 'GreedyBytes', "{'flagbuildnone': False}"),
   ('record.file_id', 'PaddedString', "{'flagbuildnone': False}"),
   ('record.file_id<', 'StringEncoded', "{'encoding': 'ascii', 'flagbuildnone': False}"),
   ('record.file_id<<', 'FixedSized', "{'length': 16, 'flagbuildnone': False}"),
   ('record.file_id<<<', 'NullStripped', "{'flagbuildnone': False}"),
   ('record.file_id<<<<', 'GreedyBytes', "{'flagbuildnone': False}"),
   ('record.record_sequence_and_location_type_flag', 'PaddedString', "{'flagbuildnone': False}"),
   ('record.record_sequence_and_location_type_flag<',
    'StringEncoded',
    "{'encoding': 'ascii', 'flagbuildnone': False}"),
   ('record.record_sequence_and_location_type_flag<<',
    'FixedSized',
    "{'length': 4, 'flagbuildnone': False}"),
   ('record.record_sequence_and_location_type_flag<<<', 'NullStripped', "{'flagbuildnone': False}"),
   ('record.record_sequence_and_location_type_flag<<<<', 'GreedyBytes', "{'flagbuildnone': False}"),
   ('record.location_sequence_number', 'AsciiInteger', "{'flagbuildnone': False}"),
   ('record.location_sequence_number<',
    'StringEncoded',
    "{'encoding': 'ascii', 'flagbuildnone': False}"),
   ('record.location_sequence_number<<', 'FixedSized', "{'length': 8, 'flagbuildnone': False}"),
   ('record.location_sequence_number<<<', 'NullStripped', "{'flagbuildnone': False}"),
   ('record.location_sequence_number<<<<', 'GreedyBytes', "{'flagbuildnone': False}"),
   ('record.field_length_of_sequence_number', 'AsciiInteger', "{'flagbuildnone': False}"),
   ('record.field_length_of_sequence_number<',
    'StringEncoded',
    "{'encoding': 'ascii', 'flagbuildnone': False}"),
   ('record.field_length_of_sequence_number<<',
    'FixedSized',
    "{'length': 4, 'flagbuildnone': False}"),
   ('record.field_length_of_sequence_number<<<', 'NullStripped', "{'flagbuildnone': False}"),
   ('record.field_length_of_sequence_number<<<<', 'GreedyBytes', "{'flagbuildnone': False}"),
   ('record.record_code_and_location_type_flag', 'PaddedString', "{'flagbuildnone': False}"),
   ('record.record_code_and_location_type_flag<',
    'StringEncoded',
    "{'encoding': 'ascii', 'flagbuildnone': False}"),
   ('record.record_code_and_location_type_flag<<',
    'FixedSized',
    "{'length': 4, 'flagbuildnone': False}"),
   ('record.record_code_and_location_type_flag<<<', 'NullStripped', "{'flagbuildnone': False}"),
   ('record.record_code_and_location_type_flag<<<<', 'GreedyBytes', "{'flagbuildnone': False}"),
   ('record.record_code_location', 'AsciiInteger', "{'flagbuildnone': False}"),
   ('record.record_code_location<',
    'StringEncoded',
    "{'encoding': 'ascii', 'flagbuildnone': False}"),
   ('record.record_code_location<<', 'FixedSized', "{'length': 8, 'flagbuildnone': False}"),
   ('record.record_code_location<<<', 'NullStripped', "{'flagbuildnone': False}"),
   ('record.record_code_location<<<<', 'GreedyBytes', "{'flagbuildnone': False}"),
   ('record.record_code_field_length', 'AsciiInteger', "{'flagbuildnone': False}"),
   ('record.record_code_field_length<',
    'StringEncoded',
    "{'encoding': 'ascii', 'flagbuildnone': False}"),
   ('record.record_code_field_length<<', 'FixedSized', "{'length': 4, 'flagbuildnone': False}"),
   ('record.record_code_field_length<<<', 'NullStripped', "{'flagbuildnone': False}"),
   ('record.record_code_field_length<<<<', 'GreedyBytes', "{'flagbuildnone': False}"),
   ('record.record_length_and_location_type_flag', 'PaddedString', "{'flagbuildnone': False}"),
   ('record.record_length_and_location_type_flag<',
    'StringEncoded',
    "{'encoding': 'ascii', 'flagbuildnone': False}"),
   ('record.record_length_and_location_type_flag<<',
    'FixedSized',
    "{'length': 4, 'flagbuildnone': False}"),
   ('record.record_length_and_location_type_flag<<<', 'NullStripped', "{'flagbuildnone': False}"),
   ('record.record_length_and_location_type_flag<<<<', 'GreedyBytes', "{'flagbuildnone': False}"),
   ('record.record_length_location', 'AsciiInteger', "{'flagbuildnone': False}"),
   ('record.record_length_location<',
    'StringEncoded',
    "{'encoding': 'ascii', 'flagbuildnone': False}"),
   ('record.record_length_location<<', 'FixedSized', "{'length': 8, 'flagbuildnone': False}"),
   ('record.record_length_location<<<', 'NullStripped', "{'flagbuildnone': False}"),
   ('record.record_length_location<<<<', 'GreedyBytes', "{'flagbuildnone': False}"),
   ('record.record_length_field_length', 'AsciiInteger', "{'flagbuildnone': False}"),
   ('record.record_length_field_length<',
    'StringEncoded',
    "{'encoding': 'ascii', 'flagbuildnone': False}"),
   ('record.record_length_field_length<<', 'FixedSized', "{'length': 4, 'flagbuildnone': False}"),
   ('record.record_length_field_length<<<', 'NullStripped', "{'flagbuildnone': False}"),
   ('record.record_length_field_length<<<<', 'GreedyBytes', "{'flagbuildnone': False}"),
   ('record.reserved1', 'PaddedString', "{'flagbuildnone': False}"),
   ('record.reserved1<', 'StringEncoded', "{'encoding': 'ascii', 'flagbuildnone': False}"),
   ('record.reserved1<<', 'FixedSized', "{'length': 1, 'flagbuildnone': False}"),
   ('record.reserved1<<<', 'NullStripped', "{'flagbuildnone': False}"),
   ('record.reserved1<<<<', 'GreedyBytes', "{'flagbuildnone': False}"),
   ('record.reserved2', 'PaddedString', "{'flagbuildnone': False}"),
   ('record.reserved2<', 'StringEncoded', "{'encoding': 'ascii', 'flagbuildnone': False}"),
   ('record.reserved2<<', 'FixedSized', "{'length': 1, 'flagbuildnone': False}"),
   ('record.reserved2<<<', 'NullStripped', "{'flagbuildnone': False}"),
   ('record.reserved2<<<<', 'GreedyBytes', "{'flagbuildnone': False}"),
   ('record.reserved3', 'PaddedString', "{'flagbuildnone': False}"),
   ('record.reserved3<', 'StringEncoded', "{'encoding': 'ascii', 'flagbuildnone': False}"),
   ('record.reserved3<<', 'FixedSized', "{'length': 1, 'flagbuildnone': False}"),
   ('record.reserved3<<<', 'NullStripped', "{'flagbuildnone': False}"),
   ('record.reserved3<<<<', 'GreedyBytes', "{'flagbuildnone': False}"),
   ('record.reserved4', 'PaddedString', "{'flagbuildnone': False}"),
   ('record.reserved4<', 'StringEncoded', "{'encoding': 'ascii', 'flagbuildnone': False}"),
   ('record.reserved4<<', 'FixedSized', "{'length': 1, 'flagbuildnone': False}"),
   ('record.reserved4<<<', 'NullStripped', "{'flagbuildnone': False}"),
   ('record.reserved4<<<<', 'GreedyBytes', "{'flagbuildnone': False}"),
   ('record.blanks6', 'PaddedString', "{'flagbuildnone': False}"),
   ('record.blanks6<', 'StringEncoded', "{'encoding': 'ascii', 'flagbuildnone': False}"),
   ('record.blanks6<<', 'FixedSized', "{'length': 64, 'flagbuildnone': False}"),
   ('record.blanks6<<<', 'NullStripped', "{'flagbuildnone': False}"),
   ('record.blanks6<<<<', 'GreedyBytes', "{'flagbuildnone': False}"),
   ('record.number_of_sar_data_records', 'AsciiInteger', "{'flagbuildnone': False}"),
   ('record.number_of_sar_data_records<',
    'StringEncoded',
    "{'encoding': 'ascii', 'flagbuildnone': False}"),
   ('record.number_of_sar_data_records<<', 'FixedSized', "{'length': 6, 'flagbuildnone': False}"),
   ('record.number_of_sar_data_records<<<', 'NullStripped', "{'flagbuildnone': False}"),
   ('record.number_of_sar_data_records<<<<', 'GreedyBytes', "{'flagbuildnone': False}"),
   ('record.sar_data_record_length', 'AsciiInteger', "{'flagbuildnone': False}"),
   ('record.sar_data_record_length<',
    'StringEncoded',
    "{'encoding': 'ascii', 'flagbuildnone': False}"),
   ('record.sar_data_record_length<<', 'FixedSized', "{'length': 6, 'flagbuildnone': False}"),
   ('record.sar_data_record_length<<<', 'NullStripped', "{'flagbuildnone': False}"),
   ('record.sar_data_record_length<<<<', 'GreedyBytes', "{'flagbuildnone': False}"),
   ('record.reserved5', 'PaddedString', "{'flagbuildnone': False}"),
   ('record.reserved5<', 'StringEncoded', "{'encoding': 'ascii', 'flagbuildnone': False}"),
   ('record.reserved5<<', 'FixedSized', "{'length': 24, 'flagbuildnone': False}"),
   ('record.reserved5<<<', 'NullStripped', "{'flagbuildnone': False}"),
   ('record.reserved5<<<<', 'GreedyBytes', "{'flagbuildnone': False}"),
   ('record.sample_group_data', 'Struct', "{'flagbuildnone': False}"),
   ('record.sample_group_data.bit_length_per_sample', 'AsciiInteger', "{'flagbuildnone': False}"),
   ('record.sample_group_data.bit_length_per_sample<',
    'StringEncoded',
    "{'encoding': 'ascii', 'flagbuildnone': False}"),
   ('record.sample_group_data.bit_length_per_sample<<',
    'FixedSized',
    "{'length': 4, 'flagbuildnone': False}"),
   ('record.sample_group_data.bit_length_per_sample<<<',
    'NullStripped',
    "{'flagbuildnone': False}"),
   ('record.sample_group_data.bit_length_per_sample<<<<',
    'GreedyBytes',
    "{'flagbuildnone': False}"),
   ('record.sample_group_data.number_of_samples_per_data_group',
    'AsciiInteger',
    "{'flagbuildnone': False}"),
   ('record.sample_group_data.number_of_samples_per_data_group<',
    'StringEncoded',
    "{'encoding': 'ascii', 'flagbuildnone': False}"),
   ('record.sample_group_data.number_of_samples_per_data_group<<',
    'FixedSized',
    "{'length': 4, 'flagbuildnone': False}"),
   ('record.sample_group_data.number_of_samples_per_data_group<<<',
    'NullStripped',
    "{'flagbuildnone': False}"),
   ('record.sample_group_data.number_of_samples_per_data_group<<<<',
    'GreedyBytes',
    "{'flagbuildnone': False}"),
   ('record.sample_group_data.number_of_bytes_per_data_group',
    'AsciiInteger',
    "{'flagbuildnone': False}"),
   ('record.sample_group_data.number_of_bytes_per_data_group<',
    'StringEncoded',
    "{'encoding': 'ascii', 'flagbuildnone': False}"),
   ('record.sample_group_data.number_of_bytes_per_data_group<<',
    'FixedSized',
    "{'length': 4, 'flagbuildnone': False}"),
   ('record.sample_group_data.number_of_bytes_per_data_group<<<',
    'NullStripped',
    "{'flagbuildnone': False}"),
   ('record.sample_group_data.number_of_bytes_per_data_group<<<<',
    'GreedyBytes',
    "{'flagbuildnone': False}"),
   ('record.sample_group_data.justification_and_order_of_samples_within_data_group',
    'PaddedString',
    "{'flagbuildnone': False}"),
   ('record.sample_group_data.justification_and_order_of_samples_within_data_group<',
    'StringEncoded',
    "{'encoding': 'ascii', 'flagbuildnone': False}"),
   ('record.sample_group_data.justification_and_order_of_samples_within_data_group<<',
    'FixedSized',
    "{'length': 4, 'flagbuildnone': False}"),
   ('record.sample_group_data.justification_and_order_of_samples_within_data_group<<<',
    'NullStripped',
    "{'flagbuildnone': False}"),
   ('record.sample_group_data.justification_and_order_of_samples_within_data_group<<<<',
    'GreedyBytes',
    "{'flagbuildnone': False}"),
   ('record.sar_related_data_in_the_record', 'Struct', "{'flagbuildnone': False}"),
   ('record.sar_related_data_in_the_record.number_of_sar_channels',
    'AsciiInteger',
    "{'flagbuildnone': False}"),
   ('record.sar_related_data_in_the_record.number_of_sar_channels<',
    'StringEncoded',
    "{'encoding': 'ascii', 'flagbuildnone': False}"),
   ('record.sar_related_data_in_the_record.number_of_sar_channels<<',
    'FixedSized',
    "{'length': 4, 'flagbuildnone': False}"),
   ('record.sar_related_data_in_the_record.number_of_sar_channels<<<',
    'NullStripped',
    "{'flagbuildnone': False}"),
   ('record.sar_related_data_in_the_record.number_of_sar_channels<<<<',
    'GreedyBytes',
    "{'flagbuildnone': False}"),
   ('record.sar_related_data_in_the_record.number_of_lines_per_dataset',
    'AsciiInteger',
    "{'flagbuildnone': False}"),
   ('record.sar_related_data_in_the_record.number_of_lines_per_dataset<',
    'StringEncoded',
    "{'encoding': 'ascii', 'flagbuildnone': False}"),
   ('record.sar_related_data_in_the_record.number_of_lines_per_dataset<<',
    'FixedSized',
    "{'length': 8, 'flagbuildnone': False}"),
   ('record.sar_related_data_in_the_record.number_of_lines_per_dataset<<<',
    'NullStripped',
    "{'flagbuildnone': False}"),
   ('record.sar_related_data_in_the_record.number_of_lines_per_dataset<<<<',
    'GreedyBytes',
    "{'flagbuildnone': False}"),
   ('record.sar_related_data_in_the_record.number_of_left_border_pixels_per_line',
    'AsciiInteger',
    "{'flagbuildnone': False}"),
   ('record.sar_related_data_in_the_record.number_of_left_border_pixels_per_line<',
    'StringEncoded',
    "{'encoding': 'ascii', 'flagbuildnone': False}"),
   ('record.sar_related_data_in_the_record.number_of_left_border_pixels_per_line<<',
    'FixedSized',
    "{'length': 4, 'flagbuildnone': False}"),
   ('record.sar_related_data_in_the_record.number_of_left_border_pixels_per_line<<<',
    'NullStripped',
    "{'flagbuildnone': False}"),
   ('record.sar_related_data_in_the_record.number_of_left_border_pixels_per_line<<<<',
    'GreedyBytes',
    "{'flagbuildnone': False}"),
   ('record.sar_related_data_in_the_record.number_of_data_groups_per_line',
    'AsciiInteger',
    "{'flagbuildnone': False}"),
   ('record.sar_related_data_in_the_record.number_of_data_groups_per_line<',
    'StringEncoded',
    "{'encoding': 'ascii', 'flagbuildnone': False}"),
   ('record.sar_related_data_in_the_record.number_of_data_groups_per_line<<',
    'FixedSized',
    "{'length': 8, 'flagbuildnone': False}"),
   ('record.sar_related_data_in_the_record.number_of_data_groups_per_line<<<',
    'NullStripped',
    "{'flagbuildnone': False}"),
   ('record.sar_related_data_in_the_record.number_of_data_groups_per_line<<<<',
    'GreedyBytes',
    "{'flagbuildnone': False}"),
   ('record.sar_related_data_in_the_record.number_of_right_border_pixels_per_line',
    'AsciiInteger',
    "{'flagbuildnone': False}"),
   ('record.sar_related_data_in_the_record.number_of_right_border_pixels_per_line<',
    'StringEncoded',
    "{'encoding': 'ascii', 'flagbuildnone': False}"),
   ('record.sar_related_data_in_the_record.number_of_right_border_pixels_per_line<<',
    'FixedSized',
    "{'length': 4, 'flagbuildnone': False}"),
   ('record.sar_related_data_in_the_record.number_of_right_border_pixels_per_line<<<',
    'NullStripped',
    "{'flagbuildnone': False}"),
   ('record.sar_related_data_in_the_record.number_of_right_border_pixels_per_line<<<<',
    'GreedyBytes',
    "{'flagbuildnone': False}"),
   ('record.sar_related_data_in_the_record.number_of_top_border_lines',
    'AsciiInteger',
    "{'flagbuildnone': False}"),
   ('record.sar_related_data_in_the_record.number_of_top_border_lines<',
    'StringEncoded',
    "{'encoding': 'ascii', 'flagbuildnone': False}"),
   ('record.sar_related_data_in_the_record.number_of_top_border_lines<<',
    'FixedSized',
    "{'length': 4, 'flagbuildnone': False}"),
   ('record.sar_related_data_in_the_record.number_of_top_border_lines<<<',
    'NullStripped',
    "{'flagbuildnone': False}"),
   ('record.sar_related_data_in_the_record.number_of_top_border_lines<<<<',
    'GreedyBytes',
    "{'flagbuildnone': False}"),
   ('record.sar_related_data_in_the_record.number_of_bottom_border_lines',
    'AsciiInteger',
    "{'flagbuildnone': False}"),
   ('record.sar_related_data_in_the_record.number_of_bottom_border_lines<',
    'StringEncoded',
    "{'encoding': 'ascii', 'flagbuildnone': False}"),
   ('record.sar_related_data_in_the_record.number_of_bottom_border_lines<<',
    'FixedSized',
    "{'length': 4, 'flagbuildnone': False}"),
   ('record.sar_related_data_in_the_record.number_of_bottom_border_lines<<<',
    'NullStripped',
    "{'flagbuildnone': False}"),
   ('record.sar_related_data_in_the_record.number_of_bottom_border_lines<<<<',
    'GreedyBytes',
    "{'flagbuildnone': False}"),
   ('record.sar_related_data_in_the_record.interleaving_id',
    'PaddedString',
    "{'flagbuildnone': False}"),
   ('record.sar_related_data_in_the_record.interleaving_id<',
    'StringEncoded',
    "{'encoding': 'ascii', 'flagbuildnone': False}"),
   ('record.sar_related_data_in_the_record.interleaving_id<<',
    'FixedSized',
    "{'length': 4, 'flagbuildnone': False}"),
   ('record.sar_related_data_in_the_record.interleaving_id<<<',
    'NullStripped',
    "{'flagbuildnone': False}"),
   ('record.sar_related_data_in_the_record.interleaving_id<<<<',
    'GreedyBytes',
    "{'flagbuildnone': False}"),
   ('record.record_data_in_the_file', 'Struct', "{'flagbuildnone': False}"),
   ('record.record_data_in_the_file.number_of_physical_records_per_line',
    'AsciiInteger',
    "{'flagbuildnone': False}"),
   ('record.record_data_in_the_file.number_of_physical_records_per_line<',
    'StringEncoded',
    "{'encoding': 'ascii', 'flagbuildnone': False}"),
   ('record.record_data_in_the_file.number_of_physical_records_per_line<<',
    'FixedSized',
    "{'length': 2, 'flagbuildnone': False}"),
   ('record.record_data_in_the_file.number_of_physical_records_per_line<<<',
    'NullStripped',
    "{'flagbuildnone': False}"),
   ('record.record_data_in_the_file.number_of_physical_records_per_line<<<<',
    'GreedyBytes',
    "{'flagbuildnone': False}"),
   ('record.record_data_in_the_file.number_of_physical_records_per_multichannel_line_in_this_file',
    'AsciiInteger',
    "{'flagbuildnone': False}"),
   ('record.record_data_in_the_file.number_of_physical_records_per_multichannel_line_in_this_file<',
    'StringEncoded',
    "{'encoding': 'ascii', 'flagbuildnone': False}"),
   ('record.record_data_in_the_file.number_of_physical_records_per_multichannel_line_in_this_file<<',
    'FixedSized',
    "{'length': 2, 'flagbuildnone': False}"),
   ('record.record_data_in_the_file.number_of_physical_records_per_multichannel_line_in_this_file<<<',
    'NullStripped',
    "{'flagbuildnone': False}"),
   ('record.record_data_in_the_file.number_of_physical_records_per_multichannel_line_in_this_file<<<<',
    'GreedyBytes',
    "{'flagbuildnone': False}"),
   ('record.record_data_in_the_file.number_of_bytes_of_prefix_data_per_record',
    'AsciiInteger',
    "{'flagbuildnone': False}"),
   ('record.record_data_in_the_file.number_of_bytes_of_prefix_data_per_record<',
    'StringEncoded',
    "{'encoding': 'ascii', 'flagbuildnone': False}"),
   ('record.record_data_in_the_file.number_of_bytes_of_prefix_data_per_record<<',
    'FixedSized',
    "{'length': 4, 'flagbuildnone': False}"),
   ('record.record_data_in_the_file.number_of_bytes_of_prefix_data_per_record<<<',
    'NullStripped',
    "{'flagbuildnone': False}"),
   ('record.record_data_in_the_file.number_of_bytes_of_prefix_data_per_record<<<<',
    'GreedyBytes',
    "{'flagbuildnone': False}"),
   ('record.record_data_in_the_file.number_of_bytes_of_sar_data_per_record',
    'AsciiInteger',
    "{'flagbuildnone': False}"),
   ('record.record_data_in_the_file.number_of_bytes_of_sar_data_per_record<',
    'StringEncoded',
    "{'encoding': 'ascii', 'flagbuildnone': False}"),
   ('record.record_data_in_the_file.number_of_bytes_of_sar_data_per_record<<',
    'FixedSized',
    "{'length': 8, 'flagbuildnone': False}"),
   ('record.record_data_in_the_file.number_of_bytes_of_sar_data_per_record<<<',
    'NullStripped',
    "{'flagbuildnone': False}"),
   ('record.record_data_in_the_file.number_of_bytes_of_sar_data_per_record<<<<',
    'GreedyBytes',
    "{'flagbuildnone': False}"),
   ('record.record_data_in_the_file.number_of_bytes_of_suffix_data_per_record',
    'AsciiInteger',
    "{'flagbuildnone': False}"),
   ('record.record_data_in_the_file.number_of_bytes_of_suffix_data_per_record<',
    'StringEncoded',
    "{'encoding': 'ascii', 'flagbuildnone': False}"),
   ('record.record_data_in_the_file.number_of_bytes_of_suffix_data_per_record<<',
    'FixedSized',
    "{'length': 4, 'flagbuildnone': False}"),
   ('record.record_data_in_the_file.number_of_bytes_of_suffix_data_per_record<<<',
    'NullStripped',
    "{'flagbuildnone': False}"),
   ('record.record_data_in_the_file.number_of_bytes_of_suffix_data_per_record<<<<',
    'GreedyBytes',
    "{'flagbuildnone': False}"),
   ('record.record_data_in_the_file.prefix_suffix_repeat_flag',
    'PaddedString',
    "{'flagbuildnone': False}"),
   ('record.record_data_in_the_file.prefix_suffix_repeat_flag<',
    'StringEncoded',
    "{'encoding': 'ascii', 'flagbuildnone': False}"),
   ('record.record_data_in_the_file.prefix_suffix_repeat_flag<<',
    'FixedSized',
    "{'length': 4, 'flagbuildnone': False}"),
   ('record.record_data_in_the_file.prefix_suffix_repeat_flag<<<',
    'NullStripped',
    "{'flagbuildnone': False}"),
   ('record.record_data_in_the_file.prefix_suffix_repeat_flag<<<<',
    'GreedyBytes',
    "{'flagbuildnone': False}"),
   ('record.prefix_suffix_data_locators', 'Struct', "{'flagbuildnone': False}"),
   ('record.prefix_suffix_data_locators.sample_data_line_number_locator',
    'PaddedString',
    "{'flagbuildnone': False}"),
   ('record.prefix_suffix_data_locators.sample_data_line_number_locator<',
    'StringEncoded',
    "{'encoding': 'ascii', 'flagbuildnone': False}"),
   ('record.prefix_suffix_data_locators.sample_data_line_number_locator<<',
    'FixedSized',
    "{'length': 8, 'flagbuildnone': False}"),
   ('record.prefix_suffix_data_locators.sample_data_line_number_locator<<<',
    'NullStripped',
    "{'flagbuildnone': False}"),
   ('record.prefix_suffix_data_locators.sample_data_line_number_locator<<<<',
    'GreedyBytes',
    "{'flagbuildnone': False}"),
   ('record.prefix_suffix_data_locators.sar_channel_number_locator',
    'PaddedString',
    "{'flagbuildnone': False}"),
   ('record.prefix_suffix_data_locators.sar_channel_number_locator<',
    'StringEncoded',
    "{'encoding': 'ascii', 'flagbuildnone': False}"),
   ('record.prefix_suffix_data_locators.sar_channel_number_locator<<',
    'FixedSized',
    "{'length': 8, 'flagbuildnone': False}"),
   ('record.prefix_suffix_data_locators.sar_channel_number_locator<<<',
    'NullStripped',
    "{'flagbuildnone': False}"),
   ('record.prefix_suffix_data_locators.sar_channel_number_locator<<<<',
    'GreedyBytes',
    "{'flagbuildnone': False}"),
   ('record.prefix_suffix_data_locators.time_of_sar_data_line_locator',
    'PaddedString',
    "{'flagbuildnone': False}"),
   ('record.prefix_suffix_data_locators.time_of_sar_data_line_locator<',
    'StringEncoded',
    "{'encoding': 'ascii', 'flagbuildnone': False}"),
   ('record.prefix_suffix_data_locators.time_of_sar_data_line_locator<<',
    'FixedSized',
    "{'length': 8, 'flagbuildnone': False}"),
   ('record.prefix_suffix_data_locators.time_of_sar_data_line_locator<<<',
    'NullStripped',
    "{'flagbuildnone': False}"),
   ('record.prefix_suffix_data_locators.time_of_sar_data_line_locator<<<<',
    'GreedyBytes',
    "{'flagbuildnone': False}"),
   ('record.prefix_suffix_data_locators.left_fill_count_locator',
    'PaddedString',
    "{'flagbuildnone': False}"),
   ('record.prefix_suffix_data_locators.left_fill_count_locator<',
    'StringEncoded',
    "{'encoding': 'ascii', 'flagbuildnone': False}"),
   ('record.prefix_suffix_data_locators.left_fill_count_locator<<',
    'FixedSized',
    "{'length': 8, 'flagbuildnone': False}"),
   ('record.prefix_suffix_data_locators.left_fill_count_locator<<<',
    'NullStripped',
    "{'flagbuildnone': False}"),
   ('record.prefix_suffix_data_locators.left_fill_count_locator<<<<',
    'GreedyBytes',
    "{'flagbuildnone': False}"),
   ('record.prefix_suffix_data_locators.right_fill_count_locator',
    'PaddedString',
    "{'flagbuildnone': False}"),
   ('record.prefix_suffix_data_locators.right_fill_count_locator<',
    'StringEncoded',
    "{'encoding': 'ascii', 'flagbuildnone': False}"),
   ('record.prefix_suffix_data_locators.right_fill_count_locator<<',
    'FixedSized',
    "{'length': 8, 'flagbuildnone': False}"),
   ('record.prefix_suffix_data_locators.right_fill_count_locator<<<',
    'NullStripped',
    "{'flagbuildnone': False}"),
   ('record.prefix_suffix_data_locators.right_fill_count_locator<<<<',
    'GreedyBytes',
    "{'flagbuildnone': False}"),
   ('record.prefix_suffix_data_locators.pad_pixels_present_indicator',
    'PaddedString',
    "{'flagbuildnone': False}"),
   ('record.prefix_suffix_data_locators.pad_pixels_present_indicator<',
    'StringEncoded',
    "{'encoding': 'ascii', 'flagbuildnone': False}"),
   ('record.prefix_suffix_data_locators.pad_pixels_present_indicator<<',
    'FixedSized',
    "{'length': 4, 'flagbuildnone': False}"),
   ('record.prefix_suffix_data_locators.pad_pixels_present_indicator<<<',
    'NullStripped',
    "{'flagbuildnone': False}"),
   ('record.prefix_suffix_data_locators.pad_pixels_present_indicator<<<<',
    'GreedyBytes',
    "{'flagbuildnone': False}"),
   ('record.prefix_suffix_data_locators.blanks', 'PaddedString', "{'flagbuildnone': False}"),
   ('record.prefix_suffix_data_locators.blanks<',
    'StringEncoded',
    "{'encoding': 'ascii', 'flagbuildnone': False}"),
   ('record.prefix_suffix_data_locators.blanks<<',
    'FixedSized',
    "{'length': 28, 'flagbuildnone': False}"),
   ('record.prefix_suffix_data_locators.blanks<<<', 'NullStripped', "{'flagbuildnone': False}"),
   ('record.prefix_suffix_data_locators.blanks<<<<', 'GreedyBytes', "{'flagbuildnone': False}"),
   ('record.prefix_suffix_data_locators.sar_data_line_quality_code_locator',
    'PaddedString',
    "{'flagbuildnone': False}"),
   ('record.prefix_suffix_data_locators.sar_data_line_quality_code_locator<',
    'StringEncoded',
    "{'encoding': 'ascii', 'flagbuildnone': False}"),
   ('record.prefix_suffix_data_locators.sar_data_line_quality_code_locator<<',
    'FixedSized',
    "{'length': 8, 'flagbuildnone': False}"),
   ('record.prefix_suffix_data_locators.sar_data_line_quality_code_locator<<<',
    'NullStripped',
    "{'flagbuildnone': False}"),
   ('record.prefix_suffix_data_locators.sar_data_line_quality_code_locator<<<<',
    'GreedyBytes',
    "{'flagbuildnone': False}"),
   ('record.prefix_suffix_data_locators.calibration_information_field_locator',
    'PaddedString',
    "{'flagbuildnone': False}"),
   ('record.prefix_suffix_data_locators.calibration_information_field_locator<',
    'StringEncoded',
    "{'encoding': 'ascii', 'flagbuildnone': False}"),
   ('record.prefix_suffix_data_locators.calibration_information_field_locator<<',
    'FixedSized',
    "{'length': 8, 'flagbuildnone': False}"),
   ('record.prefix_suffix_data_locators.calibration_information_field_locator<<<',
    'NullStripped',
    "{'flagbuildnone': False}"),
   ('record.prefix_suffix_data_locators.calibration_information_field_locator<<<<',
    'GreedyBytes',
    "{'flagbuildnone': False}"),
   ('record.prefix_suffix_data_locators.gain_values_field_locator',
    'PaddedString',
    "{'flagbuildnone': False}"),
   ('record.prefix_suffix_data_locators.gain_values_field_locator<',
    'StringEncoded',
    "{'encoding': 'ascii', 'flagbuildnone': False}"),
   ('record.prefix_suffix_data_locators.gain_values_field_locator<<',
    'FixedSized',
    "{'length': 8, 'flagbuildnone': False}"),
   ('record.prefix_suffix_data_locators.gain_values_field_locator<<<',
    'NullStripped',
    "{'flagbuildnone': False}"),
   ('record.prefix_suffix_data_locators.gain_values_field_locator<<<<',
    'GreedyBytes',
    "{'flagbuildnone': False}"),
   ('record.prefix_suffix_data_locators.bias_values_field_locator',
    'PaddedString',
    "{'flagbuildnone': False}"),
   ('record.prefix_suffix_data_locators.bias_values_field_locator<',
    'StringEncoded',
    "{'encoding': 'ascii', 'flagbuildnone': False}"),
   ('record.prefix_suffix_data_locators.bias_values_field_locator<<',
    'FixedSized',
    "{'length': 8, 'flagbuildnone': False}"),
   ('record.prefix_suffix_data_locators.bias_values_field_locator<<<',
    'NullStripped',
    "{'flagbuildnone': False}"),
   ('record.prefix_suffix_data_locators.bias_values_field_locator<<<<',
    'GreedyBytes',
    "{'flagbuildnone': False}"),
   ('record.prefix_suffix_data_locators.sar_data_format_type_indicator',
    'PaddedString',
    "{'flagbuildnone': False}"),
   ('record.prefix_suffix_data_locators.sar_data_format_type_indicator<',
    'StringEncoded',
    "{'encoding': 'ascii', 'flagbuildnone': False}"),
   ('record.prefix_suffix_data_locators.sar_data_format_type_indicator<<',
    'FixedSized',
    "{'length': 28, 'flagbuildnone': False}"),
   ('record.prefix_suffix_data_locators.sar_data_format_type_indicator<<<',
    'NullStripped',
    "{'flagbuildnone': False}"),
   ('record.prefix_suffix_data_locators.sar_data_format_type_indicator<<<<',
    'GreedyBytes',
    "{'flagbuildnone': False}"),
   ('record.prefix_suffix_data_locators.sar_data_format_type_code',
    'PaddedString',
    "{'flagbuildnone': False}"),
   ('record.prefix_suffix_data_locators.sar_data_format_type_code<',
    'StringEncoded',
    "{'encoding': 'ascii', 'flagbuildnone': False}"),
   ('record.prefix_suffix_data_locators.sar_data_format_type_code<<',
    'FixedSized',
    "{'length': 4, 'flagbuildnone': False}"),
   ('record.prefix_suffix_data_locators.sar_data_format_type_code<<<',
    'NullStripped',
    "{'flagbuildnone': False}"),
   ('record.prefix_suffix_data_locators.sar_data_format_type_code<<<<',
    'GreedyBytes',
    "{'flagbuildnone': False}"),
   ('record.prefix_suffix_data_locators.number_of_left_fill_bits_within_pixel',
    'AsciiInteger',
    "{'flagbuildnone': False}"),
   ('record.prefix_suffix_data_locators.number_of_left_fill_bits_within_pixel<',
    'StringEncoded',
    "{'encoding': 'ascii', 'flagbuildnone': False}"),
   ('record.prefix_suffix_data_locators.number_of_left_fill_bits_within_pixel<<',
    'FixedSized',
    "{'length': 4, 'flagbuildnone': False}"),
   ('record.prefix_suffix_data_locators.number_of_left_fill_bits_within_pixel<<<',
    'NullStripped',
    "{'flagbuildnone': False}"),
   ('record.prefix_suffix_data_locators.number_of_left_fill_bits_within_pixel<<<<',
    'GreedyBytes',
    "{'flagbuildnone': False}"),
   ('record.prefix_suffix_data_locators.number_of_right_fill_bits_within_pixel',
    'AsciiInteger',
    "{'flagbuildnone': False}"),
   ('record.prefix_suffix_data_locators.number_of_right_fill_bits_within_pixel<',
    'StringEncoded',
    "{'encoding': 'ascii', 'flagbuildnone': False}"),
   ('record.prefix_suffix_data_locators.number_of_right_fill_bits_within_pixel<<',
    'FixedSized',
    "{'length': 4, 'flagbuildnone': False}"),
   ('record.prefix_suffix_data_locators.number_of_right_fill_bits_within_pixel<<<',
    'NullStripped',
    "{'flagbuildnone': False}"),
   ('record.prefix_suffix_data_locators.number_of_right_fill_bits_within_pixel<<<<',
    'GreedyBytes',
    "{'flagbuildnone': False}"),
   ('record.prefix_suffix_data_locators.maximum_data_range_of_pixel',
    'AsciiInteger',
    "{'flagbuildnone': False}"),
   ('record.prefix_suffix_data_locators.maximum_data_range_of_pixel<',
    'StringEncoded',
    "{'encoding': 'ascii', 'flagbuildnone': False}"),
   ('record.prefix_suffix_data_locators.maximum_data_range_of_pixel<<',
    'FixedSized',
    "{'length': 8, 'flagbuildnone': False}"),
   ('record.prefix_suffix_data_locators.maximum_data_range_of_pixel<<<',
    'NullStripped',
    "{'flagbuildnone': False}"),
   ('record.prefix_suffix_data_locators.maximum_data_range_of_pixel<<<<',
    'GreedyBytes',
    "{'flagbuildnone': False}"),
   ('record.prefix_suffix_data_locators.number_of_burst_data',
    'AsciiInteger',
    "{'flagbuildnone': False}"),
   ('record.prefix_suffix_data_locators.number_of_burst_data<',
    'StringEncoded',
    "{'encoding': 'ascii', 'flagbuildnone': False}"),
   ('record.prefix_suffix_data_locators.number_of_burst_data<<',
    'FixedSized',
    "{'length': 4, 'flagbuildnone': False}"),
   ('record.prefix_suffix_data_locators.number_of_burst_data<<<',
    'NullStripped',
    "{'flagbuildnone': False}"),
   ('record.prefix_suffix_data_locators.number_of_burst_data<<<<',
    'GreedyBytes',
    "{'flagbuildnone': False}"),
   ('record.prefix_suffix_data_locators.number_of_lines_per_burst',
    'AsciiInteger',
    "{'flagbuildnone': False}"),
   ('record.prefix_suffix_data_locators.number_of_lines_per_burst<',
    'StringEncoded',
    "{'encoding': 'ascii', 'flagbuildnone': False}"),
   ('record.prefix_suffix_data_locators.number_of_lines_per_burst<<',
    'FixedSized',
    "{'length': 4, 'flagbuildnone': False}"),
   ('record.prefix_suffix_data_locators.number_of_lines_per_burst<<<',
    'NullStripped',
    "{'flagbuildnone': False}"),
   ('record.prefix_suffix_data_locators.number_of_lines_per_burst<<<<',
    'GreedyBytes',
    "{'flagbuildnone': False}"),
   ('record.scansar_burst_data_information', 'Struct', "{'flagbuildnone': False}"),
   ('record.scansar_burst_data_information.number_of_overlap_lines_with_adjacent_bursts',
    'AsciiInteger',
    "{'flagbuildnone': False}"),
   ('record.scansar_burst_data_information.number_of_overlap_lines_with_adjacent_bursts<',
    'StringEncoded',
    "{'encoding': 'ascii', 'flagbuildnone': False}"),
   ('record.scansar_burst_data_information.number_of_overlap_lines_with_adjacent_bursts<<',
    'FixedSized',
    "{'length': 4, 'flagbuildnone': False}"),
   ('record.scansar_burst_data_information.number_of_overlap_lines_with_adjacent_bursts<<<',
    'NullStripped',
    "{'flagbuildnone': False}"),
   ('record.scansar_burst_data_information.number_of_overlap_lines_with_adjacent_bursts<<<<',
    'GreedyBytes',
    "{'flagbuildnone': False}"),
   ('record.scansar_burst_data_information.blanks', 'PaddedString', "{'flagbuildnone': False}"),
   ('record.scansar_burst_data_information.blanks<',
    'StringEncoded',
    "{'encoding': 'ascii', 'flagbuildnone': False}"),
   ('record.scansar_burst_data_information.blanks<<',
    'FixedSized',
    "{'length': 260, 'flagbuildnone': False}"),
   ('record.scansar_burst_data_information.blanks<<<', 'NullStripped', "{'flagbuildnone': False}"),
   ('record.scansar_burst_data_information.blanks<<<<',
    'GreedyBytes',
    "{'flagbuildnone': False}")]),
 ('field names',
  ['preamble',
   'ascii_ebcdic_flag',
   'blanks1',
   'format_control_document_id',
   'format_control_document_revision_level',
   'file_design_descriptor_revision_letter',
   'software_release_and_revision_number',
   'file_number',
   'file_id',
   'record_sequence_and_location_type_flag',
   'location_sequence_number',
   'field_length_of_sequence_number',
   'record_code_and_location_type_flag',
   'record_code_location',
   'record_code_field_length',
   'record_length_and_location_type_flag',
   'record_length_location',
   'record_length_field_length',
   'reserved1',
   'reserved2',
   'reserved3',
   'reserved4',
   'blanks6',
   'number_of_sar_data_records',
   'sar_data_record_length',
   'reserved5',
   'sample_group_data',
   'sar_related_data_in_the_record',
   'record_data_in_the_file',
   'prefix_suffix_data_locators',
   'scansar_burst_data_information']),
 ('lookup',
  ['preamble',
   'ascii_ebcdic_flag',
   'blanks1',
   'format_control_document_id',
   'format_control_document_revision_level',
   'file_design_descriptor_revision_letter',
   'software_release_and_revision_number',
   'file_number',
   'file_id',
   'record_sequence_and_location_type_flag',
   'location_sequence_number',
   'field_length_of_sequence_number',
   'record_code_and_location_type_flag',
   'record_code_location',
   'record_code_field_length',
   'record_length_and_location_type_flag',
   'record_length_location',
   'record_length_field_length',
   'reserved1',
   'reserved2',
   'reserved3',
   'reserved4',
   'blanks6',
   'number_of_sar_data_records',
   'sar_data_record_length',
   'reserved5',
   'sample_group_data',
   'sar_related_data_in_the_record',
   'record_data_in_the_file',
   'prefix_suffix_data_locators',
   'scansar_burst_data_information']),
 ('sizeof', 'int 720'),
 ('nested sizeof',
  [('preamble', 12),
   ('sample_group_data', 16),
   ('sar_related_data_in_the_record', 40),
   ('record_data_in_the_file', 24),
   ('prefix_suffix_data_locators', 160),
   ('scansar_burst_data_information', 264)]),
 ('module names',
  ['Struct', 'record_preamble', 'AsciiInteger', 'PaddedString', 'file_descriptor_record']),
 ('common names', ['Int32ub', 'Int8ub', 'Struct', 'record_preamble']),
 ('blank',
  "dict {'preamble': {'record_sequence_number': 0, 'first_record_subtype': 63, 'record_type': 192, "
  "'second_record_subtype': 18, 'third_record_subtype': 18, 'record_length': 720}, "
  "'ascii_ebcdic_flag': '', 'blanks1': '', 'format_control_document_id': '', "
  "'format_control_document_revision_level': '', 'file_design_descriptor_revision_letter': '', "
  "'software_release_and_revision_number': '', 'file_number': -1, 'file_id': '', "
  "'record_sequence_and_location_type_flag': '', 'location_sequence_number': -1, "
  "'field_length_of_sequence_number': -1, 'record_code_and_location_type_flag': '', "
  "'record_code_location': -1, 'record_code_field_length': -1, "
  "'record_length_and_location_type_flag': '', 'record_length_location': -1, "
  "'record_length_field_length': -1, 'reserved1': '', 'reserved2': '', 'reserved3': '', "
  "'reserved4': '', 'blanks6': '', 'number_of_sar_data_records': -1, 'sar_data_record_length': -1, "
  "'reserved5': '', 'sample_group_data': {'bit_length_per_sample': -1, "
  "'number_of_samples_per_data_group': -1, 'number_of_bytes_per_data_group': -1, "
  "'justification_and_order_of_samples_within_data_group': ''}, 'sar_related_data_in_the_record': "
  "{'number_of_sar_channels': -1, 'number_of_lines_per_dataset': -1, "
  "'number_of_left_border_pixels_per_line': -1, 'number_of_data_groups_per_line': -1, "
  "'number_of_right_border_pixels_per_line': -1, 'number_of_top_border_lines': -1, "
  "'number_of_bottom_border_lines': -1, 'interleaving_id': ''}, 'record_data_in_the_file': "
  "{'number_of_physical_records_per_line': -1, "
  "'number_of_physical_records_per_multichannel_line_in_this_file': -1, "
  "'number_of_bytes_of_prefix_data_per_record': -1, 'number_of_bytes_of_sar_data_per_record': -1, "
  "'number_of_bytes_of_suffix_data_per_record': -1, 'prefix_suffix_repeat_flag': ''}, "
  "'prefix_suffix_data_locators': {'sample_data_line_number_locator': '', "
  "'sar_channel_number_locator': '', 'time_of_sar_data_line_locator': '', "
  "'left_fill_count_locator': '', 'right_fill_count_locator': '', 'pad_pixels_present_indicator': "
  "'', 'blanks': '', 'sar_data_line_quality_code_locator': '', "
  "'calibration_information_field_locator': '', 'gain_values_field_locator': '', "
  "'bias_values_field_locator': '', 'sar_data_format_type_indicator': '', "
  "'sar_data_format_type_code': '', 'number_of_left_fill_bits_within_pixel': -1, "
  "'number_of_right_fill_bits_within_pixel': -1, 'maximum_data_range_of_pixel': -1, "
  "'number_of_burst_data': -1, 'number_of_lines_per_burst': -1}, 'scansar_burst_data_information': "
  "{'number_of_overlap_lines_with_adjacent_bursts': -1, 'blanks': ''}}"),
 ('left padded',
  "dict {'preamble': {'record_sequence_number': 1, 'first_record_subtype': 63, 'record_type': 192, "
  "'second_record_subtype': 18, 'third_record_subtype': 18, 'record_length': 720}, "
  "'ascii_ebcdic_flag': 'sW', 'blanks1': 'd', 'format_control_document_id': 'eE', "
  "'format_control_document_revision_level': 'L', 'file_design_descriptor_revision_letter': 'B', "
  "'software_release_and_revision_number': 'Zf9fr_sOB*', 'file_number': 935, 'file_id': "
  "'kM2NTjh0Fb', 'record_sequence_and_location_type_flag': 'xMB', 'location_sequence_number': "
  "357655, 'field_length_of_sequence_number': 2, 'record_code_and_location_type_flag': 'oD', "
  "'record_code_location': 934035, 'record_code_field_length': 7200, "
  "'record_length_and_location_type_flag': '2pFs', 'record_length_location': 784280, "
  "'record_length_field_length': 161, 'reserved1': '4', 'reserved2': 'X', 'reserved3': 'q', "
  "'reserved4': 'Y', 'blanks6': 'fvXulMHOqvQAJi0BO5w27Ae', 'number_of_sar_data_records': 43003, "
  "'sar_data_record_length': 1791, 'reserved5': '.Ohm_**p6k', 'sample_group_data': "
  "{'bit_length_per_sample': 8, 'number_of_samples_per_data_group': 24, "
  "'number_of_bytes_per_data_group': 6568, 'justification_and_order_of_samples_within_data_group': "
  "'CK5y'}, 'sar_related_data_in_the_record': {'number_of_sar_channels': 9837, "
  "'number_of_lines_per_dataset': 4708, 'number_of_left_border_pixels_per_line': 87, "
  "'number_of_data_groups_per_line': 47, 'number_of_right_border_pixels_per_line': 7140, "
  "'number_of_top_border_lines': 2270, 'number_of_bottom_border_lines': 2199, 'interleaving_id': "
  "'kJbI'}, 'record_data_in_the_file': {'number_of_physical_records_per_line': 15, "
  "'number_of_physical_records_per_multichannel_line_in_this_file': 47, "
  "'number_of_bytes_of_prefix_data_per_record': 33, 'number_of_bytes_of_sar_data_per_record': "
  "728995, 'number_of_bytes_of_suffix_data_per_record': 27, 'prefix_suffix_repeat_flag': '7'}, "
  "'prefix_suffix_data_locators': {'sample_data_line_number_locator': 'TV', "
  "'sar_channel_number_locator': 'l2M', 'time_of_sar_data_line_locator': 'ff', "
  "'left_fill_count_locator': 'TB', 'right_fill_count_locator': 'OA_/', "
  "'pad_pixels_present_indicator': 'M9', 'blanks': 'rdV*a5hYHxRrrJb/KdfA', "
  "'sar_data_line_quality_code_locator': 'I.VFt4P', 'calibration_information_field_locator': "
  "'ZHst-JA', 'gain_values_field_locator': '4ZbDGzqt', 'bias_values_field_locator': 'D/4ikn6Q', "
  "'sar_data_format_type_indicator': 'JTIekEqXEGnO32vF*-sQh', 'sar_data_format_type_code': 'dE-', "
  "'number_of_left_fill_bits_within_pixel': 5, 'number_of_right_fill_bits_within_pixel': 3173, "
  "'maximum_data_range_of_pixel': 30, 'number_of_burst_data': 262, 'number_of_lines_per_burst': "
  "3602}, 'scansar_burst_data_information': {'number_of_overlap_lines_with_adjacent_bursts': 330, "
  "'blanks': "
  "'9kEUc/TzbmjoKFyH/qk52oPqpY3N_eyZiR*X4SXtpWaazVEG0_8PV7IQPd1zyAGZjmE1apSjQvPgSAVHd.Oba'}}"),
 ('right padded',
  "dict {'preamble': {'record_sequence_number': 2, 'first_record_subtype': 63, 'record_type': 192, "
  "'second_record_subtype': 18, 'third_record_subtype': 18, 'record_length': 720}, "
  "'ascii_ebcdic_flag': 'eW', 'blanks1': 'w', 'format_control_document_id': 'nQdq', "
  "'format_control_document_revision_level': 'B', 'file_design_descriptor_revision_letter': 'O7', "
  "'software_release_and_revision_number': 'C', 'file_number': 1585, 'file_id': 'u5YMp', "
  "'record_sequence_and_location_type_flag': 'kY', 'location_sequence_number': 6177654, "
  "'field_length_of_sequence_number': 85, 'record_code_and_location_type_flag': 'B', "
  "'record_code_location': 649, 'record_code_field_length': 4, "
  "'record_length_and_location_type_flag': '6RX5', 'record_length_location': 2, "
  "'record_length_field_length': 8129, 'reserved1': '3', 'reserved2': 'P', 'reserved3': '_', "
  "'reserved4': 'f', 'blanks6': 'e', 'number_of_sar_data_records': 22479, "
  "'sar_data_record_length': 7, 'reserved5': 'LyZ6EQCG_4-mJOTk8MA.', 'sample_group_data': "
  "{'bit_length_per_sample': 91, 'number_of_samples_per_data_group': 5119, "
  "'number_of_bytes_per_data_group': 69, 'justification_and_order_of_samples_within_data_group': "
  "'4W'}, 'sar_related_data_in_the_record': {'number_of_sar_channels': 5556, "
  "'number_of_lines_per_dataset': 7, 'number_of_left_border_pixels_per_line': 2, "
  "'number_of_data_groups_per_line': 4847078, 'number_of_right_border_pixels_per_line': 87, "
  "'number_of_top_border_lines': 35, 'number_of_bottom_border_lines': 7, 'interleaving_id': "
  "'z27'}, 'record_data_in_the_file': {'number_of_physical_records_per_line': 7, "
  "'number_of_physical_records_per_multichannel_line_in_this_file': 93, "
  "'number_of_bytes_of_prefix_data_per_record': 8243, 'number_of_bytes_of_sar_data_per_record': "
  "5806, 'number_of_bytes_of_suffix_data_per_record': 3, 'prefix_suffix_repeat_flag': 'hvuI'}, "
  "'prefix_suffix_data_locators': {'sample_data_line_number_locator': 'lW--', "
  "'sar_channel_number_locator': '5M1NsP', 'time_of_sar_data_line_locator': '1V*', "
  "'left_fill_count_locator': 't1', 'right_fill_count_locator': 'T9bl', "
  "'pad_pixels_present_indicator': 'by', 'blanks': 'r0p4.7YcE--bHu5sBsFSQhIUd3', "
  "'sar_data_line_quality_code_locator': 'HRRzyXp8', 'calibration_information_field_locator': "
  "'/nq', 'gain_values_field_locator': 'qc', 'bias_values_field_locator': 'O', "
  "'sar_data_format_type_indicator': 'b', 'sar_data_format_type_code': '1g5b', "
  "'number_of_left_fill_bits_within_pixel': 271, 'number_of_right_fill_bits_within_pixel': 182, "
  "'maximum_data_range_of_pixel': 5716796, 'number_of_burst_data': 4917, "
  "'number_of_lines_per_burst': 52}, 'scansar_burst_data_information': "
  "{'number_of_overlap_lines_with_adjacent_bursts': 173, 'blanks': "
  "'4SN1MuqzEOK2E_sx-wmHHIv5e_YWqiF2MjGNQTt2V8Cn_dmq4ul9Vy9HiYDfhE-b4Mp-BRyJ5q9Dkjqn/9nsxhEHRAkgP1kyiNyCjzt/Shtjj02o604-xqjhndeQ2Pb3x-y_Km8k7Q/rTIuK-NzsDWlI*N/vh14YpiY9F'}}"),
 ('centered, some blank',
  "dict {'preamble': {'record_sequence_number': 3, 'first_record_subtype': 63, 'record_type': 192, "
  "'second_record_subtype': 18, 'third_record_subtype': 18, 'record_length': 720}, "
  "'ascii_ebcdic_flag': '', 'blanks1': 'Qj', 'format_control_document_id': '2Y-drG', "
  "'format_control_document_revision_level': '', 'file_design_descriptor_revision_letter': 'QV', "
  "'software_release_and_revision_number': 'U/1Kc', 'file_number': -1, 'file_id': '-gmt', "
  "'record_sequence_and_location_type_flag': 'Lx', 'location_sequence_number': -1, "
  "'field_length_of_sequence_number': 477, 'record_code_and_location_type_flag': 'Iv8Q', "
  "'record_code_location': -1, 'record_code_field_length': 2594, "
  "'record_length_and_location_type_flag': '3Ei-', 'record_length_location': -1, "
  "'record_length_field_length': 9087, 'reserved1': 'U', 'reserved2': '', 'reserved3': 'D', "
  "'reserved4': 'Q', 'blanks6': '', 'number_of_sar_data_records': 97, 'sar_data_record_length': 0, "
  "'reserved5': '', 'sample_group_data': {'bit_length_per_sample': 8, "
  "'number_of_samples_per_data_group': 33, 'number_of_bytes_per_data_group': -1, "
  "'justification_and_order_of_samples_within_data_group': '6l'}, "
  "'sar_related_data_in_the_record': {'number_of_sar_channels': 2476, "
  "'number_of_lines_per_dataset': -1, 'number_of_left_border_pixels_per_line': 2940, "
  "'number_of_data_groups_per_line': 91461, 'number_of_right_border_pixels_per_line': -1, "
  "'number_of_top_border_lines': 122, 'number_of_bottom_border_lines': 84, 'interleaving_id': ''}, "
  "'record_data_in_the_file': {'number_of_physical_records_per_line': 60, "
  "'number_of_physical_records_per_multichannel_line_in_this_file': 38, "
  "'number_of_bytes_of_prefix_data_per_record': -1, 'number_of_bytes_of_sar_data_per_record': "
  "10094, 'number_of_bytes_of_suffix_data_per_record': 8, 'prefix_suffix_repeat_flag': ''}, "
  "'prefix_suffix_data_locators': {'sample_data_line_number_locator': 'H', "
  "'sar_channel_number_locator': '1X.', 'time_of_sar_data_line_locator': '', "
  "'left_fill_count_locator': '9NuMn', 'right_fill_count_locator': 'rV8BE', "
  "'pad_pixels_present_indicator': '', 'blanks': '.uHNr', 'sar_data_line_quality_code_locator': "
  "'c', 'calibration_information_field_locator': '', 'gain_values_field_locator': '4', "
  "'bias_values_field_locator': 'km', 'sar_data_format_type_indicator': '', "
  "'sar_data_format_type_code': 'sH.-', 'number_of_left_fill_bits_within_pixel': 940, "
  "'number_of_right_fill_bits_within_pixel': -1, 'maximum_data_range_of_pixel': 610730, "
  "'number_of_burst_data': 5513, 'number_of_lines_per_burst': -1}, "
  "'scansar_burst_data_information': {'number_of_overlap_lines_with_adjacent_bursts': 9, 'blanks': "
  "'LkKCyPxgTg5aRFLTL8GkqgshOCaAAD1rucUQkCs7oANwM6cl9EgUPPZLU1QtEl22fV8Q-JrJWaz.Qmo_d07kR20RD7CW3ehcy54f56F.IAf0aQTGVrBY7O3mwa17B-.Qt3xhbZ0eJt'}}"),
 ('key order',
  "list ['preamble', 'ascii_ebcdic_flag', 'blanks1', 'format_control_document_id', "
  "'format_control_document_revision_level', 'file_design_descriptor_revision_letter', "
  "'software_release_and_revision_number', 'file_number', 'file_id', "
  "'record_sequence_and_location_type_flag', 'location_sequence_number', "
  "'field_length_of_sequence_number', 'record_code_and_location_type_flag', "
  "'record_code_location', 'record_code_field_length', 'record_length_and_location_type_flag', "
  "'record_length_location', 'record_length_field_length', 'reserved1', 'reserved2', 'reserved3', "
  "'reserved4', 'blanks6', 'number_of_sar_data_records', 'sar_data_record_length', 'reserved5', "
  "'sample_group_data', 'sar_related_data_in_the_record', 'record_data_in_the_file', "
  "'prefix_suffix_data_locators', 'scansar_burst_data_information']"),
 ('nested key order',
  "list [['record_sequence_number', 'first_record_subtype', 'record_type', "
  "'second_record_subtype', 'third_record_subtype', 'record_length'], ['bit_length_per_sample', "
  "'number_of_samples_per_data_group', 'number_of_bytes_per_data_group', "
  "'justification_and_order_of_samples_within_data_group'], ['number_of_sar_channels', "
  "'number_of_lines_per_dataset', 'number_of_left_border_pixels_per_line', "
  "'number_of_data_groups_per_line', 'number_of_right_border_pixels_per_line', "
  "'number_of_top_border_lines', 'number_of_bottom_border_lines', 'interleaving_id'], "
  "['number_of_physical_records_per_line', "
  "'number_of_physical_records_per_multichannel_line_in_this_file', "
  "'number_of_bytes_of_prefix_data_per_record', 'number_of_bytes_of_sar_data_per_record', "
  "'number_of_bytes_of_suffix_data_per_record', 'prefix_suffix_repeat_flag'], "
  "['sample_data_line_number_locator', 'sar_channel_number_locator', "
  "'time_of_sar_data_line_locator', 'left_fill_count_locator', 'right_fill_count_locator', "
  "'pad_pixels_present_indicator', 'blanks', 'sar_data_line_quality_code_locator', "
  "'calibration_information_field_locator', 'gain_values_field_locator', "
  "'bias_values_field_locator', 'sar_data_format_type_indicator', 'sar_data_format_type_code', "
  "'number_of_left_fill_bits_within_pixel', 'number_of_right_fill_bits_within_pixel', "
  "'maximum_data_range_of_pixel', 'number_of_burst_data', 'number_of_lines_per_burst'], "
  "['number_of_overlap_lines_with_adjacent_bursts', 'blanks']]"),
 ('bulk digest', 'eec2751a8d09ed9fe7ae652c087ae11fd3ff1794c060ffe9aa2f70c62b7ab86e'),
 ('truncated',
  0,
  'raised construct.core.StreamError: Error in path (parsing) -> preamble -> '
  'record_sequence_number\n'
  'stream read less than specified amount, expected 4, found 0'),
 ('truncated',
  1,
  'raised construct.core.StreamError: Error in path (parsing) -> preamble -> '
  'record_sequence_number\n'
  'stream read less than specified amount, expected 4, found 1'),
 ('truncated',
  2,
  'raised construct.core.StreamError: Error in path (parsing) -> preamble -> '
  'record_sequence_number\n'
  'stream read less than specified amount, expected 4, found 2'),
 ('truncated',
  3,
  'raised construct.core.StreamError: Error in path (parsing) -> preamble -> '
  'record_sequence_number\n'
  'stream read less than specified amount, expected 4, found 3'),
 ('truncated',
  4,
  'raised construct.core.StreamError: Error in path (parsing) -> preamble -> first_record_subtype\n'
  'stream read less than specified amount, expected 1, found 0'),
 ('truncated',
  5,
  'raised construct.core.StreamError: Error in path (parsing) -> preamble -> record_type\n'
  'stream read less than specified amount, expected 1, found 0'),
 ('truncated',
  6,
  'raised construct.core.StreamError: Error in path (parsing) -> preamble -> '
  'second_record_subtype\n'
  'stream read less than specified amount, expected 1, found 0'),
 ('truncated',
  7,
  'raised construct.core.StreamError: Error in path (parsing) -> preamble -> third_record_subtype\n'
  'stream read less than specified amount, expected 1, found 0'),
 ('truncated',
  8,
  'raised construct.core.StreamError: Error in path (parsing) -> preamble -> record_length\n'
  'stream read less than specified amount, expected 4, found 0'),
 ('truncated',
  9,
  'raised construct.core.StreamError: Error in path (parsing) -> preamble -> record_length\n'
  'stream read less than specified amount, expected 4, found 1'),
 ('truncated',
  10,
  'raised construct.core.StreamError: Error in path (parsing) -> preamble -> record_length\n'
  'stream read less than specified amount, expected 4, found 2'),
 ('truncated',
  11,
  'raised construct.core.StreamError: Error in path (parsing) -> preamble -> record_length\n'
  'stream read less than specified amount, expected 4, found 3'),
 ('truncated',
  12,
  'raised construct.core.StreamError: Error in path (parsing) -> ascii_ebcdic_flag\n'
  'stream read less than specified amount, expected 2, found 0'),
 ('truncated',
  13,
  'raised construct.core.StreamError: Error in path (parsing) -> ascii_ebcdic_flag\n'
  'stream read less than specified amount, expected 2, found 1'),
 ('truncated',
  14,
  'raised construct.core.StreamError: Error in path (parsing) -> blanks1\n'
  'stream read less than specified amount, expected 2, found 0'),
 ('truncated',
  15,
  'raised construct.core.StreamError: Error in path (parsing) -> blanks1\n'
  'stream read less than specified amount, expected 2, found 1'),
 ('truncated',
  16,
  'raised construct.core.StreamError: Error in path (parsing) -> format_control_document_id\n'
  'stream read less than specified amount, expected 12, found 0'),
 ('truncated',
  17,
  'raised construct.core.StreamError: Error in path (parsing) -> format_control_document_id\n'
  'stream read less than specified amount, expected 12, found 1'),
 ('truncated',
  18,
  'raised construct.core.StreamError: Error in path (parsing) -> format_control_document_id\n'
  'stream read less than specified amount, expected 12, found 2'),
 ('truncated',
  19,
  'raised construct.core.StreamError: Error in path (parsing) -> format_control_document_id\n'
  'stream read less than specified amount, expected 12, found 3'),
 ('truncated',
  20,
  'raised construct.core.StreamError: Error in path (parsing) -> format_control_document_id\n'
  'stream read less than specified amount, expected 12, found 4'),
 ('truncated',
  21,
  'raised construct.core.StreamError: Error in path (parsing) -> format_control_document_id\n'
  'stream read less than specified amount, expected 12, found 5'),
 ('truncated',
  22,
  'raised construct.core.StreamError: Error in path (parsing) -> format_control_document_id\n'
  'stream read less than specified amount, expected 12, found 6'),
 ('truncated',
  23,
  'raised construct.core.StreamError: Error in path (parsing) -> format_control_document_id\n'
  'stream read less than specified amount, expected 12, found 7'),
 ('truncated',
  24,
  'raised construct.core.StreamError: Error in path (parsing) -> format_control_document_id\n'
  'stream read less than specified amount, expected 12, found 8'),
 ('truncated',
  25,
  'raised construct.core.StreamError: Error in path (parsing) -> format_control_document_id\n'
  'stream read less than specified amount, expected 12, found 9'),
 ('truncated',
  26,
  'raised construct.core.StreamError: Error in path (parsing) -> format_control_document_id\n'
  'stream read less than specified amount, expected 12, found 10'),
 ('truncated',
  27,
  'raised construct.core.StreamError: Error in path (parsing) -> format_control_document_id\n'
  'stream read less than specified amount, expected 12, found 11'),
 ('truncated',
  28,
  'raised construct.core.StreamError: Error in path (parsing) -> '
  'format_control_document_revision_level\n'
  'stream read less than specified amount, expected 2, found 0'),
 ('truncated',
  29,
  'raised construct.core.StreamError: Error in path (parsing) -> '
  'format_control_document_revision_level\n'
  'stream read less than specified amount, expected 2, found 1'),
 ('truncated',
  30,
  'raised construct.core.StreamError: Error in path (parsing) -> '
  'file_design_descriptor_revision_letter\n'
  'stream read less than specified amount, expected 2, found 0'),
 ('truncated',
  31,
  'raised construct.core.StreamError: Error in path (parsing) -> '
  'file_design_descriptor_revision_letter\n'
  'stream read less than specified amount, expected 2, found 1'),
 ('truncated',
  32,
  'raised construct.core.StreamError: Error in path (parsing) -> '
  'software_release_and_revision_number\n'
  'stream read less than specified amount, expected 12, found 0'),
 ('truncated',
  33,
  'raised construct.core.StreamError: Error in path (parsing) -> '
  'software_release_and_revision_number\n'
  'stream read less than specified amount, expected 12, found 1'),
 ('truncated',
  34,
  'raised construct.core.StreamError: Error in path (parsing) -> '
  'software_release_and_revision_number\n'
  'stream read less than specified amount, expected 12, found 2'),
 ('truncated',
  35,
  'raised construct.core.StreamError: Error in path (parsing) -> '
  'software_release_and_revision_number\n'
  'stream read less than specified amount, expected 12, found 3'),
 ('truncated',
  36,
  'raised construct.core.StreamError: Error in path (parsing) -> '
  'software_release_and_revision_number\n'
  'stream read less than specified amount, expected 12, found 4'),
 ('truncated',
  37,
  'raised construct.core.StreamError: Error in path (parsing) -> '
  'software_release_and_revision_number\n'
  'stream read less than specified amount, expected 12, found 5'),
 ('truncated',
  38,
  'raised construct.core.StreamError: Error in path (parsing) -> '
  'software_release_and_revision_number\n'
  'stream read less than specified amount, expected 12, found 6'),
 ('truncated',
  39,
  'raised construct.core.StreamError: Error in path (parsing) -> '
  'software_release_and_revision_number\n'
  'stream read less than specified amount, expected 12, found 7'),
 ('truncated',
  40,
  'raised construct.core.StreamError: Error in path (parsing) -> '
  'software_release_and_revision_number\n'
  'stream read less than specified amount, expected 12, found 8'),
 ('truncated',
  41,
  'raised construct.core.StreamError: Error in path (parsing) -> '
  'software_release_and_revision_number\n'
  'stream read less than specified amount, expected 12, found 9'),
 ('truncated',
  42,
  'raised construct.core.StreamError: Error in path (parsing) -> '
  'software_release_and_revision_number\n'
  'stream read less than specified amount, expected 12, found 10'),
 ('truncated',
  43,
  'raised construct.core.StreamError: Error in path (parsing) -> '
  'software_release_and_revision_number\n'
  'stream read less than specified amount, expected 12, found 11'),
 ('truncated',
  44,
  'raised construct.core.StreamError: Error in path (parsing) -> file_number\n'
  'stream read less than specified amount, expected 4, found 0'),
 ('truncated',
  45,
  'raised construct.core.StreamError: Error in path (parsing) -> file_number\n'
  'stream read less than specified amount, expected 4, found 1'),
 ('truncated',
  46,
  'raised construct.core.StreamError: Error in path (parsing) -> file_number\n'
  'stream read less than specified amount, expected 4, found 2'),
 ('truncated',
  47,
  'raised construct.core.StreamError: Error in path (parsing) -> file_number\n'
  'stream read less than specified amount, expected 4, found 3'),
 ('truncated',
  48,
  'raised construct.core.StreamError: Error in path (parsing) -> file_id\n'
  'stream read less than specified amount, expected 16, found 0'),
 ('truncated',
  49,
  'raised construct.core.StreamError: Error in path (parsing) -> file_id\n'
  'stream read less than specified amount, expected 16, found 1'),
 ('truncated',
  50,
  'raised construct.core.StreamError: Error in path (parsing) -> file_id\n'
  'stream read less than specified amount, expected 16, found 2'),
 ('truncated',
  51,
  'raised construct.core.StreamError: Error in path (parsing) -> file_id\n'
  'stream read less than specified amount, expected 16, found 3'),
 ('truncated',
  52,
  'raised construct.core.StreamError: Error in path (parsing) -> file_id\n'
  'stream read less than specified amount, expected 16, found 4'),
 ('truncated',
  53,
  'raised construct.core.StreamError: Error in path (parsing) -> file_id\n'
  'stream read less than specified amount, expected 16, found 5'),
 ('truncated',
  54,
  'raised construct.core.StreamError: Error in path (parsing) -> file_id\n'
  'stream read less than specified amount, expected 16, found 6'),
 ('truncated',
  55,
  'raised construct.core.StreamError: Error in path (parsing) -> file_id\n'
  'stream read less than specified amount, expected 16, found 7'),
 ('truncated',
  56,
  'raised construct.core.StreamError: Error in path (parsing) -> file_id\n'
  'stream read less than specified amount, expected 16, found 8'),
 ('truncated',
  57,
  'raised construct.core.StreamError: Error in path (parsing) -> file_id\n'
  'stream read less than specified amount, expected 16, found 9'),
 ('truncated',
  58,
  'raised construct.core.StreamError: Error in path (parsing) -> file_id\n'
  'stream read less than specified amount, expected 16, found 10'),
 ('truncated',
  59,
  'raised construct.core.StreamError: Error in path (parsing) -> file_id\n'
  'stream read less than specified amount, expected 16, found 11'),
 ('truncated',
  60,
  'raised construct.core.StreamError: Error in path (parsing) -> file_id\n'
  'stream read less than specified amount, expected 16, found 12'),
 ('truncated',
  61,
  'raised construct.core.StreamError: Error in path (parsing) -> file_id\n'
  'stream read less than specified amount, expected 16, found 13'),
 ('truncated',
  62,
  'raised construct.core.StreamError: Error in path (parsing) -> file_id\n'
  'stream read less than specified amount, expected 16, found 14'),
 ('truncated',
  63,
  'raised construct.core.StreamError: Error in path (parsing) -> file_id\n'
  'stream read less than specified amount, expected 16, found 15'),
 ('truncated',
  64,
  'raised construct.core.StreamError: Error in path (parsing) -> '
  'record_sequence_and_location_type_flag\n'
  'stream read less than specified amount, expected 4, found 0'),
 ('truncated',
  65,
  'raised construct.core.StreamError: Error in path (parsing) -> '
  'record_sequence_and_location_type_flag\n'
  'stream read less than specified amount, expected 4, found 1'),
 ('truncated',
  66,
  'raised construct.core.StreamError: Error in path (parsing) -> '
  'record_sequence_and_location_type_flag\n'
  'stream read less than specified amount, expected 4, found 2'),
 ('truncated',
  67,
  'raised construct.core.StreamError: Error in path (parsing) -> '
  'record_sequence_and_location_type_flag\n'
  'stream read less than specified amount, expected 4, found 3'),
 ('truncated',
  68,
  'raised construct.core.StreamError: Error in path (parsing) -> location_sequence_number\n'
  'stream read less than specified amount, expected 8, found 0'),
 ('truncated',
  69,
  'raised construct.core.StreamError: Error in path (parsing) -> location_sequence_number\n'
  'stream read less than specified amount, expected 8, found 1'),
 ('truncated',
  70,
  'raised construct.core.StreamError: Error in path (parsing) -> location_sequence_number\n'
  'stream read less than specified amount, expected 8, found 2'),
 ('truncated',
  71,
  'raised construct.core.StreamError: Error in path (parsing) -> location_sequence_number\n'
  'stream read less than specified amount, expected 8, found 3'),
 ('truncated',
  72,
  'raised construct.core.StreamError: Error in path (parsing) -> location_sequence_number\n'
  'stream read less than specified amount, expected 8, found 4'),
 ('truncated',
  73,
  'raised construct.core.StreamError: Error in path (parsing) -> location_sequence_number\n'
  'stream read less than specified amount, expected 8, found 5'),
 ('truncated',
  74,
  'raised construct.core.StreamError: Error in path (parsing) -> location_sequence_number\n'
  'stream read less than specified amount, expected 8, found 6'),
 ('truncated',
  75,
  'raised construct.core.StreamError: Error in path (parsing) -> location_sequence_number\n'
  'stream read less than specified amount, expected 8, found 7'),
 ('truncated',
  76,
  'raised construct.core.StreamError: Error in path (parsing) -> field_length_of_sequence_number\n'
  'stream read less than specified amount, expected 4, found 0'),
 ('truncated',
  77,
  'raised construct.core.StreamError: Error in path (parsing) -> field_length_of_sequence_number\n'
  'stream read less than specified amount, expected 4, found 1'),
 ('truncated',
  78,
  'raised construct.core.StreamError: Error in path (parsing) -> field_length_of_sequence_number\n'
  'stream read less than specified amount, expected 4, found 2'),
 ('truncated',
  79,
  'raised construct.core.StreamError: Error in path (parsing) -> field_length_of_sequence_number\n'
  'stream read less than specified amount, expected 4, found 3'),
 ('truncated',
  80,
  'raised construct.core.StreamError: Error in path (parsing) -> '
  'record_code_and_location_type_flag\n'
  'stream read less than specified amount, expected 4, found 0'),
 ('truncated',
  81,
  'raised construct.core.StreamError: Error in path (parsing) -> '
  'record_code_and_location_type_flag\n'
  'stream read less than specified amount, expected 4, found 1'),
 ('truncated',
  82,
  'raised construct.core.StreamError: Error in path (parsing) -> '
  'record_code_and_location_type_flag\n'
  'stream read less than specified amount, expected 4, found 2'),
 ('truncated',
  83,
  'raised construct.core.StreamError: Error in path (parsing) -> '
  'record_code_and_location_type_flag\n'
  'stream read less than specified amount, expected 4, found 3'),
 ('truncated',
  84,
  'raised construct.core.StreamError: Error in path (parsing) -> record_code_location\n'
  'stream read less than specified amount, expected 8, found 0'),
 ('truncated',
  85,
  'raised construct.core.StreamError: Error in path (parsing) -> record_code_location\n'
  'stream read less than specified amount, expected 8, found 1'),
 ('truncated',
  86,
  'raised construct.core.StreamError: Error in path (parsing) -> record_code_location\n'
  'stream read less than specified amount, expected 8, found 2'),
 ('truncated',
  87,
  'raised construct.core.StreamError: Error in path (parsing) -> record_code_location\n'
  'stream read less than specified amount, expected 8, found 3'),
 ('truncated',
  88,
  'raised construct.core.StreamError: Error in path (parsing) -> record_code_location\n'
  'stream read less than specified amount, expected 8, found 4'),
 ('truncated',
  89,
  'raised construct.core.StreamError: Error in path (parsing) -> record_code_location\n'
  'stream read less than specified amount, expected 8, found 5'),
 ('truncated',
  90,
  'raised construct.core.StreamError: Error in path (parsing) -> record_code_location\n'
  'stream read less than specified amount, expected 8, found 6'),
 ('truncated',
  91,
  'raised construct.core.StreamError: Error in path (parsing) -> record_code_location\n'
  'stream read less than specified amount, expected 8, found 7'),
 ('truncated',
  92,
  'raised construct.core.StreamError: Error in path (parsing) -> record_code_field_length\n'
  'stream read less than specified amount, expected 4, found 0'),
 ('truncated',
  93,
  'raised construct.core.StreamError: Error in path (parsing) -> record_code_field_length\n'
  'stream read less than specified amount, expected 4, found 1'),
 ('truncated',
  94,
  'raised construct.core.StreamError: Error in path (parsing) -> record_code_field_length\n'
  'stream read less than specified amount, expected 4, found 2'),
 ('truncated',
  95,
  'raised construct.core.StreamError: Error in path (parsing) -> record_code_field_length\n'
  'stream read less than specified amount, expected 4, found 3'),
 ('truncated',
  96,
  'raised construct.core.StreamError: Error in path (parsing) -> '
  'record_length_and_location_type_flag\n'
  'stream read less than specified amount, expected 4, found 0'),
 ('truncated',
  97,
  'raised construct.core.StreamError: Error in path (parsing) -> '
  'record_length_and_location_type_flag\n'
  'stream read less than specified amount, expected 4, found 1'),
 ('truncated',
  98,
  'raised construct.core.StreamError: Error in path (parsing) -> '
  'record_length_and_location_type_flag\n'
  'stream read less than specified amount, expected 4, found 2'),
 ('truncated',
  99,
  'raised construct.core.StreamError: Error in path (parsing) -> '
  'record_length_and_location_type_flag\n'
  'stream read less than specified amount, expected 4, found 3'),
 ('truncated',
  100,
  'raised construct.core.StreamError: Error in path (parsing) -> record_length_location\n'
  'stream read less than specified amount, expected 8, found 0'),
 ('truncated',
  101,
  'raised construct.core.StreamError: Error in path (parsing) -> record_length_location\n'
  'stream read less than specified amount, expected 8, found 1'),
 ('truncated',
  102,
  'raised construct.core.StreamError: Error in path (parsing) -> record_length_location\n'
  'stream read less than specified amount, expected 8, found 2'),
 ('truncated',
  103,
  'raised construct.core.StreamError: Error in path (parsing) -> record_length_location\n'
  'stream read less than specified amount, expected 8, found 3'),
 ('truncated',
  104,
  'raised construct.core.StreamError: Error in path (parsing) -> record_length_location\n'
  'stream read less than specified amount, expected 8, found 4'),
 ('truncated',
  105,
  'raised construct.core.StreamError: Error in path (parsing) -> record_length_location\n'
  'stream read less than specified amount, expected 8, found 5'),
 ('truncated',
  106,
  'raised construct.core.StreamError: Error in path (parsing) -> record_length_location\n'
  'stream read less than specified amount, expected 8, found 6'),
 ('truncated',
  107,
  'raised construct.core.StreamError: Error in path (parsing) -> record_length_location\n'
  'stream read less than specified amount, expected 8, found 7'),
 ('truncated',
  108,
  'raised construct.core.StreamError: Error in path (parsing) -> record_length_field_length\n'
  'stream read less than specified amount, expected 4, found 0'),
 ('truncated',
  109,
  'raised construct.core.StreamError: Error in path (parsing) -> record_length_field_length\n'
  'stream read less than specified amount, expected 4, found 1'),
 ('truncated',
  110,
  'raised construct.core.StreamError: Error in path (parsing) -> record_length_field_length\n'
  'stream read less than specified amount, expected 4, found 2'),
 ('truncated',
  111,
  'raised construct.core.StreamError: Error in path (parsing) -> record_length_field_length\n'
  'stream read less than specified amount, expected 4, found 3'),
 ('truncated',
  112,
  'raised construct.core.StreamError: Error in path (parsing) -> reserved1\n'
  'stream read less than specified amount, expected 1, found 0'),
 ('truncated',
  113,
  'raised construct.core.StreamError: Error in path (parsing) -> reserved2\n'
  'stream read less than specified amount, expected 1, found 0'),
 ('truncated',
  114,
  'raised construct.core.StreamError: Error in path (parsing) -> reserved3\n'
  'stream read less than specified amount, expected 1, found 0'),
 ('truncated',
  115,
  'raised construct.core.StreamError: Error in path (parsing) -> reserved4\n'
  'stream read less than specified amount, expected 1, found 0'),
 ('truncated',
  116,
  'raised construct.core.StreamError: Error in path (parsing) -> blanks6\n'
  'stream read less than specified amount, expected 64, found 0'),
 ('truncated',
  117,
  'raised construct.core.StreamError: Error in path (parsing) -> blanks6\n'
  'stream read less than specified amount, expected 64, found 1'),
 ('truncated',
  118,
  'raised construct.core.StreamError: Error in path (parsing) -> blanks6\n'
  'stream read less than specified amount, expected 64, found 2'),
 ('truncated',
  119,
  'raised construct.core.StreamError: Error in path (parsing) -> blanks6\n'
  'stream read less than specified amount, expected 64, found 3'),
 ('truncated',
  120,
  'raised construct.core.StreamError: Error in path (parsing) -> blanks6\n'
  'stream read less than specified amount, expected 64, found 4'),
 ('truncated',
  121,
  'raised construct.core.StreamError: Error in path (parsing) -> blanks6\n'
  'stream read less than specified amount, expected 64, found 5'),
 ('truncated',
  122,
  'raised construct.core.StreamError: Error in path (parsing) -> blanks6\n'
  'stream read less than specified amount, expected 64, found 6'),
 ('truncated',
  123,
  'raised construct.core.StreamError: Error in path (parsing) -> blanks6\n'
  'stream read less than specified amount, expected 64, found 7'),
 ('truncated',
  124,
  'raised construct.core.StreamError: Error in path (parsing) -> blanks6\n'
  'stream read less than specified amount, expected 64, found 8'),
 ('truncated',
  125,
  'raised construct.core.StreamError: Error in path (parsing) -> blanks6\n'
  'stream read less than specified amount, expected 64, found 9'),
 ('truncated',
  126,
  'raised construct.core.StreamError: Error in path (parsing) -> blanks6\n'
  'stream read less than specified amount, expected 64, found 10'),
 ('truncated',
  127,
  'raised construct.core.StreamError: Error in path (parsing) -> blanks6\n'
  'stream read less than specified amount, expected 64, found 11'),
 ('truncated',
  128,
  'raised construct.core.StreamError: Error in path (parsing) -> blanks6\n'
  'stream read less than specified amount, expected 64, found 12'),
 ('truncated',
  129,
  'raised construct.core.StreamError: Error in path (parsing) -> blanks6\n'
  'stream read less than specified amount, expected 64, found 13'),
 ('truncated',
  130,
  'raised construct.core.StreamError: Error in path (parsing) -> blanks6\n'
  'stream read less than specified amount, expected 64, found 14'),
 ('truncated',
  131,
  'raised construct.core.StreamError: Error in path (parsing) -> blanks6\n'
  'stream read less than specified amount, expected 64, found 15'),
 ('truncated',
  132,
  'raised construct.core.StreamError: Error in path (parsing) -> blanks6\n'
  'stream read less than specified amount, expected 64, found 16'),
 ('truncated',
  133,
  'raised construct.core.StreamError: Error in path (parsing) -> blanks6\n'
  'stream read less than specified amount, expected 64, found 17'),
 ('truncated',
  134,
  'raised construct.core.StreamError: Error in path (parsing) -> blanks6\n'
  'stream read less than specified amount, expected 64, found 18'),
 ('truncated',
  135,
  'raised construct.core.StreamError: Error in path (parsing) -> blanks6\n'
  'stream read less than specified amount, expected 64, found 19'),
 ('truncated',
  136,
  'raised construct.core.StreamError: Error in path (parsing) -> blanks6\n'
  'stream read less than specified amount, expected 64, found 20'),
 ('truncated',
  137,
  'raised construct.core.StreamError: Error in path (parsing) -> blanks6\n'
  'stream read less than specified amount, expected 64, found 21'),
 ('truncated',
  138,
  'raised construct.core.StreamError: Error in path (parsing) -> blanks6\n'
  'stream read less than specified amount, expected 64, found 22'),
 ('truncated',
  139,
  'raised construct.core.StreamError: Error in path (parsing) -> blanks6\n'
  'stream read less than specified amount, expected 64, found 23'),
 ('truncated',
  140,
  'raised construct.core.StreamError: Error in path (parsing) -> blanks6\n'
  'stream read less than specified amount, expected 64, found 24'),
 ('truncated',
  141,
  'raised construct.core.StreamError: Error in path (parsing) -> blanks6\n'
  'stream read less than specified amount, expected 64, found 25'),
 ('truncated',
  142,
  'raised construct.core.StreamError: Error in path (parsing) -> blanks6\n'
  'stream read less than specified amount, expected 64, found 26'),
 ('truncated',
  143,
  'raised construct.core.StreamError: Error in path (parsing) -> blanks6\n'
  'stream read less than specified amount, expected 64, found 27'),
 ('truncated',
  144,
  'raised construct.core.StreamError: Error in path (parsing) -> blanks6\n'
  'stream read less than specified amount, expected 64, found 28'),
 ('truncated',
  145,
  'raised construct.core.StreamError: Error in path (parsing) -> blanks6\n'
  'stream read less than specified amount, expected 64, found 29'),
 ('truncated',
  146,
  'raised construct.core.StreamError: Error in path (parsing) -> blanks6\n'
  'stream read less than specified amount, expected 64, found 30'),
 ('truncated',
  147,
  'raised construct.core.StreamError: Error in path (parsing) -> blanks6\n'
  'stream read less than specified amount, expected 64, found 31'),
 ('truncated',
  148,
  'raised construct.core.StreamError: Error in path (parsing) -> blanks6\n'
  'stream read less than specified amount, expected 64, found 32'),
 ('truncated',
  149,
  'raised construct.core.StreamError: Error in path (parsing) -> blanks6\n'
  'stream read less than specified amount, expected 64, found 33'),
 ('truncated',
  150,
  'raised construct.core.StreamError: Error in path (parsing) -> blanks6\n'
  'stream read less than specified amount, expected 64, found 34'),
 ('truncated',
  151,
  'raised construct.core.StreamError: Error in path (parsing) -> blanks6\n'
  'stream read less than specified amount, expected 64, found 35'),
 ('truncated',
  152,
  'raised construct.core.StreamError: Error in path (parsing) -> blanks6\n'
  'stream read less than specified amount, expected 64, found 36'),
 ('truncated',
  153,
  'raised construct.core.StreamError: Error in path (parsing) -> blanks6\n'
  'stream read less than specified amount, expected 64, found 37'),
 ('truncated',
  154,
  'raised construct.core.StreamError: Error in path (parsing) -> blanks6\n'
  'stream read less than specified amount, expected 64, found 38'),
 ('truncated',
  155,
  'raised construct.core.StreamError: Error in path (parsing) -> blanks6\n'
  'stream read less than specified amount, expected 64, found 39'),
 ('truncated',
  156,
  'raised construct.core.StreamError: Error in path (parsing) -> blanks6\n'
  'stream read less than specified amount, expected 64, found 40'),
 ('truncated',
  157,
  'raised construct.core.StreamError: Error in path (parsing) -> blanks6\n'
  'stream read less than specified amount, expected 64, found 41'),
 ('truncated',
  158,
  'raised construct.core.StreamError: Error in path (parsing) -> blanks6\n'
  'stream read less than specified amount, expected 64, found 42'),
 ('truncated',
  159,
  'raised construct.core.StreamError: Error in path (parsing) -> blanks6\n'
  'stream read less than specified amount, expected 64, found 43'),
 ('truncated',
  160,
  'raised construct.core.StreamError: Error in path (parsing) -> blanks6\n'
  'stream read less than specified amount, expected 64, found 44'),
 ('truncated',
  161,
  'raised construct.core.StreamError: Error in path (parsing) -> blanks6\n'
  'stream read less than specified amount, expected 64, found 45'),
 ('truncated',
  162,
  'raised construct.core.StreamError: Error in path (parsing) -> blanks6\n'
  'stream read less than specified amount, expected 64, found 46'),
 ('truncated',
  163,
  'raised construct.core.StreamError: Error in path (parsing) -> blanks6\n'
  'stream read less than specified amount, expected 64, found 47'),
 ('truncated',
  164,
  'raised construct.core.StreamError: Error in path (parsing) -> blanks6\n'
  'stream read less than specified amount, expected 64, found 48'),
 ('truncated',
  165,
  'raised construct.core.StreamError: Error in path (parsing) -> blanks6\n'
  'stream read less than specified amount, expected 64, found 49'),
 ('truncated',
  166,
  'raised construct.core.StreamError: Error in path (parsing) -> blanks6\n'
  'stream read less than specified amount, expected 64, found 50'),
 ('truncated',
  167,
  'raised construct.core.StreamError: Error in path (parsing) -> blanks6\n'
  'stream read less than specified amount, expected 64, found 51'),
 ('truncated',
  168,
  'raised construct.core.StreamError: Error in path (parsing) -> blanks6\n'
  'stream read less than specified amount, expected 64, found 52'),
 ('truncated',
  169,
  'raised construct.core.StreamError: Error in path (parsing) -> blanks6\n'
  'stream read less than specified amount, expected 64, found 53'),
 ('truncated',
  170,
  'raised construct.core.StreamError: Error in path (parsing) -> blanks6\n'
  'stream read less than specified amount, expected 64, found 54'),
 ('truncated',
  171,
  'raised construct.core.StreamError: Error in path (parsing) -> blanks6\n'
  'stream read less than specified amount, expected 64, found 55'),
 ('truncated',
  172,
  'raised construct.core.StreamError: Error in path (parsing) -> blanks6\n'
  'stream read less than specified amount, expected 64, found 56'),
 ('truncated',
  173,
  'raised construct.core.StreamError: Error in path (parsing) -> blanks6\n'
  'stream read less than specified amount, expected 64, found 57'),
 ('truncated',
  174,
  'raised construct.core.StreamError: Error in path (parsing) -> blanks6\n'
  'stream read less than specified amount, expected 64, found 58'),
 ('truncated',
  175,
  'raised construct.core.StreamError: Error in path (parsing) -> blanks6\n'
  'stream read less than specified amount, expected 64, found 59'),
 ('truncated',
  176,
  'raised construct.core.StreamError: Error in path (parsing) -> blanks6\n'
  'stream read less than specified amount, expected 64, found 60'),
 ('truncated',
  177,
  'raised construct.core.StreamError: Error in path (parsing) -> blanks6\n'
  'stream read less than specified amount, expected 64, found 61'),
 ('truncated',
  178,
  'raised construct.core.StreamError: Error in path (parsing) -> blanks6\n'
  'stream read less than specified amount, expected 64, found 62'),
 ('truncated',
  179,
  'raised construct.core.StreamError: Error in path (parsing) -> blanks6\n'
  'stream read less than specified amount, expected 64, found 63'),
 ('truncated',
  180,
  'raised construct.core.StreamError: Error in path (parsing) -> number_of_sar_data_records\n'
  'stream read less than specified amount, expected 6, found 0'),
 ('truncated',
  181,
  'raised construct.core.StreamError: Error in path (parsing) -> number_of_sar_data_records\n'
  'stream read less than specified amount, expected 6, found 1'),
 ('truncated',
  182,
  'raised construct.core.StreamError: Error in path (parsing) -> number_of_sar_data_records\n'
  'stream read less than specified amount, expected 6, found 2'),
 ('truncated',
  183,
  'raised construct.core.StreamError: Error in path (parsing) -> number_of_sar_data_records\n'
  'stream read less than specified amount, expected 6, found 3'),
 ('truncated',
  184,
  'raised construct.core.StreamError: Error in path (parsing) -> number_of_sar_data_records\n'
  'stream read less than specified amount, expected 6, found 4'),
 ('truncated',
  185,
  'raised construct.core.StreamError: Error in path (parsing) -> number_of_sar_data_records\n'
  'stream read less than specified amount, expected 6, found 5'),
 ('truncated',
  186,
  'raised construct.core.StreamError: Error in path (parsing) -> sar_data_record_length\n'
  'stream read less than specified amount, expected 6, found 0'),
 ('truncated',
  187,
  'raised construct.core.StreamError: Error in path (parsing) -> sar_data_record_length\n'
  'stream read less than specified amount, expected 6, found 1'),
 ('truncated',
  188,
  'raised construct.core.StreamError: Error in path (parsing) -> sar_data_record_length\n'
  'stream read less than specified amount, expected 6, found 2'),
 ('truncated',
  189,
  'raised construct.core.StreamError: Error in path (parsing) -> sar_data_record_length\n'
  'stream read less than specified amount, expected 6, found 3'),
 ('truncated',
  190,
  'raised construct.core.StreamError: Error in path (parsing) -> sar_data_record_length\n'
  'stream read less than specified amount, expected 6, found 4'),
 ('truncated',
  191,
  'raised construct.core.StreamError: Error in path (parsing) -> sar_data_record_length\n'
  'stream read less than specified amount, expected 6, found 5'),
 ('truncated',
  192,
  'raised construct.core.StreamError: Error in path (parsing) -> reserved5\n'
  'stream read less than specified amount, expected 24, found 0'),
 ('truncated',
  193,
  'raised construct.core.StreamError: Error in path (parsing) -> reserved5\n'
  'stream read less than specified amount, expected 24, found 1'),
 ('truncated',
  194,
  'raised construct.core.StreamError: Error in path (parsing) -> reserved5\n'
  'stream read less than specified amount, expected 24, found 2'),
 ('truncated',
  195,
  'raised construct.core.StreamError: Error in path (parsing) -> reserved5\n'
  'stream read less than specified amount, expected 24, found 3'),
 ('truncated',
  196,
  'raised construct.core.StreamError: Error in path (parsing) -> reserved5\n'
  'stream read less than specified amount, expected 24, found 4'),
 ('truncated',
  197,
  'raised construct.core.StreamError: Error in path (parsing) -> reserved5\n'
  'stream read less than specified amount, expected 24, found 5'),
 ('truncated',
  198,
  'raised construct.core.StreamError: Error in path (parsing) -> reserved5\n'
  'stream read less than specified amount, expected 24, found 6'),
 ('truncated',
  199,
  'raised construct.core.StreamError: Error in path (parsing) -> reserved5\n'
  'stream read less than specified amount, expected 24, found 7'),
 ('truncated',
  200,
  'raised construct.core.StreamError: Error in path (parsing) -> reserved5\n'
  'stream read less than specified amount, expected 24, found 8'),
 ('truncated',
  201,
  'raised construct.core.StreamError: Error in path (parsing) -> reserved5\n'
  'stream read less than specified amount, expected 24, found 9'),
 ('truncated',
  202,
  'raised construct.core.StreamError: Error in path (parsing) -> reserved5\n'
  'stream read less than specified amount, expected 24, found 10'),
 ('truncated',
  203,
  'raised construct.core.StreamError: Error in path (parsing) -> reserved5\n'
  'stream read less than specified amount, expected 24, found 11'),
 ('truncated',
  204,
  'raised construct.core.StreamError: Error in path (parsing) -> reserved5\n'
  'stream read less than specified amount, expected 24, found 12'),
 ('truncated',
  205,
  'raised construct.core.StreamError: Error in path (parsing) -> reserved5\n'
  'stream read less than specified amount, expected 24, found 13'),
 ('truncated',
  206,
  'raised construct.core.StreamError: Error in path (parsing) -> reserved5\n'
  'stream read less than specified amount, expected 24, found 14'),
 ('truncated',
  207,
  'raised construct.core.StreamError: Error in path (parsing) -> reserved5\n'
  'stream read less than specified amount, expected 24, found 15'),
 ('truncated',
  208,
  'raised construct.core.StreamError: Error in path (parsing) -> reserved5\n'
  'stream read less than specified amount, expected 24, found 16'),
 ('truncated',
  209,
  'raised construct.core.StreamError: Error in path (parsing) -> reserved5\n'
  'stream read less than specified amount, expected 24, found 17'),
 ('truncated',
  210,
  'raised construct.core.StreamError: Error in path (parsing) -> reserved5\n'
  'stream read less than specified amount, expected 24, found 18'),
 ('truncated',
  211,
  'raised construct.core.StreamError: Error in path (parsing) -> reserved5\n'
  'stream read less than specified amount, expected 24, found 19'),
 ('truncated',
  212,
  'raised construct.core.StreamError: Error in path (parsing) -> reserved5\n'
  'stream read less than specified amount, expected 24, found 20'),
 ('truncated',
  213,
  'raised construct.core.StreamError: Error in path (parsing) -> reserved5\n'
  'stream read less than specified amount, expected 24, found 21'),
 ('truncated',
  214,
  'raised construct.core.StreamError: Error in path (parsing) -> reserved5\n'
  'stream read less than specified amount, expected 24, found 22'),
 ('truncated',
  215,
  'raised construct.core.StreamError: Error in path (parsing) -> reserved5\n'
  'stream read less than specified amount, expected 24, found 23'),
 ('truncated',
  216,
  'raised construct.core.StreamError: Error in path (parsing) -> sample_group_data -> '
  'bit_length_per_sample\n'
  'stream read less than specified amount, expected 4, found 0'),
 ('truncated',
  217,
  'raised construct.core.StreamError: Error in path (parsing) -> sample_group_data -> '
  'bit_length_per_sample\n'
  'stream read less than specified amount, expected 4, found 1'),
 ('truncated',
  218,
  'raised construct.core.StreamError: Error in path (parsing) -> sample_group_data -> '
  'bit_length_per_sample\n'
  'stream read less than specified amount, expected 4, found 2'),
 ('truncated',
  219,
  'raised construct.core.StreamError: Error in path (parsing) -> sample_group_data -> '
  'bit_length_per_sample\n'
  'stream read less than specified amount, expected 4, found 3'),
 ('truncated',
  220,
  'raised construct.core.StreamError: Error in path (parsing) -> sample_group_data -> '
  'number_of_samples_per_data_group\n'
  'stream read less than specified amount, expected 4, found 0'),
 ('truncated',
  221,
  'raised construct.core.StreamError: Error in path (parsing) -> sample_group_data -> '
  'number_of_samples_per_data_group\n'
  'stream read less than specified amount, expected 4, found 1'),
 ('truncated',
  222,
  'raised construct.core.StreamError: Error in path (parsing) -> sample_group_data -> '
  'number_of_samples_per_data_group\n'
  'stream read less than specified amount, expected 4, found 2'),
 ('truncated',
  223,
  'raised construct.core.StreamError: Error in path (parsing) -> sample_group_data -> '
  'number_of_samples_per_data_group\n'
  'stream read less than specified amount, expected 4, found 3'),
 ('truncated',
  224,
  'raised construct.core.StreamError: Error in path (parsing) -> sample_group_data -> '
  'number_of_bytes_per_data_group\n'
  'stream read less than specified amount, expected 4, found 0'),
 ('truncated',
  225,
  'raised construct.core.StreamError: Error in path (parsing) -> sample_group_data -> '
  'number_of_bytes_per_data_group\n'
  'stream read less than specified amount, expected 4, found 1'),
 ('truncated',
  226,
  'raised construct.core.StreamError: Error in path (parsing) -> sample_group_data -> '
  'number_of_bytes_per_data_group\n'
  'stream read less than specified amount, expected 4, found 2'),
 ('truncated',
  227,
  'raised construct.core.StreamError: Error in path (parsing) -> sample_group_data -> '
  'number_of_bytes_per_data_group\n'
  'stream read less than specified amount, expected 4, found 3'),
 ('truncated',
  228,
  'raised construct.core.StreamError: Error in path (parsing) -> sample_group_data -> '
  'justification_and_order_of_samples_within_data_group\n'
  'stream read less than specified amount, expected 4, found 0'),
 ('truncated',
  229,
  'raised construct.core.StreamError: Error in path (parsing) -> sample_group_data -> '
  'justification_and_order_of_samples_within_data_group\n'
  'stream read less than specified amount, expected 4, found 1'),
 ('truncated',
  230,
  'raised construct.core.StreamError: Error in path (parsing) -> sample_group_data -> '
  'justification_and_order_of_samples_within_data_group\n'
  'stream read less than specified amount, expected 4, found 2'),
 ('truncated',
  231,
  'raised construct.core.StreamError: Error in path (parsing) -> sample_group_data -> '
  'justification_and_order_of_samples_within_data_group\n'
  'stream read less than specified amount, expected 4, found 3'),
 ('truncated',
  232,
  'raised construct.core.StreamError: Error in path (parsing) -> sar_related_data_in_the_record -> '
  'number_of_sar_channels\n'
  'stream read less than specified amount, expected 4, found 0'),
 ('truncated',
  233,
  'raised construct.core.StreamError: Error in path (parsing) -> sar_related_data_in_the_record -> '
  'number_of_sar_channels\n'
  'stream read less than specified amount, expected 4, found 1'),
 ('truncated',
  234,
  'raised construct.core.StreamError: Error in path (parsing) -> sar_related_data_in_the_record -> '
  'number_of_sar_channels\n'
  'stream read less than specified amount, expected 4, found 2'),
 ('truncated',
  235,
  'raised construct.core.StreamError: Error in path (parsing) -> sar_related_data_in_the_record -> '
  'number_of_sar_channels\n'
  'stream read less than specified amount, expected 4, found 3'),
 ('truncated',
  236,
  'raised construct.core.StreamError: Error in path (parsing) -> sar_related_data_in_the_record -> '
  'number_of_lines_per_dataset\n'
  'stream read less than specified amount, expected 8, found 0'),
 ('truncated',
  237,
  'raised construct.core.StreamError: Error in path (parsing) -> sar_related_data_in_the_record -> '
  'number_of_lines_per_dataset\n'
  'stream read less than specified amount, expected 8, found 1'),
 ('truncated',
  238,
  'raised construct.core.StreamError: Error in path (parsing) -> sar_related_data_in_the_record -> '
  'number_of_lines_per_dataset\n'
  'stream read less than specified amount, expected 8, found 2'),
 ('truncated',
  239,
  'raised construct.core.StreamError: Error in path (parsing) -> sar_related_data_in_the_record -> '
  'number_of_lines_per_dataset\n'
  'stream read less than specified amount, expected 8, found 3'),
 ('truncated',
  240,
  'raised construct.core.StreamError: Error in path (parsing) -> sar_related_data_in_the_record -> '
  'number_of_lines_per_dataset\n'
  'stream read less than specified amount, expected 8, found 4'),
 ('truncated',
  241,
  'raised construct.core.StreamError: Error in path (parsing) -> sar_related_data_in_the_record -> '
  'number_of_lines_per_dataset\n'
  'stream read less than specified amount, expected 8, found 5'),
 ('truncated',
  242,
  'raised construct.core.StreamError: Error in path (parsing) -> sar_related_data_in_the_record -> '
  'number_of_lines_per_dataset\n'
  'stream read less than specified amount, expected 8, found 6'),
 ('truncated',
  243,
  'raised construct.core.StreamError: Error in path (parsing) -> sar_related_data_in_the_record -> '
  'number_of_lines_per_dataset\n'
  'stream read less than specified amount, expected 8, found 7'),
 ('truncated',
  244,
  'raised construct.core.StreamError: Error in path (parsing) -> sar_related_data_in_the_record -> '
  'number_of_left_border_pixels_per_line\n'
  'stream read less than specified amount, expected 4, found 0'),
 ('truncated',
  245,
  'raised construct.core.StreamError: Error in path (parsing) -> sar_related_data_in_the_record -> '
  'number_of_left_border_pixels_per_line\n'
  'stream read less than specified amount, expected 4, found 1'),
 ('truncated',
  246,
  'raised construct.core.StreamError: Error in path (parsing) -> sar_related_data_in_the_record -> '
  'number_of_left_border_pixels_per_line\n'
  'stream read less than specified amount, expected 4, found 2'),
 ('truncated',
  247,
  'raised construct.core.StreamError: Error in path (parsing) -> sar_related_data_in_the_record -> '
  'number_of_left_border_pixels_per_line\n'
  'stream read less than specified amount, expected 4, found 3'),
 ('truncated',
  248,
  'raised construct.core.StreamError: Error in path (parsing) -> sar_related_data_in_the_record -> '
  'number_of_data_groups_per_line\n'
  'stream read less than specified amount, expected 8, found 0'),
 ('truncated',
  249,
  'raised construct.core.StreamError: Error in path (parsing) -> sar_related_data_in_the_record -> '
  'number_of_data_groups_per_line\n'
  'stream read less than specified amount, expected 8, found 1'),
 ('truncated',
  250,
  'raised construct.core.StreamError: Error in path (parsing) -> sar_related_data_in_the_record -> '
  'number_of_data_groups_per_line\n'
  'stream read less than specified amount, expected 8, found 2'),
 ('truncated',
  251,
  'raised construct.core.StreamError: Error in path (parsing) -> sar_related_data_in_the_record -> '
  'number_of_data_groups_per_line\n'
  'stream read less than specified amount, expected 8, found 3'),
 ('truncated',
  252,
  'raised construct.core.StreamError: Error in path (parsing) -> sar_related_data_in_the_record -> '
  'number_of_data_groups_per_line\n'
  'stream read less than specified amount, expected 8, found 4'),
 ('truncated',
  253,
  'raised construct.core.StreamError: Error in path (parsing) -> sar_related_data_in_the_record -> '
  'number_of_data_groups_per_line\n'
  'stream read less than specified amount, expected 8, found 5'),
 ('truncated',
  254,
  'raised construct.core.StreamError: Error in path (parsing) -> sar_related_data_in_the_record -> '
  'number_of_data_groups_per_line\n'
  'stream read less than specified amount, expected 8, found 6'),
 ('truncated',
  255,
  'raised construct.core.StreamError: Error in path (parsing) -> sar_related_data_in_the_record -> '
  'number_of_data_groups_per_line\n'
  'stream read less than specified amount, expected 8, found 7'),
 ('truncated',
  256,
  'raised construct.core.StreamError: Error in path (parsing) -> sar_related_data_in_the_record -> '
  'number_of_right_border_pixels_per_line\n'
  'stream read less than specified amount, expected 4, found 0'),
 ('truncated',
  257,
  'raised construct.core.StreamError: Error in path (parsing) -> sar_related_data_in_the_record -> '
  'number_of_right_border_pixels_per_line\n'
  'stream read less than specified amount, expected 4, found 1'),
 ('truncated',
  258,
  'raised construct.core.StreamError: Error in path (parsing) -> sar_related_data_in_the_record -> '
  'number_of_right_border_pixels_per_line\n'
  'stream read less than specified amount, expected 4, found 2'),
 ('truncated',
  259,
  'raised construct.core.StreamError: Error in path (parsing) -> sar_related_data_in_the_record -> '
  'number_of_right_border_pixels_per_line\n'
  'stream read less than specified amount, expected 4, found 3'),
 ('truncated',
  260,
  'raised construct.core.StreamError: Error in path (parsing) -> sar_related_data_in_the_record -> '
  'number_of_top_border_lines\n'
  'stream read less than specified amount, expected 4, found 0'),
 ('truncated',
  261,
  'raised construct.core.StreamError: Error in path (parsing) -> sar_related_data_in_the_record -> '
  'number_of_top_border_lines\n'
  'stream read less than specified amount, expected 4, found 1'),
 ('truncated',
  262,
  'raised construct.core.StreamError: Error in path (parsing) -> sar_related_data_in_the_record -> '
  'number_of_top_border_lines\n'
  'stream read less than specified amount, expected 4, found 2'),
 ('truncated',
  263,
  'raised construct.core.StreamError: Error in path (parsing) -> sar_related_data_in_the_record -> '
  'number_of_top_border_lines\n'
  'stream read less than specified amount, expected 4, found 3'),
 ('truncated',
  264,
  'raised construct.core.StreamError: Error in path (parsing) -> sar_related_data_in_the_record -> '
  'number_of_bottom_border_lines\n'
  'stream read less than specified amount, expected 4, found 0'),
 ('truncated',
  265,
  'raised construct.core.StreamError: Error in path (parsing) -> sar_related_data_in_the_record -> '
  'number_of_bottom_border_lines\n'
  'stream read less than specified amount, expected 4, found 1'),
 ('truncated',
  266,
  'raised construct.core.StreamError: Error in path (parsing) -> sar_related_data_in_the_record -> '
  'number_of_bottom_border_lines\n'
  'stream read less than specified amount, expected 4, found 2'),
 ('truncated',
  267,
  'raised construct.core.StreamError: Error in path (parsing) -> sar_related_data_in_the_record -> '
  'number_of_bottom_border_lines\n'
  'stream read less than specified amount, expected 4, found 3'),
 ('truncated',
  268,
  'raised construct.core.StreamError: Error in path (parsing) -> sar_related_data_in_the_record -> '
  'interleaving_id\n'
  'stream read less than specified amount, expected 4, found 0'),
 ('truncated',
  269,
  'raised construct.core.StreamError: Error in path (parsing) -> sar_related_data_in_the_record -> '
  'interleaving_id\n'
  'stream read less than specified amount, expected 4, found 1'),
 ('truncated',
  270,
  'raised construct.core.StreamError: Error in path (parsing) -> sar_related_data_in_the_record -> '
  'interleaving_id\n'
  'stream read less than specified amount, expected 4, found 2'),
 ('truncated',
  271,
  'raised construct.core.StreamError: Error in path (parsing) -> sar_related_data_in_the_record -> '
  'interleaving_id\n'
  'stream read less than specified amount, expected 4, found 3'),
 ('truncated',
  272,
  'raised construct.core.StreamError: Error in path (parsing) -> record_data_in_the_file -> '
  'number_of_physical_records_per_line\n'
  'stream read less than specified amount, expected 2, found 0'),
 ('truncated',
  273,
  'raised construct.core.StreamError: Error in path (parsing) -> record_data_in_the_file -> '
  'number_of_physical_records_per_line\n'
  'stream read less than specified amount, expected 2, found 1'),
 ('truncated',
  274,
  'raised construct.core.StreamError: Error in path (parsing) -> record_data_in_the_file -> '
  'number_of_physical_records_per_multichannel_line_in_this_file\n'
  'stream read less than specified amount, expected 2, found 0'),
 ('truncated',
  275,
  'raised construct.core.StreamError: Error in path (parsing) -> record_data_in_the_file -> '
  'number_of_physical_records_per_multichannel_line_in_this_file\n'
  'stream read less than specified amount, expected 2, found 1'),
 ('truncated',
  276,
  'raised construct.core.StreamError: Error in path (parsing) -> record_data_in_the_file -> '
  'number_of_bytes_of_prefix_data_per_record\n'
  'stream read less than specified amount, expected 4, found 0'),
 ('truncated',
  277,
  'raised construct.core.StreamError: Error in path (parsing) -> record_data_in_the_file -> '
  'number_of_bytes_of_prefix_data_per_record\n'
  'stream read less than specified amount, expected 4, found 1'),
 ('truncated',
  278,
  'raised construct.core.StreamError: Error in path (parsing) -> record_data_in_the_file -> '
  'number_of_bytes_of_prefix_data_per_record\n'
  'stream read less than specified amount, expected 4, found 2'),
 ('truncated',
  279,
  'raised construct.core.StreamError: Error in path (parsing) -> record_data_in_the_file -> '
  'number_of_bytes_of_prefix_data_per_record\n'
  'stream read less than specified amount, expected 4, found 3'),
 ('truncated',
  280,
  'raised construct.core.StreamError: Error in path (parsing) -> record_data_in_the_file -> '
  'number_of_bytes_of_sar_data_per_record\n'
  'stream read less than specified amount, expected 8, found 0'),
 ('truncated',
  281,
  'raised construct.core.StreamError: Error in path (parsing) -> record_data_in_the_file -> '
  'number_of_bytes_of_sar_data_per_record\n'
  'stream read less than specified amount, expected 8, found 1'),
 ('truncated',
  282,
  'raised construct.core.StreamError: Error in path (parsing) -> record_data_in_the_file -> '
  'number_of_bytes_of_sar_data_per_record\n'
  'stream read less than specified amount, expected 8, found 2'),
 ('truncated',
  283,
  'raised construct.core.StreamError: Error in path (parsing) -> record_data_in_the_file -> '
  'number_of_bytes_of_sar_data_per_record\n'
  'stream read less than specified amount, expected 8, found 3'),
 ('truncated',
  284,
  'raised construct.core.StreamError: Error in path (parsing) -> record_data_in_the_file -> '
  'number_of_bytes_of_sar_data_per_record\n'
  'stream read less than specified amount, expected 8, found 4'),
 ('truncated',
  285,
  'raised construct.core.StreamError: Error in path (parsing) -> record_data_in_the_file -> '
  'number_of_bytes_of_sar_data_per_record\n'
  'stream read less than specified amount, expected 8, found 5'),
 ('truncated',
  286,
  'raised construct.core.StreamError: Error in path (parsing) -> record_data_in_the_file -> '
  'number_of_bytes_of_sar_data_per_record\n'
  'stream read less than specified amount, expected 8, found 6'),
 ('truncated',
  287,
  'raised construct.core.StreamError: Error in path (parsing) -> record_data_in_the_file -> '
  'number_of_bytes_of_sar_data_per_record\n'
  'stream read less than specified amount, expected 8, found 7'),
 ('truncated',
  288,
  'raised construct.core.StreamError: Error in path (parsing) -> record_data_in_the_file -> '
  'number_of_bytes_of_suffix_data_per_record\n'
  'stream read less than specified amount, expected 4, found 0'),
 ('truncated',
  289,
  'raised construct.core.StreamError: Error in path (parsing) -> record_data_in_the_file -> '
  'number_of_bytes_of_suffix_data_per_record\n'
  'stream read less than specified amount, expected 4, found 1'),
 ('truncated',
  290,
  'raised construct.core.StreamError: Error in path (parsing) -> record_data_in_the_file -> '
  'number_of_bytes_of_suffix_data_per_record\n'
  'stream read less than specified amount, expected 4, found 2'),
 ('truncated',
  291,
  'raised construct.core.StreamError: Error in path (parsing) -> record_data_in_the_file -> '
  'number_of_bytes_of_suffix_data_per_record\n'
  'stream read less than specified amount, expected 4, found 3'),
 ('truncated',
  292,
  'raised construct.core.StreamError: Error in path (parsing) -> record_data_in_the_file -> '
  'prefix_suffix_repeat_flag\n'
  'stream read less than specified amount, expected 4, found 0'),
 ('truncated',
  293,
  'raised construct.core.StreamError: Error in path (parsing) -> record_data_in_the_file -> '
  'prefix_suffix_repeat_flag\n'
  'stream read less than specified amount, expected 4, found 1'),
 ('truncated',
  294,
  'raised construct.core.StreamError: Error in path (parsing) -> record_data_in_the_file -> '
  'prefix_suffix_repeat_flag\n'
  'stream read less than specified amount, expected 4, found 2'),
 ('truncated',
  295,
  'raised construct.core.StreamError: Error in path (parsing) -> record_data_in_the_file -> '
  'prefix_suffix_repeat_flag\n'
  'stream read less than specified amount, expected 4, found 3'),
 ('truncated',
  296,
  'raised construct.core.StreamError: Error in path (parsing) -> prefix_suffix_data_locators -> '
  'sample_data_line_number_locator\n'
  'stream read less than specified amount, expected 8, found 0'),
 ('truncated',
  297,
  'raised construct.core.StreamError: Error in path (parsing) -> prefix_suffix_data_locators -> '
  'sample_data_line_number_locator\n'
  'stream read less than specified amount, expected 8, found 1'),
 ('truncated',
  298,
  'raised construct.core.StreamError: Error in path (parsing) -> prefix_suffix_data_locators -> '
  'sample_data_line_number_locator\n'
  'stream read less than specified amount, expected 8, found 2'),
 ('truncated',
  299,
  'raised construct.core.StreamError: Error in path (parsing) -> prefix_suffix_data_locators -> '
  'sample_data_line_number_locator\n'
  'stream read less than specified amount, expected 8, found 3'),
 ('truncated',
  300,
  'raised construct.core.StreamError: Error in path (parsing) -> prefix_suffix_data_locators -> '
  'sample_data_line_number_locator\n'
  'stream read less than specified amount, expected 8, found 4'),
 ('truncated',
  301,
  'raised construct.core.StreamError: Error in path (parsing) -> prefix_suffix_data_locators -> '
  'sample_data_line_number_locator\n'
  'stream read less than specified amount, expected 8, found 5'),
 ('truncated',
  302,
  'raised construct.core.StreamError: Error in path (parsing) -> prefix_suffix_data_locators -> '
  'sample_data_line_number_locator\n'
  'stream read less than specified amount, expected 8, found 6'),
 ('truncated',
  303,
  'raised construct.core.StreamError: Error in path (parsing) -> prefix_suffix_data_locators -> '
  'sample_data_line_number_locator\n'
  'stream read less than specified amount, expected 8, found 7'),
 ('truncated',
  304,
  'raised construct.core.StreamError: Error in path (parsing) -> prefix_suffix_data_locators -> '
  'sar_channel_number_locator\n'
  'stream read less than specified amount, expected 8, found 0'),
 ('truncated',
  305,
  'raised construct.core.StreamError: Error in path (parsing) -> prefix_suffix_data_locators -> '
  'sar_channel_number_locator\n'
  'stream read less than specified amount, expected 8, found 1'),
 ('truncated',
  306,
  'raised construct.core.StreamError: Error in path (parsing) -> prefix_suffix_data_locators -> '
  'sar_channel_number_locator\n'
  'stream read less than specified amount, expected 8, found 2'),
 ('truncated',
  307,
  'raised construct.core.StreamError: Error in path (parsing) -> prefix_suffix_data_locators -> '
  'sar_channel_number_locator\n'
  'stream read less than specified amount, expected 8, found 3'),
 ('truncated',
  308,
  'raised construct.core.StreamError: Error in path (parsing) -> prefix_suffix_data_locators -> '
  'sar_channel_number_locator\n'
  'stream read less than specified amount, expected 8, found 4'),
 ('truncated',
  309,
  'raised construct.core.StreamError: Error in path (parsing) -> prefix_suffix_data_locators -> '
  'sar_channel_number_locator\n'
  'stream read less than specified amount, expected 8, found 5'),
 ('truncated',
  310,
  'raised construct.core.StreamError: Error in path (parsing) -> prefix_suffix_data_locators -> '
  'sar_channel_number_locator\n'
  'stream read less than specified amount, expected 8, found 6'),
 ('truncated',
  311,
  'raised construct.core.StreamError: Error in path (parsing) -> prefix_suffix_data_locators -> '
  'sar_channel_number_locator\n'
  'stream read less than specified amount, expected 8, found 7'),
 ('truncated',
  312,
  'raised construct.core.StreamError: Error in path (parsing) -> prefix_suffix_data_locators -> '
  'time_of_sar_data_line_locator\n'
  'stream read less than specified amount, expected 8, found 0'),
 ('truncated',
  313,
  'raised construct.core.StreamError: Error in path (parsing) -> prefix_suffix_data_locators -> '
  'time_of_sar_data_line_locator\n'
  'stream read less than specified amount, expected 8, found 1'),
 ('truncated',
  314,
  'raised construct.core.StreamError: Error in path (parsing) -> prefix_suffix_data_locators -> '
  'time_of_sar_data_line_locator\n'
  'stream read less than specified amount, expected 8, found 2'),
 ('truncated',
  315,
  'raised construct.core.StreamError: Error in path (parsing) -> prefix_suffix_data_locators -> '
  'time_of_sar_data_line_locator\n'
  'stream read less than specified amount, expected 8, found 3'),
 ('truncated',
  316,
  'raised construct.core.StreamError: Error in path (parsing) -> prefix_suffix_data_locators -> '
  'time_of_sar_data_line_locator\n'
  'stream read less than specified amount, expected 8, found 4'),
 ('truncated',
  317,
  'raised construct.core.StreamError: Error in path (parsing) -> prefix_suffix_data_locators -> '
  'time_of_sar_data_line_locator\n'
  'stream read less than specified amount, expected 8, found 5'),
 ('truncated',
  318,
  'raised construct.core.StreamError: Error in path (parsing) -> prefix_suffix_data_locators -> '
  'time_of_sar_data_line_locator\n'
  'stream read less than specified amount, expected 8, found 6'),
 ('truncated',
  319,
  'raised construct.core.StreamError: Error in path (parsing) -> prefix_suffix_data_locators -> '
  'time_of_sar_data_line_locator\n'
  'stream read less than specified amount, expected 8, found 7'),
 ('truncated',
  320,
  'raised construct.core.StreamError: Error in path (parsing) -> prefix_suffix_data_locators -> '
  'left_fill_count_locator\n'
  'stream read less than specified amount, expected 8, found 0'),
 ('truncated',
  321,
  'raised construct.core.StreamError: Error in path (parsing) -> prefix_suffix_data_locators -> '
  'left_fill_count_locator\n'
  'stream read less than specified amount, expected 8, found 1'),
 ('truncated',
  322,
  'raised construct.core.StreamError: Error in path (parsing) -> prefix_suffix_data_locators -> '
  'left_fill_count_locator\n'
  'stream read less than specified amount, expected 8, found 2'),
 ('truncated',
  323,
  'raised construct.core.StreamError: Error in path (parsing) -> prefix_suffix_data_locators -> '
  'left_fill_count_locator\n'
  'stream read less than specified amount, expected 8, found 3'),
 ('truncated',
  324,
  'raised construct.core.StreamError: Error in path (parsing) -> prefix_suffix_data_locators -> '
  'left_fill_count_locator\n'
  'stream read less than specified amount, expected 8, found 4'),
 ('truncated',
  325,
  'raised construct.core.StreamError: Error in path (parsing) -> prefix_suffix_data_locators -> '
  'left_fill_count_locator\n'
  'stream read less than specified amount, expected 8, found 5'),
 ('truncated',
  326,
  'raised construct.core.StreamError: Error in path (parsing) -> prefix_suffix_data_locators -> '
  'left_fill_count_locator\n'
  'stream read less than specified amount, expected 8, found 6'),
 ('truncated',
  327,
  'raised construct.core.StreamError: Error in path (parsing) -> prefix_suffix_data_locators -> '
  'left_fill_count_locator\n'
  'stream read less than specified amount, expected 8, found 7'),
 ('truncated',
  328,
  'raised construct.core.StreamError: Error in path (parsing) -> prefix_suffix_data_locators -> '
  'right_fill_count_locator\n'
  'stream read less than specified amount, expected 8, found 0'),
 ('truncated',
  329,
  'raised construct.core.StreamError: Error in path (parsing) -> prefix_suffix_data_locators -> '
  'right_fill_count_locator\n'
  'stream read less than specified amount, expected 8, found 1'),
 ('truncated',
  330,
  'raised construct.core.StreamError: Error in path (parsing) -> prefix_suffix_data_locators -> '
  'right_fill_count_locator\n'
  'stream read less than specified amount, expected 8, found 2'),
 ('truncated',
  331,
  'raised construct.core.StreamError: Error in path (parsing) -> prefix_suffix_data_locators -> '
  'right_fill_count_locator\n'
  'stream read less than specified amount, expected 8, found 3'),
 ('truncated',
  332,
  'raised construct.core.StreamError: Error in path (parsing) -> prefix_suffix_data_locators -> '
  'right_fill_count_locator\n'
  'stream read less than specified amount, expected 8, found 4'),
 ('truncated',
  333,
  'raised construct.core.StreamError: Error in path (parsing) -> prefix_suffix_data_locators -> '
  'right_fill_count_locator\n'
  'stream read less than specified amount, expected 8, found 5'),
 ('truncated',
  334,
  'raised construct.core.StreamError: Error in path (parsing) -> prefix_suffix_data_locators -> '
  'right_fill_count_locator\n'
  'stream read less than specified amount, expected 8, found 6'),
 ('truncated',
  335,
  'raised construct.core.StreamError: Error in path (parsing) -> prefix_suffix_data_locators -> '
  'right_fill_count_locator\n'
  'stream read less than specified amount, expected 8, found 7'),
 ('truncated',
  336,
  'raised construct.core.StreamError: Error in path (parsing) -> prefix_suffix_data_locators -> '
  'pad_pixels_present_indicator\n'
  'stream read less than specified amount, expected 4, found 0'),
 ('truncated',
  337,
  'raised construct.core.StreamError: Error in path (parsing) -> prefix_suffix_data_locators -> '
  'pad_pixels_present_indicator\n'
  'stream read less than specified amount, expected 4, found 1'),
 ('truncated',
  338,
  'raised construct.core.StreamError: Error in path (parsing) -> prefix_suffix_data_locators -> '
  'pad_pixels_present_indicator\n'
  'stream read less than specified amount, expected 4, found 2'),
 ('truncated',
  339,
  'raised construct.core.StreamError: Error in path (parsing) -> prefix_suffix_data_locators -> '
  'pad_pixels_present_indicator\n'
  'stream read less than specified amount, expected 4, found 3'),
 ('truncated',
  340,
  'raised construct.core.StreamError: Error in path (parsing) -> prefix_suffix_data_locators -> '
  'blanks\n'
  'stream read less than specified amount, expected 28, found 0'),
 ('truncated',
  341,
  'raised construct.core.StreamError: Error in path (parsing) -> prefix_suffix_data_locators -> '
  'blanks\n'
  'stream read less than specified amount, expected 28, found 1'),
 ('truncated',
  342,
  'raised construct.core.StreamError: Error in path (parsing) -> prefix_suffix_data_locators -> '
  'blanks\n'
  'stream read less than specified amount, expected 28, found 2'),
 ('truncated',
  343,
  'raised construct.core.StreamError: Error in path (parsing) -> prefix_suffix_data_locators -> '
  'blanks\n'
  'stream read less than specified amount, expected 28, found 3'),
 ('truncated',
  344,
  'raised construct.core.StreamError: Error in path (parsing) -> prefix_suffix_data_locators -> '
  'blanks\n'
  'stream read less than specified amount, expected 28, found 4'),
 ('truncated',
  345,
  'raised construct.core.StreamError: Error in path (parsing) -> prefix_suffix_data_locators -> '
  'blanks\n'
  'stream read less than specified amount, expected 28, found 5'),
 ('truncated',
  346,
  'raised construct.core.StreamError: Error in path (parsing) -> prefix_suffix_data_locators -> '
  'blanks\n'
  'stream read less than specified amount, expected 28, found 6'),
 ('truncated',
  347,
  'raised construct.core.StreamError: Error in path (parsing) -> prefix_suffix_data_locators -> '
  'blanks\n'
  'stream read less than specified amount, expected 28, found 7'),
 ('truncated',
  348,
  'raised construct.core.StreamError: Error in path (parsing) -> prefix_suffix_data_locators -> '
  'blanks\n'
  'stream read less than specified amount, expected 28, found 8'),
 ('truncated',
  349,
  'raised construct.core.StreamError: Error in path (parsing) -> prefix_suffix_data_locators -> '
  'blanks\n'
  'stream read less than specified amount, expected 28, found 9'),
 ('truncated',
  350,
  'raised construct.core.StreamError: Error in path (parsing) -> prefix_suffix_data_locators -> '
  'blanks\n'
  'stream read less than specified amount, expected 28, found 10'),
 ('truncated',
  351,
  'raised construct.core.StreamError: Error in path (parsing) -> prefix_suffix_data_locators -> '
  'blanks\n'
  'stream read less than specified amount, expected 28, found 11'),
 ('truncated',
  352,
  'raised construct.core.StreamError: Error in path (parsing) -> prefix_suffix_data_locators -> '
  'blanks\n'
  'stream read less than specified amount, expected 28, found 12'),
 ('truncated',
  353,
  'raised construct.core.StreamError: Error in path (parsing) -> prefix_suffix_data_locators -> '
  'blanks\n'
  'stream read less than specified amount, expected 28, found 13'),
 ('truncated',
  354,
  'raised construct.core.StreamError: Error in path (parsing) -> prefix_suffix_data_locators -> '
  'blanks\n'
  'stream read less than specified amount, expected 28, found 14'),
 ('truncated',
  355,
  'raised construct.core.StreamError: Error in path (parsing) -> prefix_suffix_data_locators -> '
  'blanks\n'
  'stream read less than specified amount, expected 28, found 15'),
 ('truncated',
  356,
  'raised construct.core.StreamError: Error in path (parsing) -> prefix_suffix_data_locators -> '
  'blanks\n'
  'stream read less than specified amount, expected 28, found 16'),
 ('truncated',
  357,
  'raised construct.core.StreamError: Error in path (parsing) -> prefix_suffix_data_locators -> '
  'blanks\n'
  'stream read less than specified amount, expected 28, found 17'),
 ('truncated',
  358,
  'raised construct.core.StreamError: Error in path (parsing) -> prefix_suffix_data_locators -> '
  'blanks\n'
  'stream read less than specified amount, expected 28, found 18'),
 ('truncated',
  359,
  'raised construct.core.StreamError: Error in path (parsing) -> prefix_suffix_data_locators -> '
  'blanks\n'
  'stream read less than specified amount, expected 28, found 19'),
 ('truncated',
  360,
  'raised construct.core.StreamError: Error in path (parsing) -> prefix_suffix_data_locators -> '
  'blanks\n'
  'stream read less than specified amount, expected 28, found 20'),
 ('truncated',
  361,
  'raised construct.core.StreamError: Error in path (parsing) -> prefix_suffix_data_locators -> '
  'blanks\n'
  'stream read less than specified amount, expected 28, found 21'),
 ('truncated',
  362,
  'raised construct.core.StreamError: Error in path (parsing) -> prefix_suffix_data_locators -> '
  'blanks\n'
  'stream read less than specified amount, expected 28, found 22'),
 ('truncated',
  363,
  'raised construct.core.StreamError: Error in path (parsing) -> prefix_suffix_data_locators -> '
  'blanks\n'
  'stream read less than specified amount, expected 28, found 23'),
 ('truncated',
  364,
  'raised construct.core.StreamError: Error in path (parsing) -> prefix_suffix_data_locators -> '
  'blanks\n'
  'stream read less than specified amount, expected 28, found 24'),
 ('truncated',
  365,
  'raised construct.core.StreamError: Error in path (parsing) -> prefix_suffix_data_locators -> '
  'blanks\n'
  'stream read less than specified amount, expected 28, found 25'),
 ('truncated',
  366,
  'raised construct.core.StreamError: Error in path (parsing) -> prefix_suffix_data_locators -> '
  'blanks\n'
  'stream read less than specified amount, expected 28, found 26'),
 ('truncated',
  367,
  'raised construct.core.StreamError: Error in path (parsing) -> prefix_suffix_data_locators -> '
  'blanks\n'
  'stream read less than specified amount, expected 28, found 27'),
 ('truncated',
  368,
  'raised construct.core.StreamError: Error in path (parsing) -> prefix_suffix_data_locators -> '
  'sar_data_line_quality_code_locator\n'
  'stream read less than specified amount, expected 8, found 0'),
 ('truncated',
  369,
  'raised construct.core.StreamError: Error in path (parsing) -> prefix_suffix_data_locators -> '
  'sar_data_line_quality_code_locator\n'
  'stream read less than specified amount, expected 8, found 1'),
 ('truncated',
  370,
  'raised construct.core.StreamError: Error in path (parsing) -> prefix_suffix_data_locators -> '
  'sar_data_line_quality_code_locator\n'
  'stream read less than specified amount, expected 8, found 2'),
 ('truncated',
  371,
  'raised construct.core.StreamError: Error in path (parsing) -> prefix_suffix_data_locators -> '
  'sar_data_line_quality_code_locator\n'
  'stream read less than specified amount, expected 8, found 3'),
 ('truncated',
  372,
  'raised construct.core.StreamError: Error in path (parsing) -> prefix_suffix_data_locators -> '
  'sar_data_line_quality_code_locator\n'
  'stream read less than specified amount, expected 8, found 4'),
 ('truncated',
  373,
  'raised construct.core.StreamError: Error in path (parsing) -> prefix_suffix_data_locators -> '
  'sar_data_line_quality_code_locator\n'
  'stream read less than specified amount, expected 8, found 5'),
 ('truncated',
  374,
  'raised construct.core.StreamError: Error in path (parsing) -> prefix_suffix_data_locators -> '
  'sar_data_line_quality_code_locator\n'
  'stream read less than specified amount, expected 8, found 6'),
 ('truncated',
  375,
  'raised construct.core.StreamError: Error in path (parsing) -> prefix_suffix_data_locators -> '
  'sar_data_line_quality_code_locator\n'
  'stream read less than specified amount, expected 8, found 7'),
 ('truncated',
  376,
  'raised construct.core.StreamError: Error in path (parsing) -> prefix_suffix_data_locators -> '
  'calibration_information_field_locator\n'
  'stream read less than specified amount, expected 8, found 0'),
 ('truncated',
  377,
  'raised construct.core.StreamError: Error in path (parsing) -> prefix_suffix_data_locators -> '
  'calibration_information_field_locator\n'
  'stream read less than specified amount, expected 8, found 1'),
 ('truncated',
  378,
  'raised construct.core.StreamError: Error in path (parsing) -> prefix_suffix_data_locators -> '
  'calibration_information_field_locator\n'
  'stream read less than specified amount, expected 8, found 2'),
 ('truncated',
  379,
  'raised construct.core.StreamError: Error in path (parsing) -> prefix_suffix_data_locators -> '
  'calibration_information_field_locator\n'
  'stream read less than specified amount, expected 8, found 3'),
 ('truncated',
  380,
  'raised construct.core.StreamError: Error in path (parsing) -> prefix_suffix_data_locators -> '
  'calibration_information_field_locator\n'
  'stream read less than specified amount, expected 8, found 4'),
 ('truncated',
  381,
  'raised construct.core.StreamError: Error in path (parsing) -> prefix_suffix_data_locators -> '
  'calibration_information_field_locator\n'
  'stream read less than specified amount, expected 8, found 5'),
 ('truncated',
  382,
  'raised construct.core.StreamError: Error in path (parsing) -> prefix_suffix_data_locators -> '
  'calibration_information_field_locator\n'
  'stream read less than specified amount, expected 8, found 6'),
 ('truncated',
  383,
  'raised construct.core.StreamError: Error in path (parsing) -> prefix_suffix_data_locators -> '
  'calibration_information_field_locator\n'
  'stream read less than specified amount, expected 8, found 7'),
 ('truncated',
  384,
  'raised construct.core.StreamError: Error in path (parsing) -> prefix_suffix_data_locators -> '
  'gain_values_field_locator\n'
  'stream read less than specified amount, expected 8, found 0'),
 ('truncated',
  385,
  'raised construct.core.StreamError: Error in path (parsing) -> prefix_suffix_data_locators -> '
  'gain_values_field_locator\n'
  'stream read less than specified amount, expected 8, found 1'),
 ('truncated',
  386,
  'raised construct.core.StreamError: Error in path (parsing) -> prefix_suffix_data_locators -> '
  'gain_values_field_locator\n'
  'stream read less than specified amount, expected 8, found 2'),
 ('truncated',
  387,
  'raised construct.core.StreamError: Error in path (parsing) -> prefix_suffix_data_locators -> '
  'gain_values_field_locator\n'
  'stream read less than specified amount, expected 8, found 3'),
 ('truncated',
  388,
  'raised construct.core.StreamError: Error in path (parsing) -> prefix_suffix_data_locators -> '
  'gain_values_field_locator\n'
  'stream read less than specified amount, expected 8, found 4'),
 ('truncated',
  389,
  'raised construct.core.StreamError: Error in path (parsing) -> prefix_suffix_data_locators -> '
  'gain_values_field_locator\n'
  'stream read less than specified amount, expected 8, found 5'),
 ('truncated',
  390,
  'raised construct.core.StreamError: Error in path (parsing) -> prefix_suffix_data_locators -> '
  'gain_values_field_locator\n'
  'stream read less than specified amount, expected 8, found 6'),
 ('truncated',
  391,
  'raised construct.core.StreamError: Error in path (parsing) -> prefix_suffix_data_locators -> '
  'gain_values_field_locator\n'
  'stream read less than specified amount, expected 8, found 7'),
 ('truncated',
  392,
  'raised construct.core.StreamError: Error in path (parsing) -> prefix_suffix_data_locators -> '
  'bias_values_field_locator\n'
  'stream read less than specified amount, expected 8, found 0'),
 ('truncated',
  393,
  'raised construct.core.StreamError: Error in path (parsing) -> prefix_suffix_data_locators -> '
  'bias_values_field_locator\n'
  'stream read less than specified amount, expected 8, found 1'),
 ('truncated',
  394,
  'raised construct.core.StreamError: Error in path (parsing) -> prefix_suffix_data_locators -> '
  'bias_values_field_locator\n'
  'stream read less than specified amount, expected 8, found 2'),
 ('truncated',
  395,
  'raised construct.core.StreamError: Error in path (parsing) -> prefix_suffix_data_locators -> '
  'bias_values_field_locator\n'
  'stream read less than specified amount, expected 8, found 3'),
 ('truncated',
  396,
  'raised construct.core.StreamError: Error in path (parsing) -> prefix_suffix_data_locators -> '
  'bias_values_field_locator\n'
  'stream read less than specified amount, expected 8, found 4'),
 ('truncated',
  397,
  'raised construct.core.StreamError: Error in path (parsing) -> prefix_suffix_data_locators -> '
  'bias_values_field_locator\n'
  'stream read less than specified amount, expected 8, found 5'),
 ('truncated',
  398,
  'raised construct.core.StreamError: Error in path (parsing) -> prefix_suffix_data_locators -> '
  'bias_values_field_locator\n'
  'stream read less than specified amount, expected 8, found 6'),
 ('truncated',
  399,
  'raised construct.core.StreamError: Error in path (parsing) -> prefix_suffix_data_locators -> '
  'bias_values_field_locator\n'
  'stream read less than specified amount, expected 8, found 7'),
 ('truncated',
  400,
  'raised construct.core.StreamError: Error in path (parsing) -> prefix_suffix_data_locators -> '
  'sar_data_format_type_indicator\n'
  'stream read less than specified amount, expected 28, found 0'),
 ('truncated',
  401,
  'raised construct.core.StreamError: Error in path (parsing) -> prefix_suffix_data_locators -> '
  'sar_data_format_type_indicator\n'
  'stream read less than specified amount, expected 28, found 1'),
 ('truncated',
  402,
  'raised construct.core.StreamError: Error in path (parsing) -> prefix_suffix_data_locators -> '
  'sar_data_format_type_indicator\n'
  'stream read less than specified amount, expected 28, found 2'),
 ('truncated',
  403,
  'raised construct.core.StreamError: Error in path (parsing) -> prefix_suffix_data_locators -> '
  'sar_data_format_type_indicator\n'
  'stream read less than specified amount, expected 28, found 3'),
 ('truncated',
  404,
  'raised construct.core.StreamError: Error in path (parsing) -> prefix_suffix_data_locators -> '
  'sar_data_format_type_indicator\n'
  'stream read less than specified amount, expected 28, found 4'),
 ('truncated',
  405,
  'raised construct.core.StreamError: Error in path (parsing) -> prefix_suffix_data_locators -> '
  'sar_data_format_type_indicator\n'
  'stream read less than specified amount, expected 28, found 5'),
 ('truncated',
  406,
  'raised construct.core.StreamError: Error in path (parsing) -> prefix_suffix_data_locators -> '
  'sar_data_format_type_indicator\n'
  'stream read less than specified amount, expected 28, found 6'),
 ('truncated',
  407,
  'raised construct.core.StreamError: Error in path (parsing) -> prefix_suffix_data_locators -> '
  'sar_data_format_type_indicator\n'
  'stream read less than specified amount, expected 28, found 7'),
 ('truncated',
  408,
  'raised construct.core.StreamError: Error in path (parsing) -> prefix_suffix_data_locators -> '
  'sar_data_format_type_indicator\n'
  'stream read less than specified amount, expected 28, found 8'),
 ('truncated',
  409,
  'raised construct.core.StreamError: Error in path (parsing) -> prefix_suffix_data_locators -> '
  'sar_data_format_type_indicator\n'
  'stream read less than specified amount, expected 28, found 9'),
 ('truncated',
  410,
  'raised construct.core.StreamError: Error in path (parsing) -> prefix_suffix_data_locators -> '
  'sar_data_format_type_indicator\n'
  'stream read less than specified amount, expected 28, found 10'),
 ('truncated',
  411,
  'raised construct.core.StreamError: Error in path (parsing) -> prefix_suffix_data_locators -> '
  'sar_data_format_type_indicator\n'
  'stream read less than specified amount, expected 28, found 11'),
 ('truncated',
  412,
  'raised construct.core.StreamError: Error in path (parsing) -> prefix_suffix_data_locators -> '
  'sar_data_format_type_indicator\n'
  'stream read less than specified amount, expected 28, found 12'),
 ('truncated',
  413,
  'raised construct.core.StreamError: Error in path (parsing) -> prefix_suffix_data_locators -> '
  'sar_data_format_type_indicator\n'
  'stream read less than specified amount, expected 28, found 13'),
 ('truncated',
  414,
  'raised construct.core.StreamError: Error in path (parsing) -> prefix_suffix_data_locators -> '
  'sar_data_format_type_indicator\n'
  'stream read less than specified amount, expected 28, found 14'),
 ('truncated',
  415,
  'raised construct.core.StreamError: Error in path (parsing) -> prefix_suffix_data_locators -> '
  'sar_data_format_type_indicator\n'
  'stream read less than specified amount, expected 28, found 15'),
 ('truncated',
  416,
  'raised construct.core.StreamError: Error in path (parsing) -> prefix_suffix_data_locators -> '
  'sar_data_format_type_indicator\n'
  'stream read less than specified amount, expected 28, found 16'),
 ('truncated',
  417,
  'raised construct.core.StreamError: Error in path (parsing) -> prefix_suffix_data_locators -> '
  'sar_data_format_type_indicator\n'
  'stream read less than specified amount, expected 28, found 17'),
 ('truncated',
  418,
  'raised construct.core.StreamError: Error in path (parsing) -> prefix_suffix_data_locators -> '
  'sar_data_format_type_indicator\n'
  'stream read less than specified amount, expected 28, found 18'),
 ('truncated',
  419,
  'raised construct.core.StreamError: Error in path (parsing) -> prefix_suffix_data_locators -> '
  'sar_data_format_type_indicator\n'
  'stream read less than specified amount, expected 28, found 19'),
 ('truncated',
  420,
  'raised construct.core.StreamError: Error in path (parsing) -> prefix_suffix_data_locators -> '
  'sar_data_format_type_indicator\n'
  'stream read less than specified amount, expected 28, found 20'),
 ('truncated',
  421,
  'raised construct.core.StreamError: Error in path (parsing) -> prefix_suffix_data_locators -> '
  'sar_data_format_type_indicator\n'
  'stream read less than specified amount, expected 28, found 21'),
 ('truncated',
  422,
  'raised construct.core.StreamError: Error in path (parsing) -> prefix_suffix_data_locators -> '
  'sar_data_format_type_indicator\n'
  'stream read less than specified amount, expected 28, found 22'),
 ('truncated',
  423,
  'raised construct.core.StreamError: Error in path (parsing) -> prefix_suffix_data_locators -> '
  'sar_data_format_type_indicator\n'
  'stream read less than specified amount, expected 28, found 23'),
 ('truncated',
  424,
  'raised construct.core.StreamError: Error in path (parsing) -> prefix_suffix_data_locators -> '
  'sar_data_format_type_indicator\n'
  'stream read less than specified amount, expected 28, found 24'),
 ('truncated',
  425,
  'raised construct.core.StreamError: Error in path (parsing) -> prefix_suffix_data_locators -> '
  'sar_data_format_type_indicator\n'
  'stream read less than specified amount, expected 28, found 25'),
 ('truncated',
  426,
  'raised construct.core.StreamError: Error in path (parsing) -> prefix_suffix_data_locators -> '
  'sar_data_format_type_indicator\n'
  'stream read less than specified amount, expected 28, found 26'),
 ('truncated',
  427,
  'raised construct.core.StreamError: Error in path (parsing) -> prefix_suffix_data_locators -> '
  'sar_data_format_type_indicator\n'
  'stream read less than specified amount, expected 28, found 27'),
 ('truncated',
  428,
  'raised construct.core.StreamError: Error in path (parsing) -> prefix_suffix_data_locators -> '
  'sar_data_format_type_code\n'
  'stream read less than specified amount, expected 4, found 0'),
 ('truncated',
  429,
  'raised construct.core.StreamError: Error in path (parsing) -> prefix_suffix_data_locators -> '
  'sar_data_format_type_code\n'
  'stream read less than specified amount, expected 4, found 1'),
 ('truncated',
  430,
  'raised construct.core.StreamError: Error in path (parsing) -> prefix_suffix_data_locators -> '
  'sar_data_format_type_code\n'
  'stream read less than specified amount, expected 4, found 2'),
 ('truncated',
  431,
  'raised construct.core.StreamError: Error in path (parsing) -> prefix_suffix_data_locators -> '
  'sar_data_format_type_code\n'
  'stream read less than specified amount, expected 4, found 3'),
 ('truncated',
  432,
  'raised construct.core.StreamError: Error in path (parsing) -> prefix_suffix_data_locators -> '
  'number_of_left_fill_bits_within_pixel\n'
  'stream read less than specified amount, expected 4, found 0'),
 ('truncated',
  433,
  'raised construct.core.StreamError: Error in path (parsing) -> prefix_suffix_data_locators -> '
  'number_of_left_fill_bits_within_pixel\n'
  'stream read less than specified amount, expected 4, found 1'),
 ('truncated',
  434,
  'raised construct.core.StreamError: Error in path (parsing) -> prefix_suffix_data_locators -> '
  'number_of_left_fill_bits_within_pixel\n'
  'stream read less than specified amount, expected 4, found 2'),
 ('truncated',
  435,
  'raised construct.core.StreamError: Error in path (parsing) -> prefix_suffix_data_locators -> '
  'number_of_left_fill_bits_within_pixel\n'
  'stream read less than specified amount, expected 4, found 3'),
 ('truncated',
  436,
  'raised construct.core.StreamError: Error in path (parsing) -> prefix_suffix_data_locators -> '
  'number_of_right_fill_bits_within_pixel\n'
  'stream read less than specified amount, expected 4, found 0'),
 ('truncated',
  437,
  'raised construct.core.StreamError: Error in path (parsing) -> prefix_suffix_data_locators -> '
  'number_of_right_fill_bits_within_pixel\n'
  'stream read less than specified amount, expected 4, found 1'),
 ('truncated',
  438,
  'raised construct.core.StreamError: Error in path (parsing) -> prefix_suffix_data_locators -> '
  'number_of_right_fill_bits_within_pixel\n'
  'stream read less than specified amount, expected 4, found 2'),
 ('truncated',
  439,
  'raised construct.core.StreamError: Error in path (parsing) -> prefix_suffix_data_locators -> '
  'number_of_right_fill_bits_within_pixel\n'
  'stream read less than specified amount, expected 4, found 3'),
 ('truncated',
  440,
  'raised construct.core.StreamError: Error in path (parsing) -> prefix_suffix_data_locators -> '
  'maximum_data_range_of_pixel\n'
  'stream read less than specified amount, expected 8, found 0'),
 ('truncated',
  441,
  'raised construct.core.StreamError: Error in path (parsing) -> prefix_suffix_data_locators -> '
  'maximum_data_range_of_pixel\n'
  'stream read less than specified amount, expected 8, found 1'),
 ('truncated',
  442,
  'raised construct.core.StreamError: Error in path (parsing) -> prefix_suffix_data_locators -> '
  'maximum_data_range_of_pixel\n'
  'stream read less than specified amount, expected 8, found 2'),
 ('truncated',
  443,
  'raised construct.core.StreamError: Error in path (parsing) -> prefix_suffix_data_locators -> '
  'maximum_data_range_of_pixel\n'
  'stream read less than specified amount, expected 8, found 3'),
 ('truncated',
  444,
  'raised construct.core.StreamError: Error in path (parsing) -> prefix_suffix_data_locators -> '
  'maximum_data_range_of_pixel\n'
  'stream read less than specified amount, expected 8, found 4'),
 ('truncated',
  445,
  'raised construct.core.StreamError: Error in path (parsing) -> prefix_suffix_data_locators -> '
  'maximum_data_range_of_pixel\n'
  'stream read less than specified amount, expected 8, found 5'),
 ('truncated',
  446,
  'raised construct.core.StreamError: Error in path (parsing) -> prefix_suffix_data_locators -> '
  'maximum_data_range_of_pixel\n'
  'stream read less than specified amount, expected 8, found 6'),
 ('truncated',
  447,
  'raised construct.core.StreamError: Error in path (parsing) -> prefix_suffix_data_locators -> '
  'maximum_data_range_of_pixel\n'
  'stream read less than specified amount, expected 8, found 7'),
 ('truncated',
  448,
  'raised construct.core.StreamError: Error in path (parsing) -> prefix_suffix_data_locators -> '
  'number_of_burst_data\n'
  'stream read less than specified amount, expected 4, found 0'),
 ('truncated',
  449,
  'raised construct.core.StreamError: Error in path (parsing) -> prefix_suffix_data_locators -> '
  'number_of_burst_data\n'
  'stream read less than specified amount, expected 4, found 1'),
 ('truncated',
  450,
  'raised construct.core.StreamError: Error in path (parsing) -> prefix_suffix_data_locators -> '
  'number_of_burst_data\n'
  'stream read less than specified amount, expected 4, found 2'),
 ('truncated',
  451,
  'raised construct.core.StreamError: Error in path (parsing) -> prefix_suffix_data_locators -> '
  'number_of_burst_data\n'
  'stream read less than specified amount, expected 4, found 3'),
 ('truncated',
  452,
  'raised construct.core.StreamError: Error in path (parsing) -> prefix_suffix_data_locators -> '
  'number_of_lines_per_burst\n'
  'stream read less than specified amount, expected 4, found 0'),
 ('truncated',
  453,
  'raised construct.core.StreamError: Error in path (parsing) -> prefix_suffix_data_locators -> '
  'number_of_lines_per_burst\n'
  'stream read less than specified amount, expected 4, found 1'),
 ('truncated',
  454,
  'raised construct.core.StreamError: Error in path (parsing) -> prefix_suffix_data_locators -> '
  'number_of_lines_per_burst\n'
  'stream read less than specified amount, expected 4, found 2'),
 ('truncated',
  455,
  'raised construct.core.StreamError: Error in path (parsing) -> prefix_suffix_data_locators -> '
  'number_of_lines_per_burst\n'
  'stream read less than specified amount, expected 4, found 3'),
 ('truncated',
  456,
  'raised construct.core.StreamError: Error in path (parsing) -> scansar_burst_data_information -> '
  'number_of_overlap_lines_with_adjacent_bursts\n'
  'stream read less than specified amount, expected 4, found 0'),
 ('truncated',
  457,
  'raised construct.core.StreamError: Error in path (parsing) -> scansar_burst_data_information -> '
  'number_of_overlap_lines_with_adjacent_bursts\n'
  'stream read less than specified amount, expected 4, found 1'),
 ('truncated',
  458,
  'raised construct.core.StreamError: Error in path (parsing) -> scansar_burst_data_information -> '
  'number_of_overlap_lines_with_adjacent_bursts\n'
  'stream read less than specified amount, expected 4, found 2'),
 ('truncated',
  459,
  'raised construct.core.StreamError: Error in path (parsing) -> scansar_burst_data_information -> '
  'number_of_overlap_lines_with_adjacent_bursts\n'
  'stream read less than specified amount, expected 4, found 3'),
 ('truncated',
  460,
  'raised construct.core.StreamError: Error in path (parsing) -> scansar_burst_data_information -> '
  'blanks\n'
  'stream read less than specified amount, expected 260, found 0'),
 ('truncated',
  461,
  'raised construct.core.StreamError: Error in path (parsing) -> scansar_burst_data_information -> '
  'blanks\n'
  'stream read less than specified amount, expected 260, found 1'),
 ('truncated',
  462,
  'raised construct.core.StreamError: Error in path (parsing) -> scansar_burst_data_information -> '
  'blanks\n'
  'stream read less than specified amount, expected 260, found 2'),
 ('truncated',
  463,
  'raised construct.core.StreamError: Error in path (parsing) -> scansar_burst_data_information -> '
  'blanks\n'
  'stream read less than specified amount, expected 260, found 3'),
 ('truncated',
  464,
  'raised construct.core.StreamError: Error in path (parsing) -> scansar_burst_data_information -> '
  'blanks\n'
  'stream read less than specified amount, expected 260, found 4'),
 ('truncated',
  465,
  'raised construct.core.StreamError: Error in path (parsing) -> scansar_burst_data_information -> '
  'blanks\n'
  'stream read less than specified amount, expected 260, found 5'),
 ('truncated',
  466,
  'raised construct.core.StreamError: Error in path (parsing) -> scansar_burst_data_information -> '
  'blanks\n'
  'stream read less than specified amount, expected 260, found 6'),
 ('truncated',
  467,
  'raised construct.core.StreamError: Error in path (parsing) -> scansar_burst_data_information -> '
  'blanks\n'
  'stream read less than specified amount, expected 260, found 7'),
 ('truncated',
  468,
  'raised construct.core.StreamError: Error in path (parsing) -> scansar_burst_data_information -> '
  'blanks\n'
  'stream read less than specified amount, expected 260, found 8'),
 ('truncated',
  469,
  'raised construct.core.StreamError: Error in path (parsing) -> scansar_burst_data_information -> '
  'blanks\n'
  'stream read less than specified amount, expected 260, found 9'),
 ('truncated',
  470,
  'raised construct.core.StreamError: Error in path (parsing) -> scansar_burst_data_information -> '
  'blanks\n'
  'stream read less than specified amount, expected 260, found 10'),
 ('truncated',
  471,
  'raised construct.core.StreamError: Error in path (parsing) -> scansar_burst_data_information -> '
  'blanks\n'
  'stream read less than specified amount, expected 260, found 11'),
 ('truncated',
  472,
  'raised construct.core.StreamError: Error in path (parsing) -> scansar_burst_data_information -> '
  'blanks\n'
  'stream read less than specified amount, expected 260, found 12'),
 ('truncated',
  473,
  'raised construct.core.StreamError: Error in path (parsing) -> scansar_burst_data_information -> '
  'blanks\n'
  'stream read less than specified amount, expected 260, found 13'),
 ('truncated',
  474,
  'raised construct.core.StreamError: Error in path (parsing) -> scansar_burst_data_information -> '
  'blanks\n'
  'stream read less than specified amount, expected 260, found 14'),
 ('truncated',
  475,
  'raised construct.core.StreamError: Error in path (parsing) -> scansar_burst_data_information -> '
  'blanks\n'
  'stream read less than specified amount, expected 260, found 15'),
 ('truncated',
  476,
  'raised construct.core.StreamError: Error in path (parsing) -> scansar_burst_data_information -> '
  'blanks\n'
  'stream read less than specified amount, expected 260, found 16'),
 ('truncated',
  477,
  'raised construct.core.StreamError: Error in path (parsing) -> scansar_burst_data_information -> '
  'blanks\n'
  'stream read less than specified amount, expected 260, found 17'),
 ('truncated',
  478,
  'raised construct.core.StreamError: Error in path (parsing) -> scansar_burst_data_information -> '
  'blanks\n'
  'stream read less than specified amount, expected 260, found 18'),
 ('truncated',
  479,
  'raised construct.core.StreamError: Error in path (parsing) -> scansar_burst_data_information -> '
  'blanks\n'
  'stream read less than specified amount, expected 260, found 19'),
 ('truncated',
  480,
  'raised construct.core.StreamError: Error in path (parsing) -> scansar_burst_data_information -> '
  'blanks\n'
  'stream read less than specified amount, expected 260, found 20'),
 ('truncated',
  481,
  'raised construct.core.StreamError: Error in path (parsing) -> scansar_burst_data_information -> '
  'blanks\n'
  'stream read less than specified amount, expected 260, found 21'),
 ('truncated',
  482,
  'raised construct.core.StreamError: Error in path (parsing) -> scansar_burst_data_information -> '
  'blanks\n'
  'stream read less than specified amount, expected 260, found 22'),
 ('truncated',
  483,
  'raised construct.core.StreamError: Error in path (parsing) -> scansar_burst_data_information -> '
  'blanks\n'
  'stream read less than specified amount, expected 260, found 23'),
 ('truncated',
  484,
  'raised construct.core.StreamError: Error in path (parsing) -> scansar_burst_data_information -> '
  'blanks\n'
  'stream read less than specified amount, expected 260, found 24'),
 ('truncated',
  485,
  'raised construct.core.StreamError: Error in path (parsing) -> scansar_burst_data_information -> '
  'blanks\n'
  'stream read less than specified amount, expected 260, found 25'),
 ('truncated',
  486,
  'raised construct.core.StreamError: Error in path (parsing) -> scansar_burst_data_information -> '
  'blanks\n'
  'stream read less than specified amount, expected 260, found 26'),
 ('truncated',
  487,
  'raised construct.core.StreamError: Error in path (parsing) -> scansar_burst_data_information -> '
  'blanks\n'
  'stream read less than specified amount, expected 260, found 27'),
 ('truncated',
  488,
  'raised construct.core.StreamError: Error in path (parsing) -> scansar_burst_data_information -> '
  'blanks\n'
  'stream read less than specified amount, expected 260, found 28'),
 ('truncated',
  489,
  'raised construct.core.StreamError: Error in path (parsing) -> scansar_burst_data_information -> '
  'blanks\n'
  'stream read less than specified amount, expected 260, found 29'),
 ('truncated',
  490,
  'raised construct.core.StreamError: Error in path (parsing) -> scansar_burst_data_information -> '
  'blanks\n'
  'stream read less than specified amount, expected 260, found 30'),
 ('truncated',
  491,
  'raised construct.core.StreamError: Error in path (parsing) -> scansar_burst_data_information -> '
  'blanks\n'
  'stream read less than specified amount, expected 260, found 31'),
 ('truncated',
  492,
  'raised construct.core.StreamError: Error in path (parsing) -> scansar_burst_data_information -> '
  'blanks\n'
  'stream read less than specified amount, expected 260, found 32'),
 ('truncated',
  493,
  'raised construct.core.StreamError: Error in path (parsing) -> scansar_burst_data_information -> '
  'blanks\n'
  'stream read less than specified amount, expected 260, found 33'),
 ('truncated',
  494,
  'raised construct.core.StreamError: Error in path (parsing) -> scansar_burst_data_information -> '
  'blanks\n'
  'stream read less than specified amount, expected 260, found 34'),
 ('truncated',
  495,
  'raised construct.core.StreamError: Error in path (parsing) -> scansar_burst_data_information -> '
  'blanks\n'
  'stream read less than specified amount, expected 260, found 35'),
 ('truncated',
  496,
  'raised construct.core.StreamError: Error in path (parsing) -> scansar_burst_data_information -> '
  'blanks\n'
  'stream read less than specified amount, expected 260, found 36'),
 ('truncated',
  497,
  'raised construct.core.StreamError: Error in path (parsing) -> scansar_burst_data_information -> '
  'blanks\n'
  'stream read less than specified amount, expected 260, found 37'),
 ('truncated',
  498,
  'raised construct.core.StreamError: Error in path (parsing) -> scansar_burst_data_information -> '
  'blanks\n'
  'stream read less than specified amount, expected 260, found 38'),
 ('truncated',
  499,
  'raised construct.core.StreamError: Error in path (parsing) -> scansar_burst_data_information -> '
  'blanks\n'
  'stream read less than specified amount, expected 260, found 39'),
 ('truncated',
  500,
  'raised construct.core.StreamError: Error in path (parsing) -> scansar_burst_data_information -> '
  'blanks\n'
  'stream read less than specified amount, expected 260, found 40'),
 ('truncated',
  501,
  'raised construct.core.StreamError: Error in path (parsing) -> scansar_burst_data_information -> '
  'blanks\n'
  'stream read less than specified amount, expected 260, found 41'),
 ('truncated',
  502,
  'raised construct.core.StreamError: Error in path (parsing) -> scansar_burst_data_information -> '
  'blanks\n'
  'stream read less than specified amount, expected 260, found 42'),
 ('truncated',
  503,
  'raised construct.core.StreamError: Error in path (parsing) -> scansar_burst_data_information -> '
  'blanks\n'
  'stream read less than specified amount, expected 260, found 43'),
 ('truncated',
  504,
  'raised construct.core.StreamError: Error in path (parsing) -> scansar_burst_data_information -> '
  'blanks\n'
  'stream read less than specified amount, expected 260, found 44'),
 ('truncated',
  505,
  'raised construct.core.StreamError: Error in path (parsing) -> scansar_burst_data_information -> '
  'blanks\n'
  'stream read less than specified amount, expected 260, found 45'),
 ('truncated',
  506,
  'raised construct.core.StreamError: Error in path (parsing) -> scansar_burst_data_information -> '
  'blanks\n'
  'stream read less than specified amount, expected 260, found 46'),
 ('truncated',
  507,
  'raised construct.core.StreamError: Error in path (parsing) -> scansar_burst_data_information -> '
  'blanks\n'
  'stream read less than specified amount, expected 260, found 47'),
 ('truncated',
  508,
  'raised construct.core.StreamError: Error in path (parsing) -> scansar_burst_data_information -> '
  'blanks\n'
  'stream read less than specified amount, expected 260, found 48'),
 ('truncated',
  509,
  'raised construct.core.StreamError: Error in path (parsing) -> scansar_burst_data_information -> '
  'blanks\n'
  'stream read less than specified amount, expected 260, found 49'),
 ('truncated',
  510,
  'raised construct.core.StreamError: Error in path (parsing) -> scansar_burst_data_information -> '
  'blanks\n'
  'stream read less than specified amount, expected 260, found 50'),
 ('truncated',
  511,
  'raised construct.core.StreamError: Error in path (parsing) -> scansar_burst_data_information -> '
  'blanks\n'
  'stream read less than specified amount, expected 260, found 51'),
 ('truncated',
  512,
  'raised construct.core.StreamError: Error in path (parsing) -> scansar_burst_data_information -> '
  'blanks\n'
  'stream read less than specified amount, expected 260, found 52'),
 ('truncated',
  513,
  'raised construct.core.StreamError: Error in path (parsing) -> scansar_burst_data_information -> '
  'blanks\n'
  'stream read less than specified amount, expected 260, found 53'),
 ('truncated',
  514,
  'raised construct.core.StreamError: Error in path (parsing) -> scansar_burst_data_information -> '
  'blanks\n'
  'stream read less than specified amount, expected 260, found 54'),
 ('truncated',
  515,
  'raised construct.core.StreamError: Error in path (parsing) -> scansar_burst_data_information -> '
  'blanks\n'
  'stream read less than specified amount, expected 260, found 55'),
 ('truncated',
  516,
  'raised construct.core.StreamError: Error in path (parsing) -> scansar_burst_data_information -> '
  'blanks\n'
  'stream read less than specified amount, expected 260, found 56'),
 ('truncated',
  517,
  'raised construct.core.StreamError: Error in path (parsing) -> scansar_burst_data_information -> '
  'blanks\n'
  'stream read less than specified amount, expected 260, found 57'),
 ('truncated',
  518,
  'raised construct.core.StreamError: Error in path (parsing) -> scansar_burst_data_information -> '
  'blanks\n'
  'stream read less than specified amount, expected 260, found 58'),
 ('truncated',
  519,
  'raised construct.core.StreamError: Error in path (parsing) -> scansar_burst_data_information -> '
  'blanks\n'
  'stream read less than specified amount, expected 260, found 59'),
 ('truncated',
  520,
  'raised construct.core.StreamError: Error in path (parsing) -> scansar_burst_data_information -> '
  'blanks\n'
  'stream read less than specified amount, expected 260, found 60'),
 ('truncated',
  521,
  'raised construct.core.StreamError: Error in path (parsing) -> scansar_burst_data_information -> '
  'blanks\n'
  'stream read less than specified amount, expected 260, found 61'),
 ('truncated',
  522,
  'raised construct.core.StreamError: Error in path (parsing) -> scansar_burst_data_information -> '
  'blanks\n'
  'stream read less than specified amount, expected 260, found 62'),
 ('truncated',
  523,
  'raised construct.core.StreamError: Error in path (parsing) -> scansar_burst_data_information -> '
  'blanks\n'
  'stream read less than specified amount, expected 260, found 63'),
 ('truncated',
  524,
  'raised construct.core.StreamError: Error in path (parsing) -> scansar_burst_data_information -> '
  'blanks\n'
  'stream read less than specified amount, expected 260, found 64'),
 ('truncated',
  525,
  'raised construct.core.StreamError: Error in path (parsing) -> scansar_burst_data_information -> '
  'blanks\n'
  'stream read less than specified amount, expected 260, found 65'),
 ('truncated',
  526,
  'raised construct.core.StreamError: Error in path (parsing) -> scansar_burst_data_information -> '
  'blanks\n'
  'stream read less than specified amount, expected 260, found 66'),
 ('truncated',
  527,
  'raised construct.core.StreamError: Error in path (parsing) -> scansar_burst_data_information -> '
  'blanks\n'
  'stream read less than specified amount, expected 260, found 67'),
 ('truncated',
  528,
  'raised construct.core.StreamError: Error in path (parsing) -> scansar_burst_data_information -> '
  'blanks\n'
  'stream read less than specified amount, expected 260, found 68'),
 ('truncated',
  529,
  'raised construct.core.StreamError: Error in path (parsing) -> scansar_burst_data_information -> '
  'blanks\n'
  'stream read less than specified amount, expected 260, found 69'),
 ('truncated',
  530,
  'raised construct.core.StreamError: Error in path (parsing) -> scansar_burst_data_information -> '
  'blanks\n'
  'stream read less than specified amount, expected 260, found 70'),
 ('truncated',
  531,
  'raised construct.core.StreamError: Error in path (parsing) -> scansar_burst_data_information -> '
  'blanks\n'
  'stream read less than specified amount, expected 260, found 71'),
 ('truncated',
  532,
  'raised construct.core.StreamError: Error in path (parsing) -> scansar_burst_data_information -> '
  'blanks\n'
  'stream read less than specified amount, expected 260, found 72'),
 ('truncated',
  533,
  'raised construct.core.StreamError: Error in path (parsing) -> scansar_burst_data_information -> '
  'blanks\n'
  'stream read less than specified amount, expected 260, found 73'),
 ('truncated',
  534,
  'raised construct.core.StreamError: Error in path (parsing) -> scansar_burst_data_information -> '
  'blanks\n'
  'stream read less than specified amount, expected 260, found 74'),
 ('truncated',
  535,
  'raised construct.core.StreamError: Error in path (parsing) -> scansar_burst_data_information -> '
  'blanks\n'
  'stream read less than specified amount, expected 260, found 75'),
 ('truncated',
  536,
  'raised construct.core.StreamError: Error in path (parsing) -> scansar_burst_data_information -> '
  'blanks\n'
  'stream read less than specified amount, expected 260, found 76'),
 ('truncated',
  537,
  'raised construct.core.StreamError: Error in path (parsing) -> scansar_burst_data_information -> '
  'blanks\n'
  'stream read less than specified amount, expected 260, found 77'),
 ('truncated',
  538,
  'raised construct.core.StreamError: Error in path (parsing) -> scansar_burst_data_information -> '
  'blanks\n'
  'stream read less than specified amount, expected 260, found 78'),
 ('truncated',
  539,
  'raised construct.core.StreamError: Error in path (parsing) -> scansar_burst_data_information -> '
  'blanks\n'
  'stream read less than specified amount, expected 260, found 79'),
 ('truncated',
  540,
  'raised construct.core.StreamError: Error in path (parsing) -> scansar_burst_data_information -> '
  'blanks\n'
  'stream read less than specified amount, expected 260, found 80'),
 ('truncated',
  541,
  'raised construct.core.StreamError: Error in path (parsing) -> scansar_burst_data_information -> '
  'blanks\n'
  'stream read less than specified amount, expected 260, found 81'),
 ('truncated',
  542,
  'raised construct.core.StreamError: Error in path (parsing) -> scansar_burst_data_information -> '
  'blanks\n'
  'stream read less than specified amount, expected 260, found 82'),
 ('truncated',
  543,
  'raised construct.core.StreamError: Error in path (parsing) -> scansar_burst_data_information -> '
  'blanks\n'
  'stream read less than specified amount, expected 260, found 83'),
 ('truncated',
  544,
  'raised construct.core.StreamError: Error in path (parsing) -> scansar_burst_data_information -> '
  'blanks\n'
  'stream read less than specified amount, expected 260, found 84'),
 ('truncated',
  545,
  'raised construct.core.StreamError: Error in path (parsing) -> scansar_burst_data_information -> '
  'blanks\n'
  'stream read less than specified amount, expected 260, found 85'),
 ('truncated',
  546,
  'raised construct.core.StreamError: Error in path (parsing) -> scansar_burst_data_information -> '
  'blanks\n'
  'stream read less than specified amount, expected 260, found 86'),
 ('truncated',
  547,
  'raised construct.core.StreamError: Error in path (parsing) -> scansar_burst_data_information -> '
  'blanks\n'
  'stream read less than specified amount, expected 260, found 87'),
 ('truncated',
  548,
  'raised construct.core.StreamError: Error in path (parsing) -> scansar_burst_data_information -> '
  'blanks\n'
  'stream read less than specified amount, expected 260, found 88'),
 ('truncated',
  549,
  'raised construct.core.StreamError: Error in path (parsing) -> scansar_burst_data_information -> '
  'blanks\n'
  'stream read less than specified amount, expected 260, found 89'),
 ('truncated',
  550,
  'raised construct.core.StreamError: Error in path (parsing) -> scansar_burst_data_information -> '
  'blanks\n'
  'stream read less than specified amount, expected 260, found 90'),
 ('truncated',
  551,
  'raised construct.core.StreamError: Error in path (parsing) -> scansar_burst_data_information -> '
  'blanks\n'
  'stream read less than specified amount, expected 260, found 91'),
 ('truncated',
  552,
  'raised construct.core.StreamError: Error in path (parsing) -> scansar_burst_data_information -> '
  'blanks\n'
  'stream read less than specified amount, expected 260, found 92'),
 ('truncated',
  553,
  'raised construct.core.StreamError: Error in path (parsing) -> scansar_burst_data_information -> '
  'blanks\n'
  'stream read less than specified amount, expected 260, found 93'),
 ('truncated',
  554,
  'raised construct.core.StreamError: Error in path (parsing) -> scansar_burst_data_information -> '
  'blanks\n'
  'stream read less than specified amount, expected 260, found 94'),
 ('truncated',
  555,
  'raised construct.core.StreamError: Error in path (parsing) -> scansar_burst_data_information -> '
  'blanks\n'
  'stream read less than specified amount, expected 260, found 95'),
 ('truncated',
  556,
  'raised construct.core.StreamError: Error in path (parsing) -> scansar_burst_data_information -> '
  'blanks\n'
  'stream read less than specified amount, expected 260, found 96'),
 ('truncated',
  557,
  'raised construct.core.StreamError: Error in path (parsing) -> scansar_burst_data_information -> '
  'blanks\n'
  'stream read less than specified amount, expected 260, found 97'),
 ('truncated',
  558,
  'raised construct.core.StreamError: Error in path (parsing) -> scansar_burst_data_information -> '
  'blanks\n'
  'stream read less than specified amount, expected 260, found 98'),
 ('truncated',
  559,
  'raised construct.core.StreamError: Error in path (parsing) -> scansar_burst_data_information -> '
  'blanks\n'
  'stream read less than specified amount, expected 260, found 99'),
 ('truncated',
  560,
  'raised construct.core.StreamError: Error in path (parsing) -> scansar_burst_data_information -> '
  'blanks\n'
  'stream read less than specified amount, expected 260, found 100'),
 ('truncated',
  561,
  'raised construct.core.StreamError: Error in path (parsing) -> scansar_burst_data_information -> '
  'blanks\n'
  'stream read less than specified amount, expected 260, found 101'),
 ('truncated',
  562,
  'raised construct.core.StreamError: Error in path (parsing) -> scansar_burst_data_information -> '
  'blanks\n'
  'stream read less than specified amount, expected 260, found 102'),
 ('truncated',
  563,
  'raised construct.core.StreamError: Error in path (parsing) -> scansar_burst_data_information -> '
  'blanks\n'
  'stream read less than specified amount, expected 260, found 103'),
 ('truncated',
  564,
  'raised construct.core.StreamError: Error in path (parsing) -> scansar_burst_data_information -> '
  'blanks\n'
  'stream read less than specified amount, expected 260, found 104'),
 ('truncated',
  565,
  'raised construct.core.StreamError: Error in path (parsing) -> scansar_burst_data_information -> '
  'blanks\n'
  'stream read less than specified amount, expected 260, found 105'),
 ('truncated',
  566,
  'raised construct.core.StreamError: Error in path (parsing) -> scansar_burst_data_information -> '
  'blanks\n'
  'stream read less than specified amount, expected 260, found 106'),
 ('truncated',
  567,
  'raised construct.core.StreamError: Error in path (parsing) -> scansar_burst_data_information -> '
  'blanks\n'
  'stream read less than specified amount, expected 260, found 107'),
 ('truncated',
  568,
  'raised construct.core.StreamError: Error in path (parsing) -> scansar_burst_data_information -> '
  'blanks\n'
  'stream read less than specified amount, expected 260, found 108'),
 ('truncated',
  569,
  'raised construct.core.StreamError: Error in path (parsing) -> scansar_burst_data_information -> '
  'blanks\n'
  'stream read less than specified amount, expected 260, found 109'),
 ('truncated',
  570,
  'raised construct.core.StreamError: Error in path (parsing) -> scansar_burst_data_information -> '
  'blanks\n'
  'stream read less than specified amount, expected 260, found 110'),
 ('truncated',
  571,
  'raised construct.core.StreamError: Error in path (parsing) -> scansar_burst_data_information -> '
  'blanks\n'
  'stream read less than specified amount, expected 260, found 111'),
 ('truncated',
  572,
  'raised construct.core.StreamError: Error in path (parsing) -> scansar_burst_data_information -> '
  'blanks\n'
  'stream read less than specified amount, expected 260, found 112'),
 ('truncated',
  573,
  'raised construct.core.StreamError: Error in path (parsing) -> scansar_burst_data_information -> '
  'blanks\n'
  'stream read less than specified amount, expected 260, found 113'),
 ('truncated',
  574,
  'raised construct.core.StreamError: Error in path (parsing) -> scansar_burst_data_information -> '
  'blanks\n'
  'stream read less than specified amount, expected 260, found 114'),
 ('truncated',
  575,
  'raised construct.core.StreamError: Error in path (parsing) -> scansar_burst_data_information -> '
  'blanks\n'
  'stream read less than specified amount, expected 260, found 115'),
 ('truncated',
  576,
  'raised construct.core.StreamError: Error in path (parsing) -> scansar_burst_data_information -> '
  'blanks\n'
  'stream read less than specified amount, expected 260, found 116'),
 ('truncated',
  577,
  'raised construct.core.StreamError: Error in path (parsing) -> scansar_burst_data_information -> '
  'blanks\n'
  'stream read less than specified amount, expected 260, found 117'),
 ('truncated',
  578,
  'raised construct.core.StreamError: Error in path (parsing) -> scansar_burst_data_information -> '
  'blanks\n'
  'stream read less than specified amount, expected 260, found 118'),
 ('truncated',
  579,
  'raised construct.core.StreamError: Error in path (parsing) -> scansar_burst_data_information -> '
  'blanks\n'
  'stream read less than specified amount, expected 260, found 119'),
 ('truncated',
  580,
  'raised construct.core.StreamError: Error in path (parsing) -> scansar_burst_data_information -> '
  'blanks\n'
  'stream read less than specified amount, expected 260, found 120'),
 ('truncated',
  581,
  'raised construct.core.StreamError: Error in path (parsing) -> scansar_burst_data_information -> '
  'blanks\n'
  'stream read less than specified amount, expected 260, found 121'),
 ('truncated',
  582,
  'raised construct.core.StreamError: Error in path (parsing) -> scansar_burst_data_information -> '
  'blanks\n'
  'stream read less than specified amount, expected 260, found 122'),
 ('truncated',
  583,
  'raised construct.core.StreamError: Error in path (parsing) -> scansar_burst_data_information -> '
  'blanks\n'
  'stream read less than specified amount, expected 260, found 123'),
 ('truncated',
  584,
  'raised construct.core.StreamError: Error in path (parsing) -> scansar_burst_data_information -> '
  'blanks\n'
  'stream read less than specified amount, expected 260, found 124'),
 ('truncated',
  585,
  'raised construct.core.StreamError: Error in path (parsing) -> scansar_burst_data_information -> '
  'blanks\n'
  'stream read less than specified amount, expected 260, found 125'),
 ('truncated',
  586,
  'raised construct.core.StreamError: Error in path (parsing) -> scansar_burst_data_information -> '
  'blanks\n'
  'stream read less than specified amount, expected 260, found 126'),
 ('truncated',
  587,
  'raised construct.core.StreamError: Error in path (parsing) -> scansar_burst_data_information -> '
  'blanks\n'
  'stream read less than specified amount, expected 260, found 127'),
 ('truncated',
  588,
  'raised construct.core.StreamError: Error in path (parsing) -> scansar_burst_data_information -> '
  'blanks\n'
  'stream read less than specified amount, expected 260, found 128'),
 ('truncated',
  589,
  'raised construct.core.StreamError: Error in path (parsing) -> scansar_burst_data_information -> '
  'blanks\n'
  'stream read less than specified amount, expected 260, found 129'),
 ('truncated',
  590,
  'raised construct.core.StreamError: Error in path (parsing) -> scansar_burst_data_information -> '
  'blanks\n'
  'stream read less than specified amount, expected 260, found 130'),
 ('truncated',
  591,
  'raised construct.core.StreamError: Error in path (parsing) -> scansar_burst_data_information -> '
  'blanks\n'
  'stream read less than specified amount, expected 260, found 131'),
 ('truncated',
  592,
  'raised construct.core.StreamError: Error in path (parsing) -> scansar_burst_data_information -> '
  'blanks\n'
  'stream read less than specified amount, expected 260, found 132'),
 ('truncated',
  593,
  'raised construct.core.StreamError: Error in path (parsing) -> scansar_burst_data_information -> '
  'blanks\n'
  'stream read less than specified amount, expected 260, found 133'),
 ('truncated',
  594,
  'raised construct.core.StreamError: Error in path (parsing) -> scansar_burst_data_information -> '
  'blanks\n'
  'stream read less than specified amount, expected 260, found 134'),
 ('truncated',
  595,
  'raised construct.core.StreamError: Error in path (parsing) -> scansar_burst_data_information -> '
  'blanks\n'
  'stream read less than specified amount, expected 260, found 135'),
 ('truncated',
  596,
  'raised construct.core.StreamError: Error in path (parsing) -> scansar_burst_data_information -> '
  'blanks\n'
  'stream read less than specified amount, expected 260, found 136'),
 ('truncated',
  597,
  'raised construct.core.StreamError: Error in path (parsing) -> scansar_burst_data_information -> '
  'blanks\n'
  'stream read less than specified amount, expected 260, found 137'),
 ('truncated',
  598,
  'raised construct.core.StreamError: Error in path (parsing) -> scansar_burst_data_information -> '
  'blanks\n'
  'stream read less than specified amount, expected 260, found 138'),
 ('truncated',
  599,
  'raised construct.core.StreamError: Error in path (parsing) -> scansar_burst_data_information -> '
  'blanks\n'
  'stream read less than specified amount, expected 260, found 139'),
 ('truncated',
  600,
  'raised construct.core.StreamError: Error in path (parsing) -> scansar_burst_data_information -> '
  'blanks\n'
  'stream read less than specified amount, expected 260, found 140'),
 ('truncated',
  601,
  'raised construct.core.StreamError: Error in path (parsing) -> scansar_burst_data_information -> '
  'blanks\n'
  'stream read less than specified amount, expected 260, found 141'),
 ('truncated',
  602,
  'raised construct.core.StreamError: Error in path (parsing) -> scansar_burst_data_information -> '
  'blanks\n'
  'stream read less than specified amount, expected 260, found 142'),
 ('truncated',
  603,
  'raised construct.core.StreamError: Error in path (parsing) -> scansar_burst_data_information -> '
  'blanks\n'
  'stream read less than specified amount, expected 260, found 143'),
 ('truncated',
  604,
  'raised construct.core.StreamError: Error in path (parsing) -> scansar_burst_data_information -> '
  'blanks\n'
  'stream read less than specified amount, expected 260, found 144'),
 ('truncated',
  605,
  'raised construct.core.StreamError: Error in path (parsing) -> scansar_burst_data_information -> '
  'blanks\n'
  'stream read less than specified amount, expected 260, found 145'),
 ('truncated',
  606,
  'raised construct.core.StreamError: Error in path (parsing) -> scansar_burst_data_information -> '
  'blanks\n'
  'stream read less than specified amount, expected 260, found 146'),
 ('truncated',
  607,
  'raised construct.core.StreamError: Error in path (parsing) -> scansar_burst_data_information -> '
  'blanks\n'
  'stream read less than specified amount, expected 260, found 147'),
 ('truncated',
  608,
  'raised construct.core.StreamError: Error in path (parsing) -> scansar_burst_data_information -> '
  'blanks\n'
  'stream read less than specified amount, expected 260, found 148'),
 ('truncated',
  609,
  'raised construct.core.StreamError: Error in path (parsing) -> scansar_burst_data_information -> '
  'blanks\n'
  'stream read less than specified amount, expected 260, found 149'),
 ('truncated',
  610,
  'raised construct.core.StreamError: Error in path (parsing) -> scansar_burst_data_information -> '
  'blanks\n'
  'stream read less than specified amount, expected 260, found 150'),
 ('truncated',
  611,
  'raised construct.core.StreamError: Error in path (parsing) -> scansar_burst_data_information -> '
  'blanks\n'
  'stream read less than specified amount, expected 260, found 151'),
 ('truncated',
  612,
  'raised construct.core.StreamError: Error in path (parsing) -> scansar_burst_data_information -> '
  'blanks\n'
  'stream read less than specified amount, expected 260, found 152'),
 ('truncated',
  613,
  'raised construct.core.StreamError: Error in path (parsing) -> scansar_burst_data_information -> '
  'blanks\n'
  'stream read less than specified amount, expected 260, found 153'),
 ('truncated',
  614,
  'raised construct.core.StreamError: Error in path (parsing) -> scansar_burst_data_information -> '
  'blanks\n'
  'stream read less than specified amount, expected 260, found 154'),
 ('truncated',
  615,
  'raised construct.core.StreamError: Error in path (parsing) -> scansar_burst_data_information -> '
  'blanks\n'
  'stream read less than specified amount, expected 260, found 155'),
 ('truncated',
  616,
  'raised construct.core.StreamError: Error in path (parsing) -> scansar_burst_data_information -> '
  'blanks\n'
  'stream read less than specified amount, expected 260, found 156'),
 ('truncated',
  617,
  'raised construct.core.StreamError: Error in path (parsing) -> scansar_burst_data_information -> '
  'blanks\n'
  'stream read less than specified amount, expected 260, found 157'),
 ('truncated',
  618,
  'raised construct.core.StreamError: Error in path (parsing) -> scansar_burst_data_information -> '
  'blanks\n'
  'stream read less than specified amount, expected 260, found 158'),
 ('truncated',
  619,
  'raised construct.core.StreamError: Error in path (parsing) -> scansar_burst_data_information -> '
  'blanks\n'
  'stream read less than specified amount, expected 260, found 159'),
 ('truncated',
  620,
  'raised construct.core.StreamError: Error in path (parsing) -> scansar_burst_data_information -> '
  'blanks\n'
  'stream read less than specified amount, expected 260, found 160'),
 ('truncated',
  621,
  'raised construct.core.StreamError: Error in path (parsing) -> scansar_burst_data_information -> '
  'blanks\n'
  'stream read less than specified amount, expected 260, found 161'),
 ('truncated',
  622,
  'raised construct.core.StreamError: Error in path (parsing) -> scansar_burst_data_information -> '
  'blanks\n'
  'stream read less than specified amount, expected 260, found 162'),
 ('truncated',
  623,
  'raised construct.core.StreamError: Error in path (parsing) -> scansar_burst_data_information -> '
  'blanks\n'
  'stream read less than specified amount, expected 260, found 163'),
 ('truncated',
  624,
  'raised construct.core.StreamError: Error in path (parsing) -> scansar_burst_data_information -> '
  'blanks\n'
  'stream read less than specified amount, expected 260, found 164'),
 ('truncated',
  625,
  'raised construct.core.StreamError: Error in path (parsing) -> scansar_burst_data_information -> '
  'blanks\n'
  'stream read less than specified amount, expected 260, found 165'),
 ('truncated',
  626,
  'raised construct.core.StreamError: Error in path (parsing) -> scansar_burst_data_information -> '
  'blanks\n'
  'stream read less than specified amount, expected 260, found 166'),
 ('truncated',
  627,
  'raised construct.core.StreamError: Error in path (parsing) -> scansar_burst_data_information -> '
  'blanks\n'
  'stream read less than specified amount, expected 260, found 167'),
 ('truncated',
  628,
  'raised construct.core.StreamError: Error in path (parsing) -> scansar_burst_data_information -> '
  'blanks\n'
  'stream read less than specified amount, expected 260, found 168'),
 ('truncated',
  629,
  'raised construct.core.StreamError: Error in path (parsing) -> scansar_burst_data_information -> '
  'blanks\n'
  'stream read less than specified amount, expected 260, found 169'),
 ('truncated',
  630,
  'raised construct.core.StreamError: Error in path (parsing) -> scansar_burst_data_information -> '
  'blanks\n'
  'stream read less than specified amount, expected 260, found 170'),
 ('truncated',
  631,
  'raised construct.core.StreamError: Error in path (parsing) -> scansar_burst_data_information -> '
  'blanks\n'
  'stream read less than specified amount, expected 260, found 171'),
 ('truncated',
  632,
  'raised construct.core.StreamError: Error in path (parsing) -> scansar_burst_data_information -> '
  'blanks\n'
  'stream read less than specified amount, expected 260, found 172'),
 ('truncated',
  633,
  'raised construct.core.StreamError: Error in path (parsing) -> scansar_burst_data_information -> '
  'blanks\n'
  'stream read less than specified amount, expected 260, found 173'),
 ('truncated',
  634,
  'raised construct.core.StreamError: Error in path (parsing) -> scansar_burst_data_information -> '
  'blanks\n'
  'stream read less than specified amount, expected 260, found 174'),
 ('truncated',
  635,
  'raised construct.core.StreamError: Error in path (parsing) -> scansar_burst_data_information -> '
  'blanks\n'
  'stream read less than specified amount, expected 260, found 175'),
 ('truncated',
  636,
  'raised construct.core.StreamError: Error in path (parsing) -> scansar_burst_data_information -> '
  'blanks\n'
  'stream read less than specified amount, expected 260, found 176'),
 ('truncated',
  637,
  'raised construct.core.StreamError: Error in path (parsing) -> scansar_burst_data_information -> '
  'blanks\n'
  'stream read less than specified amount, expected 260, found 177'),
 ('truncated',
  638,
  'raised construct.core.StreamError: Error in path (parsing) -> scansar_burst_data_information -> '
  'blanks\n'
  'stream read less than specified amount, expected 260, found 178'),
 ('truncated',
  639,
  'raised construct.core.StreamError: Error in path (parsing) -> scansar_burst_data_information -> '
  'blanks\n'
  'stream read less than specified amount, expected 260, found 179'),
 ('truncated',
  640,
  'raised construct.core.StreamError: Error in path (parsing) -> scansar_burst_data_information -> '
  'blanks\n'
  'stream read less than specified amount, expected 260, found 180'),
 ('truncated',
  641,
  'raised construct.core.StreamError: Error in path (parsing) -> scansar_burst_data_information -> '
  'blanks\n'
  'stream read less than specified amount, expected 260, found 181'),
 ('truncated',
  642,
  'raised construct.core.StreamError: Error in path (parsing) -> scansar_burst_data_information -> '
  'blanks\n'
  'stream read less than specified amount, expected 260, found 182'),
 ('truncated',
  643,
  'raised construct.core.StreamError: Error in path (parsing) -> scansar_burst_data_information -> '
  'blanks\n'
  'stream read less than specified amount, expected 260, found 183'),
 ('truncated',
  644,
  'raised construct.core.StreamError: Error in path (parsing) -> scansar_burst_data_information -> '
  'blanks\n'
  'stream read less than specified amount, expected 260, found 184'),
 ('truncated',
  645,
  'raised construct.core.StreamError: Error in path (parsing) -> scansar_burst_data_information -> '
  'blanks\n'
  'stream read less than specified amount, expected 260, found 185'),
 ('truncated',
  646,
  'raised construct.core.StreamError: Error in path (parsing) -> scansar_burst_data_information -> '
  'blanks\n'
  'stream read less than specified amount, expected 260, found 186'),
 ('truncated',
  647,
  'raised construct.core.StreamError: Error in path (parsing) -> scansar_burst_data_information -> '
  'blanks\n'
  'stream read less than specified amount, expected 260, found 187'),
 ('truncated',
  648,
  'raised construct.core.StreamError: Error in path (parsing) -> scansar_burst_data_information -> '
  'blanks\n'
  'stream read less than specified amount, expected 260, found 188'),
 ('truncated',
  649,
  'raised construct.core.StreamError: Error in path (parsing) -> scansar_burst_data_information -> '
  'blanks\n'
  'stream read less than specified amount, expected 260, found 189'),
 ('truncated',
  650,
  'raised construct.core.StreamError: Error in path (parsing) -> scansar_burst_data_information -> '
  'blanks\n'
  'stream read less than specified amount, expected 260, found 190'),
 ('truncated',
  651,
  'raised construct.core.StreamError: Error in path (parsing) -> scansar_burst_data_information -> '
  'blanks\n'
  'stream read less than specified amount, expected 260, found 191'),
 ('truncated',
  652,
  'raised construct.core.StreamError: Error in path (parsing) -> scansar_burst_data_information -> '
  'blanks\n'
  'stream read less than specified amount, expected 260, found 192'),
 ('truncated',
  653,
  'raised construct.core.StreamError: Error in path (parsing) -> scansar_burst_data_information -> '
  'blanks\n'
  'stream read less than specified amount, expected 260, found 193'),
 ('truncated',
  654,
  'raised construct.core.StreamError: Error in path (parsing) -> scansar_burst_data_information -> '
  'blanks\n'
  'stream read less than specified amount, expected 260, found 194'),
 ('truncated',
  655,
  'raised construct.core.StreamError: Error in path (parsing) -> scansar_burst_data_information -> '
  'blanks\n'
  'stream read less than specified amount, expected 260, found 195'),
 ('truncated',
  656,
  'raised construct.core.StreamError: Error in path (parsing) -> scansar_burst_data_information -> '
  'blanks\n'
  'stream read less than specified amount, expected 260, found 196'),
 ('truncated',
  657,
  'raised construct.core.StreamError: Error in path (parsing) -> scansar_burst_data_information -> '
  'blanks\n'
  'stream read less than specified amount, expected 260, found 197'),
 ('truncated',
  658,
  'raised construct.core.StreamError: Error in path (parsing) -> scansar_burst_data_information -> '
  'blanks\n'
  'stream read less than specified amount, expected 260, found 198'),
 ('truncated',
  659,
  'raised construct.core.StreamError: Error in path (parsing) -> scansar_burst_data_information -> '
  'blanks\n'
  'stream read less than specified amount, expected 260, found 199'),
 ('truncated',
  660,
  'raised construct.core.StreamError: Error in path (parsing) -> scansar_burst_data_information -> '
  'blanks\n'
  'stream read less than specified amount, expected 260, found 200'),
 ('truncated',
  661,
  'raised construct.core.StreamError: Error in path (parsing) -> scansar_burst_data_information -> '
  'blanks\n'
  'stream read less than specified amount, expected 260, found 201'),
 ('truncated',
  662,
  'raised construct.core.StreamError: Error in path (parsing) -> scansar_burst_data_information -> '
  'blanks\n'
  'stream read less than specified amount, expected 260, found 202'),
 ('truncated',
  663,
  'raised construct.core.StreamError: Error in path (parsing) -> scansar_burst_data_information -> '
  'blanks\n'
  'stream read less than specified amount, expected 260, found 203'),
 ('truncated',
  664,
  'raised construct.core.StreamError: Error in path (parsing) -> scansar_burst_data_information -> '
  'blanks\n'
  'stream read less than specified amount, expected 260, found 204'),
 ('truncated',
  665,
  'raised construct.core.StreamError: Error in path (parsing) -> scansar_burst_data_information -> '
  'blanks\n'
  'stream read less than specified amount, expected 260, found 205'),
 ('truncated',
  666,
  'raised construct.core.StreamError: Error in path (parsing) -> scansar_burst_data_information -> '
  'blanks\n'
  'stream read less than specified amount, expected 260, found 206'),
 ('truncated',
  667,
  'raised construct.core.StreamError: Error in path (parsing) -> scansar_burst_data_information -> '
  'blanks\n'
  'stream read less than specified amount, expected 260, found 207'),
 ('truncated',
  668,
  'raised construct.core.StreamError: Error in path (parsing) -> scansar_burst_data_information -> '
  'blanks\n'
  'stream read less than specified amount, expected 260, found 208'),
 ('truncated',
  669,
  'raised construct.core.StreamError: Error in path (parsing) -> scansar_burst_data_information -> '
  'blanks\n'
  'stream read less than specified amount, expected 260, found 209'),
 ('truncated',
  670,
  'raised construct.core.StreamError: Error in path (parsing) -> scansar_burst_data_information -> '
  'blanks\n'
  'stream read less than specified amount, expected 260, found 210'),
 ('truncated',
  671,
  'raised construct.core.StreamError: Error in path (parsing) -> scansar_burst_data_information -> '
  'blanks\n'
  'stream read less than specified amount, expected 260, found 211'),
 ('truncated',
  672,
  'raised construct.core.StreamError: Error in path (parsing) -> scansar_burst_data_information -> '
  'blanks\n'
  'stream read less than specified amount, expected 260, found 212'),
 ('truncated',
  673,
  'raised construct.core.StreamError: Error in path (parsing) -> scansar_burst_data_information -> '
  'blanks\n'
  'stream read less than specified amount, expected 260, found 213'),
 ('truncated',
  674,
  'raised construct.core.StreamError: Error in path (parsing) -> scansar_burst_data_information -> '
  'blanks\n'
  'stream read less than specified amount, expected 260, found 214'),
 ('truncated',
  675,
  'raised construct.core.StreamError: Error in path (parsing) -> scansar_burst_data_information -> '
  'blanks\n'
  'stream read less than specified amount, expected 260, found 215'),
 ('truncated',
  676,
  'raised construct.core.StreamError: Error in path (parsing) -> scansar_burst_data_information -> '
  'blanks\n'
  'stream read less than specified amount, expected 260, found 216'),
 ('truncated',
  677,
  'raised construct.core.StreamError: Error in path (parsing) -> scansar_burst_data_information -> '
  'blanks\n'
  'stream read less than specified amount, expected 260, found 217'),
 ('truncated',
  678,
  'raised construct.core.StreamError: Error in path (parsing) -> scansar_burst_data_information -> '
  'blanks\n'
  'stream read less than specified amount, expected 260, found 218'),
 ('truncated',
  679,
  'raised construct.core.StreamError: Error in path (parsing) -> scansar_burst_data_information -> '
  'blanks\n'
  'stream read less than specified amount, expected 260, found 219'),
 ('truncated',
  680,
  'raised construct.core.StreamError: Error in path (parsing) -> scansar_burst_data_information -> '
  'blanks\n'
  'stream read less than specified amount, expected 260, found 220'),
 ('truncated',
  681,
  'raised construct.core.StreamError: Error in path (parsing) -> scansar_burst_data_information -> '
  'blanks\n'
  'stream read less than specified amount, expected 260, found 221'),
 ('truncated',
  682,
  'raised construct.core.StreamError: Error in path (parsing) -> scansar_burst_data_information -> '
  'blanks\n'
  'stream read less than specified amount, expected 260, found 222'),
 ('truncated',
  683,
  'raised construct.core.StreamError: Error in path (parsing) -> scansar_burst_data_information -> '
  'blanks\n'
  'stream read less than specified amount, expected 260, found 223'),
 ('truncated',
  684,
  'raised construct.core.StreamError: Error in path (parsing) -> scansar_burst_data_information -> '
  'blanks\n'
  'stream read less than specified amount, expected 260, found 224'),
 ('truncated',
  685,
  'raised construct.core.StreamError: Error in path (parsing) -> scansar_burst_data_information -> '
  'blanks\n'
  'stream read less than specified amount, expected 260, found 225'),
 ('truncated',
  686,
  'raised construct.core.StreamError: Error in path (parsing) -> scansar_burst_data_information -> '
  'blanks\n'
  'stream read less than specified amount, expected 260, found 226'),
 ('truncated',
  687,
  'raised construct.core.StreamError: Error in path (parsing) -> scansar_burst_data_information -> '
  'blanks\n'
  'stream read less than specified amount, expected 260, found 227'),
 ('truncated',
  688,
  'raised construct.core.StreamError: Error in path (parsing) -> scansar_burst_data_information -> '
  'blanks\n'
  'stream read less than specified amount, expected 260, found 228'),
 ('truncated',
  689,
  'raised construct.core.StreamError: Error in path (parsing) -> scansar_burst_data_information -> '
  'blanks\n'
  'stream read less than specified amount, expected 260, found 229'),
 ('truncated',
  690,
  'raised construct.core.StreamError: Error in path (parsing) -> scansar_burst_data_information -> '
  'blanks\n'
  'stream read less than specified amount, expected 260, found 230'),
 ('truncated',
  691,
  'raised construct.core.StreamError: Error in path (parsing) -> scansar_burst_data_information -> '
  'blanks\n'
  'stream read less than specified amount, expected 260, found 231'),
 ('truncated',
  692,
  'raised construct.core.StreamError: Error in path (parsing) -> scansar_burst_data_information -> '
  'blanks\n'
  'stream read less than specified amount, expected 260, found 232'),
 ('truncated',
  693,
  'raised construct.core.StreamError: Error in path (parsing) -> scansar_burst_data_information -> '
  'blanks\n'
  'stream read less than specified amount, expected 260, found 233'),
 ('truncated',
  694,
  'raised construct.core.StreamError: Error in path (parsing) -> scansar_burst_data_information -> '
  'blanks\n'
  'stream read less than specified amount, expected 260, found 234'),
 ('truncated',
  695,
  'raised construct.core.StreamError: Error in path (parsing) -> scansar_burst_data_information -> '
  'blanks\n'
  'stream read less than specified amount, expected 260, found 235'),
 ('truncated',
  696,
  'raised construct.core.StreamError: Error in path (parsing) -> scansar_burst_data_information -> '
  'blanks\n'
  'stream read less than specified amount, expected 260, found 236'),
 ('truncated',
  697,
  'raised construct.core.StreamError: Error in path (parsing) -> scansar_burst_data_information -> '
  'blanks\n'
  'stream read less than specified amount, expected 260, found 237'),
 ('truncated',
  698,
  'raised construct.core.StreamError: Error in path (parsing) -> scansar_burst_data_information -> '
  'blanks\n'
  'stream read less than specified amount, expected 260, found 238'),
 ('truncated',
  699,
  'raised construct.core.StreamError: Error in path (parsing) -> scansar_burst_data_information -> '
  'blanks\n'
  'stream read less than specified amount, expected 260, found 239'),
 ('truncated',
  700,
  'raised construct.core.StreamError: Error in path (parsing) -> scansar_burst_data_information -> '
  'blanks\n'
  'stream read less than specified amount, expected 260, found 240'),
 ('truncated',
  701,
  'raised construct.core.StreamError: Error in path (parsing) -> scansar_burst_data_information -> '
  'blanks\n'
  'stream read less than specified amount, expected 260, found 241'),
 ('truncated',
  702,
  'raised construct.core.StreamError: Error in path (parsing) -> scansar_burst_data_information -> '
  'blanks\n'
  'stream read less than specified amount, expected 260, found 242'),
 ('truncated',
  703,
  'raised construct.core.StreamError: Error in path (parsing) -> scansar_burst_data_information -> '
  'blanks\n'
  'stream read less than specified amount, expected 260, found 243'),
 ('truncated',
  704,
  'raised construct.core.StreamError: Error in path (parsing) -> scansar_burst_data_information -> '
  'blanks\n'
  'stream read less than specified amount, expected 260, found 244'),
 ('truncated',
  705,
  'raised construct.core.StreamError: Error in path (parsing) -> scansar_burst_data_information -> '
  'blanks\n'
  'stream read less than specified amount, expected 260, found 245'),
 ('truncated',
  706,
  'raised construct.core.StreamError: Error in path (parsing) -> scansar_burst_data_information -> '
  'blanks\n'
  'stream read less than specified amount, expected 260, found 246'),
 ('truncated',
  707,
  'raised construct.core.StreamError: Error in path (parsing) -> scansar_burst_data_information -> '
  'blanks\n'
  'stream read less than specified amount, expected 260, found 247'),
 ('truncated',
  708,
  'raised construct.core.StreamError: Error in path (parsing) -> scansar_burst_data_information -> '
  'blanks\n'
  'stream read less than specified amount, expected 260, found 248'),
 ('truncated',
  709,
  'raised construct.core.StreamError: Error in path (parsing) -> scansar_burst_data_information -> '
  'blanks\n'
  'stream read less than specified amount, expected 260, found 249'),
 ('truncated',
  710,
  'raised construct.core.StreamError: Error in path (parsing) -> scansar_burst_data_information -> '
  'blanks\n'
  'stream read less than specified amount, expected 260, found 250'),
 ('truncated',
  711,
  'raised construct.core.StreamError: Error in path (parsing) -> scansar_burst_data_information -> '
  'blanks\n'
  'stream read less than specified amount, expected 260, found 251'),
 ('truncated',
  712,
  'raised construct.core.StreamError: Error in path (parsing) -> scansar_burst_data_information -> '
  'blanks\n'
  'stream read less than specified amount, expected 260, found 252'),
 ('truncated',
  713,
  'raised construct.core.StreamError: Error in path (parsing) -> scansar_burst_data_information -> '
  'blanks\n'
  'stream read less than specified amount, expected 260, found 253'),
 ('truncated',
  714,
  'raised construct.core.StreamError: Error in path (parsing) -> scansar_burst_data_information -> '
  'blanks\n'
  'stream read less than specified amount, expected 260, found 254'),
 ('truncated',
  715,
  'raised construct.core.StreamError: Error in path (parsing) -> scansar_burst_data_information -> '
  'blanks\n'
  'stream read less than specified amount, expected 260, found 255'),
 ('truncated',
  716,
  'raised construct.core.StreamError: Error in path (parsing) -> scansar_burst_data_information -> '
  'blanks\n'
  'stream read less than specified amount, expected 260, found 256'),
 ('truncated',
  717,
  'raised construct.core.StreamError: Error in path (parsing) -> scansar_burst_data_information -> '
  'blanks\n'
  'stream read less than specified amount, expected 260, found 257'),
 ('truncated',
  718,
  'raised construct.core.StreamError: Error in path (parsing) -> scansar_burst_data_information -> '
  'blanks\n'
  'stream read less than specified amount, expected 260, found 258'),
 ('truncated',
  719,
  'raised construct.core.StreamError: Error in path (parsing) -> scansar_burst_data_information -> '
  'blanks\n'
  'stream read less than specified amount, expected 260, found 259'),
 ('truncated', 720, "str '03942c190b78bdd1849543bdf793b04b03532f74a1f8bfbd1f33aec24d373e11'"),
 ('trailing', "str '03942c190b78bdd1849543bdf793b04b03532f74a1f8bfbd1f33aec24d373e11'"),
 ('corrupt', 12, b'x', "str '365a623f8295599fcff04a70f652abc88f8f11be6d0f858637c7e7c64c843896'"),
 ('corrupt',
  12,
  b'\xff',
  "raised construct.core.StringError: cannot use encoding 'ascii' to decode b'\\xffj'"),
 ('corrupt', 12, b'\x00', "str 'e90be72787bfc341bf74466435247ccfb3efeb7bb89f6dd220fa05459c02e601'"),
 ('corrupt', 19, b'x', "str '9915d095ecb43b61be3be41243e548ee6e565cff8a108dfcbea428f1b68b3515'"),
 ('corrupt',
  19,
  b'\xff',
  "raised construct.core.StringError: cannot use encoding 'ascii' to decode b'  p\\xfflfRO7w9l'"),
 ('corrupt', 19, b'\x00', "str '746e779530ebd20873181e62ed941eee9efeea929731d415c1a22bc14c6b848f'"),
 ('corrupt', 26, b'x', "str '0391608a4889909848f2004a7eebff5cf0a3cf663f501839eb06015ed034bd00'"),
 ('corrupt',
  26,
  b'\xff',
  "raised construct.core.StringError: cannot use encoding 'ascii' to decode b'  pFlfRO7w\\xffl'"),
 ('corrupt', 26, b'\x00', "str '61dc5c1989c466ef41960b91519bc50d698449152baa5c659292a163c6bd3c54'"),
 ('corrupt', 33, b'x', "str '80d56d23e45c5f5a01d5ac74d8b06c27b430834b015213d6846cdcb2bd661485'"),
 ('corrupt',
  33,
  b'\xff',
  "raised construct.core.StringError: cannot use encoding 'ascii' to decode b' \\xff       K5N'"),
 ('corrupt', 33, b'\x00', "str 'febc3569dbe1417f72e12327fc0c058494662c2443bb17a184b0357d1ae9719a'"),
 ('corrupt', 40, b'x', "str '9e02a9e7c5346392863647e0de71c2b5ee7a26e71e828a3b0c88e71d60ec7720'"),
 ('corrupt',
  40,
  b'\xff',
  "raised construct.core.StringError: cannot use encoding 'ascii' to decode b'        \\xffK5N'"),
 ('corrupt', 40, b'\x00', "str 'd967336a048900822a5164266467dc5ae507691a1e794675d454943fd77cb2e9'"),
 ('corrupt', 47, b'x', "raised builtins.ValueError: invalid literal for int() with base 10: '53x'"),
 ('corrupt',
  47,
  b'\xff',
  "raised construct.core.StringError: cannot use encoding 'ascii' to decode b' 53\\xff'"),
 ('corrupt', 47, b'\x00', "str '47ee874ecc287acd73b10b7d205d835f4124b5de77db6b1cafaa5add85c946d8'"),
 ('corrupt', 54, b'x', "str '0af4321272927e33d439d6b0d65ca97aa852d36e585a07eac29b9d38c4249bd8'"),
 ('corrupt',
  54,
  b'\xff',
  "raised construct.core.StringError: cannot use encoding 'ascii' to decode b'      \\xff   "
  "OzTGto'"),
 ('corrupt', 54, b'\x00', "str 'e39825034bd8c03c51944afce85437ba3e1d78a4fbdc7c68e9c0b5bbfbf85c86'"),
 ('corrupt', 61, b'x', "str '370a427521f75d121b55ba65afd84702beb60f8a2ce24f785a872b584219a5ba'"),
 ('corrupt',
  61,
  b'\xff',
  "raised construct.core.StringError: cannot use encoding 'ascii' to decode b'          "
  "OzT\\xffto'"),
 ('corrupt', 61, b'\x00', "str '3cddb3ba56c6a92004f469cbd21a8bd35460665901416fa4e4dba33f787c3994'"),
 ('corrupt',
  68,
  b'x',
  "raised builtins.ValueError: invalid literal for int() with base 10: 'x    399'"),
 ('corrupt',
  68,
  b'\xff',
  "raised construct.core.StringError: cannot use encoding 'ascii' to decode b'\\xff    399'"),
 ('corrupt',
  68,
  b'\x00',
  "raised builtins.ValueError: invalid literal for int() with base 10: '\\x00    399'"),
 ('corrupt', 75, b'x', "raised builtins.ValueError: invalid literal for int() with base 10: '39x'"),
 ('corrupt',
  75,
  b'\xff',
  "raised construct.core.StringError: cannot use encoding 'ascii' to decode b'     39\\xff'"),
 ('corrupt', 75, b'\x00', "str '5a75f302502cc137d621bdae6bfa4e71a6c75b1105164e35e0cccaace78fcc6c'"),
 ('corrupt', 82, b'x', "str 'c6d45f838e5cef3f4b5f0532e44bfdf87dc5c6667840a330a6dfe58592789acd'"),
 ('corrupt',
  82,
  b'\xff',
  "raised construct.core.StringError: cannot use encoding 'ascii' to decode b'  \\xffd'"),
 ('corrupt', 82, b'\x00', "str 'f4a1ef53b6f10ac04ed09d33b000053a9a5cebbf0057600af2c3337a3456255c'"),
 ('corrupt',
  89,
  b'x',
  "raised builtins.ValueError: invalid literal for int() with base 10: '1x66'"),
 ('corrupt',
  89,
  b'\xff',
  "raised construct.core.StringError: cannot use encoding 'ascii' to decode b'    1\\xff66'"),
 ('corrupt',
  89,
  b'\x00',
  "raised builtins.ValueError: invalid literal for int() with base 10: '1\\x0066'"),
 ('corrupt', 96, b'x', "str '00df766e5eddd51124b341c1bc1d6ab0be47fd517a43aad1d103a487b40ef755'"),
 ('corrupt',
  96,
  b'\xff',
  "raised construct.core.StringError: cannot use encoding 'ascii' to decode b'\\xff nC'"),
 ('corrupt', 96, b'\x00', "str '7c6a6796a22f148f4e7e598c7e59c13b228505bc1dac337efa3a0d542bd789f8'"),
 ('corrupt',
  103,
  b'x',
  "raised builtins.ValueError: invalid literal for int() with base 10: 'x9569'"),
 ('corrupt',
  103,
  b'\xff',
  "raised construct.core.StringError: cannot use encoding 'ascii' to decode b'   \\xff9569'"),
 ('corrupt',
  103,
  b'\x00',
  "raised builtins.ValueError: invalid literal for int() with base 10: '\\x009569'"),
 ('corrupt',
  110,
  b'x',
  "raised builtins.ValueError: invalid literal for int() with base 10: '9x4'"),
 ('corrupt',
  110,
  b'\xff',
  "raised construct.core.StringError: cannot use encoding 'ascii' to decode b' 9\\xff4'"),
 ('corrupt',
  110,
  b'\x00',
  "raised builtins.ValueError: invalid literal for int() with base 10: '9\\x004'"),
 ('corrupt', 117, b'x', "str '104d1d033c5abcff1e5990e88806005799f275f8b5c4a0d958e48029a7aa669a'"),
 ('corrupt',
  117,
  b'\xff',
  "raised construct.core.StringError: cannot use encoding 'ascii' to decode b' \\xff      "
  "nhBfksp544sPoTCMqztkzZESWMX017to6J9InVf3-/TSiarivflj.gaB'"),
 ('corrupt',
  117,
  b'\x00',
  "str '4e2ba471959232b62d0147619d083a094859566ec61a71e43e832cc851b689f0'"),
 ('corrupt', 124, b'x', "str '020c4f0bf60bcf137e845b7c043cd2105ee9606de735d5c60fe43d1794c0f0c5'"),
 ('corrupt',
  124,
  b'\xff',
  "raised construct.core.StringError: cannot use encoding 'ascii' to decode b'        "
  "\\xffhBfksp544sPoTCMqztkzZESWMX017to6J9InVf3-/TSiarivflj.gaB'"),
 ('corrupt',
  124,
  b'\x00',
  "str '92aedf8449762b03508d5ca6472c6c55dbe53f9d5e7ffa9403e830019d96d07a'"),
 ('corrupt', 131, b'x', "str '574798b3a5f7d923f9a9a89c9954bc85e584ab5e79eef59e6f8a42fd1a05c463'"),
 ('corrupt',
  131,
  b'\xff',
  "raised construct.core.StringError: cannot use encoding 'ascii' to decode b'        "
  "nhBfksp\\xff44sPoTCMqztkzZESWMX017to6J9InVf3-/TSiarivflj.gaB'"),
 ('corrupt',
  131,
  b'\x00',
  "str 'cdb4b72e4d48d2f3b20736c5efd73c6d125c8fc4355535b9da986f138740015f'"),
 ('corrupt', 138, b'x', "str '35edd7b9134357fb252bb3b10dc26b1fe3223ac048d1dacf59e8240c9126a552'"),
 ('corrupt',
  138,
  b'\xff',
  "raised construct.core.StringError: cannot use encoding 'ascii' to decode b'        "
  "nhBfksp544sPoT\\xffMqztkzZESWMX017to6J9InVf3-/TSiarivflj.gaB'"),
 ('corrupt',
  138,
  b'\x00',
  "str '3ccc73b0e5adc81091c69001a5ddd59b4b70a7b170455637650b7634a6c90dbe'"),
 ('corrupt', 145, b'x', "str '4657f7678354346d72738191776e1019cf26eaf2d78fa09627298e9426ee6fa4'"),
 ('corrupt',
  145,
  b'\xff',
  "raised construct.core.StringError: cannot use encoding 'ascii' to decode b'        "
  "nhBfksp544sPoTCMqztkz\\xffESWMX017to6J9InVf3-/TSiarivflj.gaB'"),
 ('corrupt',
  145,
  b'\x00',
  "str 'adf38502b1c76564b1dbdfd48df89a54d3121d021828766336bd2bdafdcf6c95'"),
 ('corrupt', 152, b'x', "str '4b43664198790e5472e45b24ecdeb80ffa7b017015c6a923edc552e49630d26a'"),
 ('corrupt',
  152,
  b'\xff',
  "raised construct.core.StringError: cannot use encoding 'ascii' to decode b'        "
  "nhBfksp544sPoTCMqztkzZESWMX0\\xff7to6J9InVf3-/TSiarivflj.gaB'"),
 ('corrupt',
  152,
  b'\x00',
  "str 'f793f9e61ee74fe747d04cd6ea7f581aa3a42e8944bda20c8784fdd07fd5dab7'"),
 ('corrupt', 159, b'x', "str '488fcdc596b3ae257e8f8756b2ecc5d491bf3b9f876eb33fc35c7118697659fa'"),
 ('corrupt',
  159,
  b'\xff',
  "raised construct.core.StringError: cannot use encoding 'ascii' to decode b'        "
  "nhBfksp544sPoTCMqztkzZESWMX017to6J9\\xffnVf3-/TSiarivflj.gaB'"),
 ('corrupt',
  159,
  b'\x00',
  "str '1eb98fe16366bede6cc00dec98172713617c459714a4a7dbb1045c16f8356c68'"),
 ('corrupt', 166, b'x', "str '21c542a579492a6d291d7838c7f76ae6bf58a14dfa52dfdcea84fc714044b781'"),
 ('corrupt',
  166,
  b'\xff',
  "raised construct.core.StringError: cannot use encoding 'ascii' to decode b'        "
  "nhBfksp544sPoTCMqztkzZESWMX017to6J9InVf3-/\\xffSiarivflj.gaB'"),
 ('corrupt',
  166,
  b'\x00',
  "str 'a91a9327555e01078d8b73749e40674e469ae329fcb32dbbf5910c9503fe3c50'"),
 ('corrupt', 173, b'x', "str '37870e983b6574688cb8f8a8e23709c901dfa318c5382e58939b6336966c48be'"),
 ('corrupt',
  173,
  b'\xff',
  "raised construct.core.StringError: cannot use encoding 'ascii' to decode b'        "
  "nhBfksp544sPoTCMqztkzZESWMX017to6J9InVf3-/TSiariv\\xfflj.gaB'"),
 ('corrupt',
  173,
  b'\x00',
  "str 'dd618ab27684093f52f40e18e021134792daade02bce29eac6197c983016a889'"),
 ('corrupt',
  180,
  b'x',
  "raised builtins.ValueError: invalid literal for int() with base 10: 'x  311'"),
 ('corrupt',
  180,
  b'\xff',
  "raised construct.core.StringError: cannot use encoding 'ascii' to decode b'\\xff  311'"),
 ('corrupt',
  180,
  b'\x00',
  "raised builtins.ValueError: invalid literal for int() with base 10: '\\x00  311'"),
 ('corrupt',
  187,
  b'x',
  "raised builtins.ValueError: invalid literal for int() with base 10: 'x7817'"),
 ('corrupt',
  187,
  b'\xff',
  "raised construct.core.StringError: cannot use encoding 'ascii' to decode b' \\xff7817'"),
 ('corrupt',
  187,
  b'\x00',
  "raised builtins.ValueError: invalid literal for int() with base 10: '\\x007817'"),
 ('corrupt', 194, b'x', "str '9d3f425cf344bed5251e69e1174dc3c2038698d55ec614271d9e88e1ecebabbd'"),
 ('corrupt',
  194,
  b'\xff',
  "raised construct.core.StringError: cannot use encoding 'ascii' to decode b'  "
  "\\xff                    x'"),
 ('corrupt',
  194,
  b'\x00',
  "str '6109bf82b0aaa4b02a7ba055a03e64aa3cd933c6e3f864e3d284f4b66763a32d'"),
 ('corrupt', 201, b'x', "str '530a2a97f70a3fc705a09c394added2a821bb65d29cb9de26c17de5840cc9653'"),
 ('corrupt',
  201,
  b'\xff',
  "raised construct.core.StringError: cannot use encoding 'ascii' to decode b'         "
  "\\xff             x'"),
 ('corrupt',
  201,
  b'\x00',
  "str 'd61d4965e8d9e10d9fbeeacfc0afbe45b39a3ce46427392139ecb7278f1bd906'"),
 ('corrupt', 208, b'x', "str 'ff69027a20276fe91e011b04450fcb640036aa7abc22ba14556659249867c5bc'"),
 ('corrupt',
  208,
  b'\xff',
  "raised construct.core.StringError: cannot use encoding 'ascii' to decode b'                "
  "\\xff      x'"),
 ('corrupt',
  208,
  b'\x00',
  "str 'c305c7a07ce35ed1a08327158789ab1a15feb3cf0f37b43f7a3cf9c852a1ca60'"),
 ('corrupt', 215, b'x', "str '03942c190b78bdd1849543bdf793b04b03532f74a1f8bfbd1f33aec24d373e11'"),
 ('corrupt',
  215,
  b'\xff',
  "raised construct.core.StringError: cannot use encoding 'ascii' to decode "
  "b'                       \\xff'"),
 ('corrupt',
  215,
  b'\x00',
  "str 'e665021c5fd1ae04736458a7fcac1e51a3667a333d1c0ba8401abc27e5553f23'"),
 ('corrupt',
  222,
  b'x',
  "raised builtins.ValueError: invalid literal for int() with base 10: '5x1'"),
 ('corrupt',
  222,
  b'\xff',
  "raised construct.core.StringError: cannot use encoding 'ascii' to decode b' 5\\xff1'"),
 ('corrupt',
  222,
  b'\x00',
  "raised builtins.ValueError: invalid literal for int() with base 10: '5\\x001'"),
 ('corrupt', 229, b'x', "str 'e053e5cf38905b8a8da671cd4c81394e258d1eb9a12bae435fc534e17128c6d9'"),
 ('corrupt',
  229,
  b'\xff',
  "raised construct.core.StringError: cannot use encoding 'ascii' to decode b'J\\xff_X'"),
 ('corrupt',
  229,
  b'\x00',
  "str '6ea21ee8271d1551b86f2977089d3c9a537042ed18450211069153bbb89b2e69'"),
 ('corrupt',
  236,
  b'x',
  "raised builtins.ValueError: invalid literal for int() with base 10: 'x 571956'"),
 ('corrupt',
  236,
  b'\xff',
  "raised construct.core.StringError: cannot use encoding 'ascii' to decode b'\\xff 571956'"),
 ('corrupt',
  236,
  b'\x00',
  "raised builtins.ValueError: invalid literal for int() with base 10: '\\x00 571956'"),
 ('corrupt',
  243,
  b'x',
  "raised builtins.ValueError: invalid literal for int() with base 10: '57195x'"),
 ('corrupt',
  243,
  b'\xff',
  "raised construct.core.StringError: cannot use encoding 'ascii' to decode b'  57195\\xff'"),
 ('corrupt',
  243,
  b'\x00',
  "str '5cc37e226bee7c7fc0648048fe14a56ecca7af59edcb9fc113fcabb8636c5809'"),
 ('corrupt',
  250,
  b'x',
  "raised builtins.ValueError: invalid literal for int() with base 10: 'x   92'"),
 ('corrupt',
  250,
  b'\xff',
  "raised construct.core.StringError: cannot use encoding 'ascii' to decode b'  \\xff   92'"),
 ('corrupt',
  250,
  b'\x00',
  "raised builtins.ValueError: invalid literal for int() with base 10: '\\x00   92'"),
 ('corrupt',
  257,
  b'x',
  "raised builtins.ValueError: invalid literal for int() with base 10: 'x14'"),
 ('corrupt',
  257,
  b'\xff',
  "raised construct.core.StringError: cannot use encoding 'ascii' to decode b' \\xff14'"),
 ('corrupt',
  257,
  b'\x00',
  "raised builtins.ValueError: invalid literal for int() with base 10: '\\x0014'"),
 ('corrupt',
  264,
  b'x',
  "raised builtins.ValueError: invalid literal for int() with base 10: 'x953'"),
 ('corrupt',
  264,
  b'\xff',
  "raised construct.core.StringError: cannot use encoding 'ascii' to decode b'\\xff953'"),
 ('corrupt',
  264,
  b'\x00',
  "raised builtins.ValueError: invalid literal for int() with base 10: '\\x00953'"),
 ('corrupt', 271, b'x', "str '5b48baa6cc2aec1b1f79eeaadca6d5aad64f5395ff84518619e132d9e9bc81d5'"),
 ('corrupt',
  271,
  b'\xff',
  "raised construct.core.StringError: cannot use encoding 'ascii' to decode b'  B\\xff'"),
 ('corrupt',
  271,
  b'\x00',
  "str '459be6f3f6af610d03b5c3a78fb64992e5ef38731ae7558d2e1f9126751cd201'"),
 ('corrupt', 278, b'x', "raised builtins.ValueError: invalid literal for int() with base 10: 'x0'"),
 ('corrupt',
  278,
  b'\xff',
  "raised construct.core.StringError: cannot use encoding 'ascii' to decode b'  \\xff0'"),
 ('corrupt',
  278,
  b'\x00',
  "raised builtins.ValueError: invalid literal for int() with base 10: '\\x000'"),
 ('corrupt',
  285,
  b'x',
  "raised builtins.ValueError: invalid literal for int() with base 10: 'x16'"),
 ('corrupt',
  285,
  b'\xff',
  "raised construct.core.StringError: cannot use encoding 'ascii' to decode b'     \\xff16'"),
 ('corrupt',
  285,
  b'\x00',
  "raised builtins.ValueError: invalid literal for int() with base 10: '\\x0016'"),
 ('corrupt', 292, b'x', "str 'e5ab516aa1049fe092b6570d04f0253004334b266ec3a036ea643f008a2ac47a'"),
 ('corrupt',
  292,
  b'\xff',
  "raised construct.core.StringError: cannot use encoding 'ascii' to decode b'\\xff nw'"),
 ('corrupt',
  292,
  b'\x00',
  "str '398b7cf58408459f794269559ba548ed30b49b0aacf7c8ee7942206715004080'"),
 ('corrupt', 299, b'x', "str 'ab26b0582649efa4baa306bd1d84d5125f2f60686a847ec7a4c0fa5bb27fa04d'"),
 ('corrupt',
  299,
  b'\xff',
  "raised construct.core.StringError: cannot use encoding 'ascii' to decode b'   \\xff   Z'"),
 ('corrupt',
  299,
  b'\x00',
  "str '4794f46275f8a597c908edf0df1c9a400926d35799c41135e156e8ebc15f700c'"),
 ('corrupt', 306, b'x', "str '50edfe9784a2a1d67ea123e7905fef6f26d9317d03d211653545b890a71c9642'"),
 ('corrupt',
  306,
  b'\xff',
  "raised construct.core.StringError: cannot use encoding 'ascii' to decode b'  \\xffksehK'"),
 ('corrupt',
  306,
  b'\x00',
  "str 'be9d6f2fd6350269d48c2573b70856f8b3ca3b0ca2bcc90d361b95e4cb34ac41'"),
 ('corrupt', 313, b'x', "str '274844270cea53e3de5e17d9917d25ea7140d252c1a22bf58269c9e786cc9d15'"),
 ('corrupt',
  313,
  b'\xff',
  "raised construct.core.StringError: cannot use encoding 'ascii' to decode b'v\\xffTHQ1Zm'"),
 ('corrupt',
  313,
  b'\x00',
  "str 'fdda8a6027105dcc09292e826cc136361590583c0734981c56a99825c5633290'"),
 ('corrupt', 320, b'x', "str 'eefc4ecd0561451bc999e3c8b5d169d1ee76fe5a84503fdd7bee4b76e8252754'"),
 ('corrupt',
  320,
  b'\xff',
  "raised construct.core.StringError: cannot use encoding 'ascii' to decode b'\\xff  ipsB6'"),
 ('corrupt',
  320,
  b'\x00',
  "str 'd0b7fd7f03815c1e06eff169f82e645153c4ce869f8934bc2e87ece53d4f7dbb'"),
 ('corrupt', 327, b'x', "str '63b0c825d67c74e4f0a5b8b19729d13eef42c2a43e9605a60a0ade34f88fc34c'"),
 ('corrupt',
  327,
  b'\xff',
  "raised construct.core.StringError: cannot use encoding 'ascii' to decode b'   ipsB\\xff'"),
 ('corrupt',
  327,
  b'\x00',
  "str '3b1f4b1f205a58e9314a6e5d815a66b2e32a967cf8deb19f8f4501302cd76769'"),
 ('corrupt', 334, b'x', "str '03942c190b78bdd1849543bdf793b04b03532f74a1f8bfbd1f33aec24d373e11'"),
 ('corrupt',
  334,
  b'\xff',
  "raised construct.core.StringError: cannot use encoding 'ascii' to decode b'rGrfzI\\xff8'"),
 ('corrupt',
  334,
  b'\x00',
  "str '14a001b1ae2f0cb9a760dd5dbc433a34648a7fa9db581f2ee71ffc1a2fcb74d6'"),
 ('corrupt', 341, b'x', "str 'ad5b917d50fd9e6821968be396f38eaed6f39ff2ee519e0ce2d1c4dff7b92829'"),
 ('corrupt',
  341,
  b'\xff',
  "raised construct.core.StringError: cannot use encoding 'ascii' to decode b' "
  "\\xffRoFTZ8sTDu2E*qvj/i_uJ0dx.8'"),
 ('corrupt',
  341,
  b'\x00',
  "str 'c3a07d513396a334143ba62bb809bb6f3893fdce93a833d740301b50804e4225'"),
 ('corrupt', 348, b'x', "str 'b143885a1f8fcf2f8e36e4b05ed32083041fca800bc7eb5d604037175d085a66'"),
 ('corrupt',
  348,
  b'\xff',
  "raised construct.core.StringError: cannot use encoding 'ascii' to decode b'  "
  "RoFTZ8\\xffTDu2E*qvj/i_uJ0dx.8'"),
 ('corrupt',
  348,
  b'\x00',
  "str '28f95dd17ded8fb1d2b3f6edbe7efdacd7923bae103f297dbfa3ee1c49c99adb'"),
 ('corrupt', 355, b'x', "str 'ff967251e4463be017e85e6c688ae098ccff4a51a89426dbc314994b1e488745'"),
 ('corrupt',
  355,
  b'\xff',
  "raised construct.core.StringError: cannot use encoding 'ascii' to decode b'  "
  "RoFTZ8sTDu2E*\\xffvj/i_uJ0dx.8'"),
 ('corrupt',
  355,
  b'\x00',
  "str '20cc52c63f0f40c737a8c174745781d935034ad90339fcbe0b935957aa4f5d73'"),
 ('corrupt', 362, b'x', "str 'ba074e561363166da9d0d57fb80cf35aeb3bd2953d6ec5269e52f8768972caaa'"),
 ('corrupt',
  362,
  b'\xff',
  "raised construct.core.StringError: cannot use encoding 'ascii' to decode b'  "
  "RoFTZ8sTDu2E*qvj/i_u\\xff0dx.8'"),
 ('corrupt',
  362,
  b'\x00',
  "str 'd604bba046aafab85d320eb7b3b19b102bc50a0826df5cbc201f078cfd7f75ac'"),
 ('corrupt', 369, b'x', "str '5dfeaddefa8f5eb6fc594ab351b1e3c3499dc0033775df4f9128429617f92c22'"),
 ('corrupt',
  369,
  b'\xff',
  "raised construct.core.StringError: cannot use encoding 'ascii' to decode b' \\xff   krp'"),
 ('corrupt',
  369,
  b'\x00',
  "str '0ae9b29d57ded89aec8f28ab1751a3a3fb50fea6809770262a077e2482242875'"),
 ('corrupt', 376, b'x', "str '121c5c4005306c8c1574b83cfebd89b6bd5f72c47ffeb13803151722bff42eaf'"),
 ('corrupt',
  376,
  b'\xff',
  "raised construct.core.StringError: cannot use encoding 'ascii' to decode b'\\xff      L'"),
 ('corrupt',
  376,
  b'\x00',
  "str 'ffa50885a8610db4883afad9ca4411617b713ca4335068d0daf5c1572e845d8d'"),
 ('corrupt', 383, b'x', "str '1501f8ce829e20fdfe1435ad60d431764e86b1efe80ff203f2f2d646a1ed4500'"),
 ('corrupt',
  383,
  b'\xff',
  "raised construct.core.StringError: cannot use encoding 'ascii' to decode b'       \\xff'"),
 ('corrupt',
  383,
  b'\x00',
  "str 'ba921ca624e9eaf9e77e841e6753ae0404e5d7c82e947be2d421ca0ac25d6da2'"),
 ('corrupt', 390, b'x', "str '1b89bd9f7d89b010e0c0130e434909b247574dbbb69fa5d5cf3435026879a510'"),
 ('corrupt',
  390,
  b'\xff',
  "raised construct.core.StringError: cannot use encoding 'ascii' to decode b'  QJ.v\\xffW'"),
 ('corrupt',
  390,
  b'\x00',
  "str 'e516ebf6c44b710bb0ccff394ecc94a118f87044900509153f7d900e2a10b7bd'"),
 ('corrupt', 397, b'x', "str '0cd00d2c85c5f7d1d08f4a56a1b00709e43bb1ed4b37304a396b9ea95d628ca8'"),
 ('corrupt',
  397,
  b'\xff',
  "raised construct.core.StringError: cannot use encoding 'ascii' to decode b'  SfQ\\xffrn'"),
 ('corrupt',
  397,
  b'\x00',
  "str '171325eb49e9d9bb0b685cc7d2a50f76f2369c0ae1236a807c24f17f508f9e59'"),
 ('corrupt', 404, b'x', "str 'd2e60c11e4f3cdd1b1b9bb68b6563d898110a106a32db45c289414cbd6e79e70'"),
 ('corrupt',
  404,
  b'\xff',
  "raised construct.core.StringError: cannot use encoding 'ascii' to decode b'    "
  "\\xff              MNGAPdthZ'"),
 ('corrupt',
  404,
  b'\x00',
  "str '27731498fa4b5a594b4c62abfe8f42a6720feb1d8c4c81d7804fbeb8bc9936df'"),
 ('corrupt', 411, b'x', "str 'f95bd1349ae45e27aed3c71918fa44ebb245b0438e82f53a7576765c00352962'"),
 ('corrupt',
  411,
  b'\xff',
  "raised construct.core.StringError: cannot use encoding 'ascii' to decode b'           "
  "\\xff       MNGAPdthZ'"),
 ('corrupt',
  411,
  b'\x00',
  "str 'ae3bc3abeb4b04d8f2d64b12f16e6c0e5cb576659ae93e101a8ddf4146918455'"),
 ('corrupt', 418, b'x', "str '026e09b9be43123e00796a21b26fd8cbfe0a046ae771c3689e9127ae8867ae7d'"),
 ('corrupt',
  418,
  b'\xff',
  "raised construct.core.StringError: cannot use encoding 'ascii' to decode b'                  "
  "\\xffMNGAPdthZ'"),
 ('corrupt',
  418,
  b'\x00',
  "str '49bb44b53927f2846efc47503c66dcd237ccc753c5e09470b949c0e819fb0464'"),
 ('corrupt', 425, b'x', "str 'd0688c8bb85aa63101c283d292e8766b4cfb448c6cd56fe970fbf3d4b3225589'"),
 ('corrupt',
  425,
  b'\xff',
  "raised construct.core.StringError: cannot use encoding 'ascii' to decode b'                   "
  "MNGAPd\\xffhZ'"),
 ('corrupt',
  425,
  b'\x00',
  "str 'b4b99af4f0a03787b8bbb03db00219f9893e48c084493805c35802f6fc892573'"),
 ('corrupt',
  432,
  b'x',
  "raised builtins.ValueError: invalid literal for int() with base 10: 'x257'"),
 ('corrupt',
  432,
  b'\xff',
  "raised construct.core.StringError: cannot use encoding 'ascii' to decode b'\\xff257'"),
 ('corrupt',
  432,
  b'\x00',
  "raised builtins.ValueError: invalid literal for int() with base 10: '\\x00257'"),
 ('corrupt', 439, b'x', "raised builtins.ValueError: invalid literal for int() with base 10: '6x'"),
 ('corrupt',
  439,
  b'\xff',
  "raised construct.core.StringError: cannot use encoding 'ascii' to decode b'  6\\xff'"),
 ('corrupt',
  439,
  b'\x00',
  "str 'ae7b2d64d0def81237d09142f1dd7eb45775fc84a768bbefc8d093001092bf0f'"),
 ('corrupt',
  446,
  b'x',
  "raised builtins.ValueError: invalid literal for int() with base 10: '28x2'"),
 ('corrupt',
  446,
  b'\xff',
  "raised construct.core.StringError: cannot use encoding 'ascii' to decode b'    28\\xff2'"),
 ('corrupt',
  446,
  b'\x00',
  "raised builtins.ValueError: invalid literal for int() with base 10: '28\\x002'"),
 ('corrupt',
  453,
  b'x',
  "raised builtins.ValueError: invalid literal for int() with base 10: 'x17'"),
 ('corrupt',
  453,
  b'\xff',
  "raised construct.core.StringError: cannot use encoding 'ascii' to decode b' \\xff17'"),
 ('corrupt',
  453,
  b'\x00',
  "raised builtins.ValueError: invalid literal for int() with base 10: '\\x0017'"),
 ('corrupt', 460, b'x', "str '7c8861ee10b3f7fed2710e17ea650414758fc3ccd11e5942a55d18709a88d6d1'"),
 ('corrupt',
  460,
  b'\xff',
  "raised construct.core.StringError: cannot use encoding 'ascii' to decode "
  "b'\\xff                 "
  "x2yU_9enPLz*7l-uZN-PtTi9U_VY2tm.TENgecjwmSmdcrGxPDk2MEcgCNQGul67YSH7aS81ZSJLYLZe9oVygST/i_*wsVa3B15oR.GnMy-*tck0sFD*/y2F/p.IMpn_w5GPu/GFsdr2atsQv4n*6oxPP0bY.1cBL/.o9HGiN4IX2HWc8EglTGrFyORtBnEY8/_1VtnEH9DLwPwAWT29MN1gYejPmAaJPxOOF7EMcwgs*vyChR'"),
 ('corrupt',
  460,
  b'\x00',
  "str '8c62c665b3f256190995480c5919a824ea8cda1e493a706a77e0020cd113553d'"),
 ('corrupt', 467, b'x', "str '136c8b1e1c36858362b002eae96bdcaa327b67b3647b052307ad780fe7568288'"),
 ('corrupt',
  467,
  b'\xff',
  "raised construct.core.StringError: cannot use encoding 'ascii' to decode b'       "
  '\\xff          '
  "x2yU_9enPLz*7l-uZN-PtTi9U_VY2tm.TENgecjwmSmdcrGxPDk2MEcgCNQGul67YSH7aS81ZSJLYLZe9oVygST/i_*wsVa3B15oR.GnMy-*tck0sFD*/y2F/p.IMpn_w5GPu/GFsdr2atsQv4n*6oxPP0bY.1cBL/.o9HGiN4IX2HWc8EglTGrFyORtBnEY8/_1VtnEH9DLwPwAWT29MN1gYejPmAaJPxOOF7EMcwgs*vyChR'"),
 ('corrupt',
  467,
  b'\x00',
  "str '3e217df6f98d959c5f8dd491ca1f9fabae4d9bbebebbcdfb1d5ba7ebd838e2d4'"),
 ('corrupt', 474, b'x', "str '2e64eba77c87f0c7345f162a93914fa6bde99c16fdef0e38aecd954debdb699b'"),
 ('corrupt',
  474,
  b'\xff',
  "raised construct.core.StringError: cannot use encoding 'ascii' to decode b'              "
  '\\xff   '
  "x2yU_9enPLz*7l-uZN-PtTi9U_VY2tm.TENgecjwmSmdcrGxPDk2MEcgCNQGul67YSH7aS81ZSJLYLZe9oVygST/i_*wsVa3B15oR.GnMy-*tck0sFD*/y2F/p.IMpn_w5GPu/GFsdr2atsQv4n*6oxPP0bY.1cBL/.o9HGiN4IX2HWc8EglTGrFyORtBnEY8/_1VtnEH9DLwPwAWT29MN1gYejPmAaJPxOOF7EMcwgs*vyChR'"),
 ('corrupt',
  474,
  b'\x00',
  "str 'cf41579e9fba313d20d3c11cb7ae4a6f31c316d5a80609bc3de26781add9436d'"),
 ('corrupt', 481, b'x', "str '177a31b7922ec1b798bcd9bb0c4cd9c4eaa1544bb3db9301269614bef5c465ac'"),
 ('corrupt',
  481,
  b'\xff',
  "raised construct.core.StringError: cannot use encoding 'ascii' to decode b'                  "
  "x2y\\xff_9enPLz*7l-uZN-PtTi9U_VY2tm.TENgecjwmSmdcrGxPDk2MEcgCNQGul67YSH7aS81ZSJLYLZe9oVygST/i_*wsVa3B15oR.GnMy-*tck0sFD*/y2F/p.IMpn_w5GPu/GFsdr2atsQv4n*6oxPP0bY.1cBL/.o9HGiN4IX2HWc8EglTGrFyORtBnEY8/_1VtnEH9DLwPwAWT29MN1gYejPmAaJPxOOF7EMcwgs*vyChR'"),
 ('corrupt',
  481,
  b'\x00',
  "str 'dacf0c9c76f730392d1c18f0ca14c60957151bae938950201b13d6351dd41c6e'"),
 ('corrupt', 488, b'x', "str '9585040d92cc130ab01d882ee6de789fbe542681915b69775a3f29e39c03a6e2'"),
 ('corrupt',
  488,
  b'\xff',
  "raised construct.core.StringError: cannot use encoding 'ascii' to decode b'                  "
  "x2yU_9enPL\\xff*7l-uZN-PtTi9U_VY2tm.TENgecjwmSmdcrGxPDk2MEcgCNQGul67YSH7aS81ZSJLYLZe9oVygST/i_*wsVa3B15oR.GnMy-*tck0sFD*/y2F/p.IMpn_w5GPu/GFsdr2atsQv4n*6oxPP0bY.1cBL/.o9HGiN4IX2HWc8EglTGrFyORtBnEY8/_1VtnEH9DLwPwAWT29MN1gYejPmAaJPxOOF7EMcwgs*vyChR'"),
 ('corrupt',
  488,
  b'\x00',
  "str 'b8e93ec2fe82fa2d993345d10c99f7e29a57c7ab8613d05d2c13351992c90a04'"),
 ('corrupt', 495, b'x', "str '1fa31ae1d7c4fd5b1a99e81c08252d23aba8415e9261345966e68d460a1697b2'"),
 ('corrupt',
  495,
  b'\xff',
  "raised construct.core.StringError: cannot use encoding 'ascii' to decode b'                  "
  "x2yU_9enPLz*7l-uZ\\xff-PtTi9U_VY2tm.TENgecjwmSmdcrGxPDk2MEcgCNQGul67YSH7aS81ZSJLYLZe9oVygST/i_*wsVa3B15oR.GnMy-*tck0sFD*/y2F/p.IMpn_w5GPu/GFsdr2atsQv4n*6oxPP0bY.1cBL/.o9HGiN4IX2HWc8EglTGrFyORtBnEY8/_1VtnEH9DLwPwAWT29MN1gYejPmAaJPxOOF7EMcwgs*vyChR'"),
 ('corrupt',
  495,
  b'\x00',
  "str 'af0ffcada7ea09f8e5c9206a4f787d2068f5a69406a404f7ceba5bb5a36e4e34'"),
 ('corrupt', 502, b'x', "str 'c474a62311d2a3ab96bca9146295202ca5f414aea97e40e159054673a9de67b6'"),
 ('corrupt',
  502,
  b'\xff',
  "raised construct.core.StringError: cannot use encoding 'ascii' to decode b'                  "
  "x2yU_9enPLz*7l-uZN-PtTi9\\xff_VY2tm.TENgecjwmSmdcrGxPDk2MEcgCNQGul67YSH7aS81ZSJLYLZe9oVygST/i_*wsVa3B15oR.GnMy-*tck0sFD*/y2F/p.IMpn_w5GPu/GFsdr2atsQv4n*6oxPP0bY.1cBL/.o9HGiN4IX2HWc8EglTGrFyORtBnEY8/_1VtnEH9DLwPwAWT29MN1gYejPmAaJPxOOF7EMcwgs*vyChR'"),
 ('corrupt',
  502,
  b'\x00',
  "str '34d646f051bbc93730edeffbf1b59223ecd90e0039a6e2b477c49e35f9bb326d'"),
 ('corrupt', 509, b'x', "str '624c23738c2b66668e285f58a82eeaaa0fb01847c317d246ad948f879ba0b85d'"),
 ('corrupt',
  509,
  b'\xff',
  "raised construct.core.StringError: cannot use encoding 'ascii' to decode b'                  "
  "x2yU_9enPLz*7l-uZN-PtTi9U_VY2tm\\xffTENgecjwmSmdcrGxPDk2MEcgCNQGul67YSH7aS81ZSJLYLZe9oVygST/i_*wsVa3B15oR.GnMy-*tck0sFD*/y2F/p.IMpn_w5GPu/GFsdr2atsQv4n*6oxPP0bY.1cBL/.o9HGiN4IX2HWc8EglTGrFyORtBnEY8/_1VtnEH9DLwPwAWT29MN1gYejPmAaJPxOOF7EMcwgs*vyChR'"),
 ('corrupt',
  509,
  b'\x00',
  "str 'd88f26f38c8ff594730612dc28132b7933b9625954f28c345fe9fb358ee30c1f'"),
 ('corrupt', 516, b'x', "str '11d96e52f94e22918df19db07f9915eb99d23f64c3258f6c2d9a7f7c36ac38e3'"),
 ('corrupt',
  516,
  b'\xff',
  "raised construct.core.StringError: cannot use encoding 'ascii' to decode b'                  "
  "x2yU_9enPLz*7l-uZN-PtTi9U_VY2tm.TENgec\\xffwmSmdcrGxPDk2MEcgCNQGul67YSH7aS81ZSJLYLZe9oVygST/i_*wsVa3B15oR.GnMy-*tck0sFD*/y2F/p.IMpn_w5GPu/GFsdr2atsQv4n*6oxPP0bY.1cBL/.o9HGiN4IX2HWc8EglTGrFyORtBnEY8/_1VtnEH9DLwPwAWT29MN1gYejPmAaJPxOOF7EMcwgs*vyChR'"),
 ('corrupt',
  516,
  b'\x00',
  "str 'de89c71b46d5e6d23214686f81a47f77bd529f960fdf7d80e3a6e4a4ed69357b'"),
 ('corrupt', 523, b'x', "str '4cfeee54044b3df44e6577e191e4e5c82a867d0489cf71f997f88db8c8e2a56a'"),
 ('corrupt',
  523,
  b'\xff',
  "raised construct.core.StringError: cannot use encoding 'ascii' to decode b'                  "
  "x2yU_9enPLz*7l-uZN-PtTi9U_VY2tm.TENgecjwmSmdc\\xffGxPDk2MEcgCNQGul67YSH7aS81ZSJLYLZe9oVygST/i_*wsVa3B15oR.GnMy-*tck0sFD*/y2F/p.IMpn_w5GPu/GFsdr2atsQv4n*6oxPP0bY.1cBL/.o9HGiN4IX2HWc8EglTGrFyORtBnEY8/_1VtnEH9DLwPwAWT29MN1gYejPmAaJPxOOF7EMcwgs*vyChR'"),
 ('corrupt',
  523,
  b'\x00',
  "str 'bea6d77880a0eb3d270af5e1ff979eac873967fd54e441bfcad0e7d8c3767354'"),
 ('corrupt', 530, b'x', "str 'b23d23c3fc9663e6f2372c08c911857ae59e7274dd6bb782ef4d12e5829d3c9b'"),
 ('corrupt',
  530,
  b'\xff',
  "raised construct.core.StringError: cannot use encoding 'ascii' to decode b'                  "
  "x2yU_9enPLz*7l-uZN-PtTi9U_VY2tm.TENgecjwmSmdcrGxPDk2\\xffEcgCNQGul67YSH7aS81ZSJLYLZe9oVygST/i_*wsVa3B15oR.GnMy-*tck0sFD*/y2F/p.IMpn_w5GPu/GFsdr2atsQv4n*6oxPP0bY.1cBL/.o9HGiN4IX2HWc8EglTGrFyORtBnEY8/_1VtnEH9DLwPwAWT29MN1gYejPmAaJPxOOF7EMcwgs*vyChR'"),
 ('corrupt',
  530,
  b'\x00',
  "str 'abad531e2fdebc8b1f035f79ff0d4335cadcb612f7f46eb9890f80e8a595ea0f'"),
 ('corrupt', 537, b'x', "str '8734138f13493d75d35937ff003b55cbdf83562d75482c5b4dc70692988f279d'"),
 ('corrupt',
  537,
  b'\xff',
  "raised construct.core.StringError: cannot use encoding 'ascii' to decode b'                  "
  "x2yU_9enPLz*7l-uZN-PtTi9U_VY2tm.TENgecjwmSmdcrGxPDk2MEcgCNQ\\xfful67YSH7aS81ZSJLYLZe9oVygST/i_*wsVa3B15oR.GnMy-*tck0sFD*/y2F/p.IMpn_w5GPu/GFsdr2atsQv4n*6oxPP0bY.1cBL/.o9HGiN4IX2HWc8EglTGrFyORtBnEY8/_1VtnEH9DLwPwAWT29MN1gYejPmAaJPxOOF7EMcwgs*vyChR'"),
 ('corrupt',
  537,
  b'\x00',
  "str '73e88576ca0780be093b5abb020d73e34c67ffa196153716baeeb3cc2b0c28ec'"),
 ('corrupt', 544, b'x', "str '8c22022a2e4d8d45fc1611b36883b573cb2c5ceaf42d17cbfa1b16324c0a8997'"),
 ('corrupt',
  544,
  b'\xff',
  "raised construct.core.StringError: cannot use encoding 'ascii' to decode b'                  "
  "x2yU_9enPLz*7l-uZN-PtTi9U_VY2tm.TENgecjwmSmdcrGxPDk2MEcgCNQGul67YS\\xff7aS81ZSJLYLZe9oVygST/i_*wsVa3B15oR.GnMy-*tck0sFD*/y2F/p.IMpn_w5GPu/GFsdr2atsQv4n*6oxPP0bY.1cBL/.o9HGiN4IX2HWc8EglTGrFyORtBnEY8/_1VtnEH9DLwPwAWT29MN1gYejPmAaJPxOOF7EMcwgs*vyChR'"),
 ('corrupt',
  544,
  b'\x00',
  "str '31202b04ec3485ddb82b81c9c9392077f4477be8be339e72e25a494232682ac1'"),
 ('corrupt', 551, b'x', "str '8645676af00a975bfe22b5380142a1bfa6d3284926b451586ac9da8687573631'"),
 ('corrupt',
  551,
  b'\xff',
  "raised construct.core.StringError: cannot use encoding 'ascii' to decode b'                  "
  "x2yU_9enPLz*7l-uZN-PtTi9U_VY2tm.TENgecjwmSmdcrGxPDk2MEcgCNQGul67YSH7aS81Z\\xffJLYLZe9oVygST/i_*wsVa3B15oR.GnMy-*tck0sFD*/y2F/p.IMpn_w5GPu/GFsdr2atsQv4n*6oxPP0bY.1cBL/.o9HGiN4IX2HWc8EglTGrFyORtBnEY8/_1VtnEH9DLwPwAWT29MN1gYejPmAaJPxOOF7EMcwgs*vyChR'"),
 ('corrupt',
  551,
  b'\x00',
  "str '594895c57b42c78148b45973625216754cb500c2cab0cddf854a60c12c10ec9f'"),
 ('corrupt', 558, b'x', "str '76aae5c06cd46cae217d6158faa7e5d0f1dbfcfb3b0e4133a610afdb2de9a92f'"),
 ('corrupt',
  558,
  b'\xff',
  "raised construct.core.StringError: cannot use encoding 'ascii' to decode b'                  "
  "x2yU_9enPLz*7l-uZN-PtTi9U_VY2tm.TENgecjwmSmdcrGxPDk2MEcgCNQGul67YSH7aS81ZSJLYLZe\\xffoVygST/i_*wsVa3B15oR.GnMy-*tck0sFD*/y2F/p.IMpn_w5GPu/GFsdr2atsQv4n*6oxPP0bY.1cBL/.o9HGiN4IX2HWc8EglTGrFyORtBnEY8/_1VtnEH9DLwPwAWT29MN1gYejPmAaJPxOOF7EMcwgs*vyChR'"),
 ('corrupt',
  558,
  b'\x00',
  "str 'c6c27cd7ed774f76ce927cfedfe318c109b078f16e597f64574f01da2b49aee4'"),
 ('corrupt', 565, b'x', "str '2e767a655e734362412b95f4cd6ebb64c19739f7382e1fbb6b7218199ced69ee'"),
 ('corrupt',
  565,
  b'\xff',
  "raised construct.core.StringError: cannot use encoding 'ascii' to decode b'                  "
  "x2yU_9enPLz*7l-uZN-PtTi9U_VY2tm.TENgecjwmSmdcrGxPDk2MEcgCNQGul67YSH7aS81ZSJLYLZe9oVygST\\xffi_*wsVa3B15oR.GnMy-*tck0sFD*/y2F/p.IMpn_w5GPu/GFsdr2atsQv4n*6oxPP0bY.1cBL/.o9HGiN4IX2HWc8EglTGrFyORtBnEY8/_1VtnEH9DLwPwAWT29MN1gYejPmAaJPxOOF7EMcwgs*vyChR'"),
 ('corrupt',
  565,
  b'\x00',
  "str 'ba9082f1ac8dde75569b4bbac0d2c68564cfac64b9a25e9e4ad82dcda57eea34'"),
 ('corrupt', 572, b'x', "str 'dce4acfa5a2da822df6fde4954dbe2cddd96127e67820e362fadba6566b5fd34'"),
 ('corrupt',
  572,
  b'\xff',
  "raised construct.core.StringError: cannot use encoding 'ascii' to decode b'                  "
  "x2yU_9enPLz*7l-uZN-PtTi9U_VY2tm.TENgecjwmSmdcrGxPDk2MEcgCNQGul67YSH7aS81ZSJLYLZe9oVygST/i_*wsV\\xff3B15oR.GnMy-*tck0sFD*/y2F/p.IMpn_w5GPu/GFsdr2atsQv4n*6oxPP0bY.1cBL/.o9HGiN4IX2HWc8EglTGrFyORtBnEY8/_1VtnEH9DLwPwAWT29MN1gYejPmAaJPxOOF7EMcwgs*vyChR'"),
 ('corrupt',
  572,
  b'\x00',
  "str '8ed77e40d5243500722ff6f5603d9345889cb8f81405fcc91ef1c123b3eb7211'"),
 ('corrupt', 579, b'x', "str 'aaffafd65a7918d6f528e11bdc2ecc8e8d89d2e98a2ea5b5e09b2f13e568b844'"),
 ('corrupt',
  579,
  b'\xff',
  "raised construct.core.StringError: cannot use encoding 'ascii' to decode b'                  "
  "x2yU_9enPLz*7l-uZN-PtTi9U_VY2tm.TENgecjwmSmdcrGxPDk2MEcgCNQGul67YSH7aS81ZSJLYLZe9oVygST/i_*wsVa3B15oR\\xffGnMy-*tck0sFD*/y2F/p.IMpn_w5GPu/GFsdr2atsQv4n*6oxPP0bY.1cBL/.o9HGiN4IX2HWc8EglTGrFyORtBnEY8/_1VtnEH9DLwPwAWT29MN1gYejPmAaJPxOOF7EMcwgs*vyChR'"),
 ('corrupt',
  579,
  b'\x00',
  "str 'f2ce71432740c9bb6f2f66bbbf3dbfff8a63a81c9e20338cfd3bbcc0f4ad9a91'"),
 ('corrupt', 586, b'x', "str '4b749cca5beeb87a32b8a7175041ba33739d45b971824edc6f6f24d2e60383cc'"),
 ('corrupt',
  586,
  b'\xff',
  "raised construct.core.StringError: cannot use encoding 'ascii' to decode b'                  "
  "x2yU_9enPLz*7l-uZN-PtTi9U_VY2tm.TENgecjwmSmdcrGxPDk2MEcgCNQGul67YSH7aS81ZSJLYLZe9oVygST/i_*wsVa3B15oR.GnMy-*\\xffck0sFD*/y2F/p.IMpn_w5GPu/GFsdr2atsQv4n*6oxPP0bY.1cBL/.o9HGiN4IX2HWc8EglTGrFyORtBnEY8/_1VtnEH9DLwPwAWT29MN1gYejPmAaJPxOOF7EMcwgs*vyChR'"),
 ('corrupt',
  586,
  b'\x00',
  "str '6e554f5d9b7f69208c284b905391bb23cc52dfcfcca80551cf7cb649d394659b'"),
 ('corrupt', 593, b'x', "str '451d5566514e7ba4f152954a4f9e32f03c212fc95d55dbda6b8c6ff6425009d4'"),
 ('corrupt',
  593,
  b'\xff',
  "raised construct.core.StringError: cannot use encoding 'ascii' to decode b'                  "
  "x2yU_9enPLz*7l-uZN-PtTi9U_VY2tm.TENgecjwmSmdcrGxPDk2MEcgCNQGul67YSH7aS81ZSJLYLZe9oVygST/i_*wsVa3B15oR.GnMy-*tck0sFD\\xff/y2F/p.IMpn_w5GPu/GFsdr2atsQv4n*6oxPP0bY.1cBL/.o9HGiN4IX2HWc8EglTGrFyORtBnEY8/_1VtnEH9DLwPwAWT29MN1gYejPmAaJPxOOF7EMcwgs*vyChR'"),
 ('corrupt',
  593,
  b'\x00',
  "str '89fbf8eb9203076a786d61bd1fd9825940f529c9f82f6f75d2607cb8c1bb10d0'"),
 ('corrupt', 600, b'x', "str 'eece6102132c287a18465b51d4e221c219589f437a01763e62ebd6115a989519'"),
 ('corrupt',
  600,
  b'\xff',
  "raised construct.core.StringError: cannot use encoding 'ascii' to decode b'                  "
  "x2yU_9enPLz*7l-uZN-PtTi9U_VY2tm.TENgecjwmSmdcrGxPDk2MEcgCNQGul67YSH7aS81ZSJLYLZe9oVygST/i_*wsVa3B15oR.GnMy-*tck0sFD*/y2F/p\\xffIMpn_w5GPu/GFsdr2atsQv4n*6oxPP0bY.1cBL/.o9HGiN4IX2HWc8EglTGrFyORtBnEY8/_1VtnEH9DLwPwAWT29MN1gYejPmAaJPxOOF7EMcwgs*vyChR'"),
 ('corrupt',
  600,
  b'\x00',
  "str 'd76e805273156d0c160edc9aa8c1564dde12ef432ee00b3f1745c5d71fc4ea13'"),
 ('corrupt', 607, b'x', "str '507c0a931efd2803796b53202f57fd4f728c2b98bc80998733bb5f03ce175f4e'"),
 ('corrupt',
  607,
  b'\xff',
  "raised construct.core.StringError: cannot use encoding 'ascii' to decode b'                  "
  "x2yU_9enPLz*7l-uZN-PtTi9U_VY2tm.TENgecjwmSmdcrGxPDk2MEcgCNQGul67YSH7aS81ZSJLYLZe9oVygST/i_*wsVa3B15oR.GnMy-*tck0sFD*/y2F/p.IMpn_w\\xffGPu/GFsdr2atsQv4n*6oxPP0bY.1cBL/.o9HGiN4IX2HWc8EglTGrFyORtBnEY8/_1VtnEH9DLwPwAWT29MN1gYejPmAaJPxOOF7EMcwgs*vyChR'"),
 ('corrupt',
  607,
  b'\x00',
  "str '861e1f60b238fc09a1e710f0f707ca341b1eaa64e2b7518347aa72790970938f'"),
 ('corrupt', 614, b'x', "str '92c60d8c167cdf6256c034f8addf1e024685a808ceebef8f24a8264fa6feb136'"),
 ('corrupt',
  614,
  b'\xff',
  "raised construct.core.StringError: cannot use encoding 'ascii' to decode b'                  "
  "x2yU_9enPLz*7l-uZN-PtTi9U_VY2tm.TENgecjwmSmdcrGxPDk2MEcgCNQGul67YSH7aS81ZSJLYLZe9oVygST/i_*wsVa3B15oR.GnMy-*tck0sFD*/y2F/p.IMpn_w5GPu/GF\\xffdr2atsQv4n*6oxPP0bY.1cBL/.o9HGiN4IX2HWc8EglTGrFyORtBnEY8/_1VtnEH9DLwPwAWT29MN1gYejPmAaJPxOOF7EMcwgs*vyChR'"),
 ('corrupt',
  614,
  b'\x00',
  "str '1449b5f45529ee8657e92c468eaef4bc63b526b33d354ecc115800721cbe7760'"),
 ('corrupt', 621, b'x', "str 'c391503fc3f879d1cfef6f0818687d221b1d02e2dde514ad90a1322686dc66b7'"),
 ('corrupt',
  621,
  b'\xff',
  "raised construct.core.StringError: cannot use encoding 'ascii' to decode b'                  "
  "x2yU_9enPLz*7l-uZN-PtTi9U_VY2tm.TENgecjwmSmdcrGxPDk2MEcgCNQGul67YSH7aS81ZSJLYLZe9oVygST/i_*wsVa3B15oR.GnMy-*tck0sFD*/y2F/p.IMpn_w5GPu/GFsdr2ats\\xffv4n*6oxPP0bY.1cBL/.o9HGiN4IX2HWc8EglTGrFyORtBnEY8/_1VtnEH9DLwPwAWT29MN1gYejPmAaJPxOOF7EMcwgs*vyChR'"),
 ('corrupt',
  621,
  b'\x00',
  "str '4ec93ba68f98166a5092404613fc939bfa5335f75cd7130a358eeeb17413e525'"),
 ('corrupt', 628, b'x', "str '03942c190b78bdd1849543bdf793b04b03532f74a1f8bfbd1f33aec24d373e11'"),
 ('corrupt',
  628,
  b'\xff',
  "raised construct.core.StringError: cannot use encoding 'ascii' to decode b'                  "
  "x2yU_9enPLz*7l-uZN-PtTi9U_VY2tm.TENgecjwmSmdcrGxPDk2MEcgCNQGul67YSH7aS81ZSJLYLZe9oVygST/i_*wsVa3B15oR.GnMy-*tck0sFD*/y2F/p.IMpn_w5GPu/GFsdr2atsQv4n*6o\\xffPP0bY.1cBL/.o9HGiN4IX2HWc8EglTGrFyORtBnEY8/_1VtnEH9DLwPwAWT29MN1gYejPmAaJPxOOF7EMcwgs*vyChR'"),
 ('corrupt',
  628,
  b'\x00',
  "str '2620893427049a40cf7ff714f4ceb6d462886e95a9fac2f25a4240fb83a9842f'"),
 ('corrupt', 635, b'x', "str '5d2c16e8d5cdcd15386a4bca63edc49843e386939eee9af2a8d26d1fa9bd2d0f'"),
 ('corrupt',
  635,
  b'\xff',
  "raised construct.core.StringError: cannot use encoding 'ascii' to decode b'                  "
  "x2yU_9enPLz*7l-uZN-PtTi9U_VY2tm.TENgecjwmSmdcrGxPDk2MEcgCNQGul67YSH7aS81ZSJLYLZe9oVygST/i_*wsVa3B15oR.GnMy-*tck0sFD*/y2F/p.IMpn_w5GPu/GFsdr2atsQv4n*6oxPP0bY.\\xffcBL/.o9HGiN4IX2HWc8EglTGrFyORtBnEY8/_1VtnEH9DLwPwAWT29MN1gYejPmAaJPxOOF7EMcwgs*vyChR'"),
 ('corrupt',
  635,
  b'\x00',
  "str '45f4d6f16d5bd97083860bdc01857831ad3a8412be7c845b5ceb0984a4c2875f'"),
 ('corrupt', 642, b'x', "str 'f35a3ec5dfbca0a0c5cbd60b85e74fe67b1b3dff859b37f77bf5041867a5d1ca'"),
 ('corrupt',
  642,
  b'\xff',
  "raised construct.core.StringError: cannot use encoding 'ascii' to decode b'                  "
  "x2yU_9enPLz*7l-uZN-PtTi9U_VY2tm.TENgecjwmSmdcrGxPDk2MEcgCNQGul67YSH7aS81ZSJLYLZe9oVygST/i_*wsVa3B15oR.GnMy-*tck0sFD*/y2F/p.IMpn_w5GPu/GFsdr2atsQv4n*6oxPP0bY.1cBL/.o\\xffHGiN4IX2HWc8EglTGrFyORtBnEY8/_1VtnEH9DLwPwAWT29MN1gYejPmAaJPxOOF7EMcwgs*vyChR'"),
 ('corrupt',
  642,
  b'\x00',
  "str '5a79aa805aea4141496b58b2d23f1214256beb59272bf3c712ef538387db9b8a'"),
 ('corrupt', 649, b'x', "str 'b42edc2a9605fb3aceb08c82bbf6ccef3e06c79f7557a2c418e4b51ff4bca1e8'"),
 ('corrupt',
  649,
  b'\xff',
  "raised construct.core.StringError: cannot use encoding 'ascii' to decode b'                  "
  "x2yU_9enPLz*7l-uZN-PtTi9U_VY2tm.TENgecjwmSmdcrGxPDk2MEcgCNQGul67YSH7aS81ZSJLYLZe9oVygST/i_*wsVa3B15oR.GnMy-*tck0sFD*/y2F/p.IMpn_w5GPu/GFsdr2atsQv4n*6oxPP0bY.1cBL/.o9HGiN4I\\xff2HWc8EglTGrFyORtBnEY8/_1VtnEH9DLwPwAWT29MN1gYejPmAaJPxOOF7EMcwgs*vyChR'"),
 ('corrupt',
  649,
  b'\x00',
  "str '1da12ae362386f2d0fe5860ef6f3a082e189be0af5fc7195efb255c35eacf83a'"),
 ('corrupt', 656, b'x', "str 'ac90e8c0404a0379f015b949b1c3491c627b97b48c38180fe3f6941677a80f07'"),
 ('corrupt',
  656,
  b'\xff',
  "raised construct.core.StringError: cannot use encoding 'ascii' to decode b'                  "
  "x2yU_9enPLz*7l-uZN-PtTi9U_VY2tm.TENgecjwmSmdcrGxPDk2MEcgCNQGul67YSH7aS81ZSJLYLZe9oVygST/i_*wsVa3B15oR.GnMy-*tck0sFD*/y2F/p.IMpn_w5GPu/GFsdr2atsQv4n*6oxPP0bY.1cBL/.o9HGiN4IX2HWc8E\\xfflTGrFyORtBnEY8/_1VtnEH9DLwPwAWT29MN1gYejPmAaJPxOOF7EMcwgs*vyChR'"),
 ('corrupt',
  656,
  b'\x00',
  "str 'd592ee181d4a3f43841f1917d49e44798e0a330d5428d33f6e5bf06bb0a7c873'"),
 ('corrupt', 663, b'x', "str '53be1772d39a6b2346fbf53dc0b4ed20d6c361d40f30f75517555c0a8ac58fe5'"),
 ('corrupt',
  663,
  b'\xff',
  "raised construct.core.StringError: cannot use encoding 'ascii' to decode b'                  "
  "x2yU_9enPLz*7l-uZN-PtTi9U_VY2tm.TENgecjwmSmdcrGxPDk2MEcgCNQGul67YSH7aS81ZSJLYLZe9oVygST/i_*wsVa3B15oR.GnMy-*tck0sFD*/y2F/p.IMpn_w5GPu/GFsdr2atsQv4n*6oxPP0bY.1cBL/.o9HGiN4IX2HWc8EglTGrFy\\xffRtBnEY8/_1VtnEH9DLwPwAWT29MN1gYejPmAaJPxOOF7EMcwgs*vyChR'"),
 ('corrupt',
  663,
  b'\x00',
  "str 'cfd707b77691608f36ba340587670aa0b972b593bb617aa0e3239f2cfa383e9f'"),
 ('corrupt', 670, b'x', "str '1065a0c3eca109bfd53797b3ff87625d1f212089c881382f5d37ae3b53a726e8'"),
 ('corrupt',
  670,
  b'\xff',
  "raised construct.core.StringError: cannot use encoding 'ascii' to decode b'                  "
  "x2yU_9enPLz*7l-uZN-PtTi9U_VY2tm.TENgecjwmSmdcrGxPDk2MEcgCNQGul67YSH7aS81ZSJLYLZe9oVygST/i_*wsVa3B15oR.GnMy-*tck0sFD*/y2F/p.IMpn_w5GPu/GFsdr2atsQv4n*6oxPP0bY.1cBL/.o9HGiN4IX2HWc8EglTGrFyORtBnEY\\xff/_1VtnEH9DLwPwAWT29MN1gYejPmAaJPxOOF7EMcwgs*vyChR'"),
 ('corrupt',
  670,
  b'\x00',
  "str '5cdca9f12da742734b335c4b63bdaef5c4e824573671ce880abac0859037a8f6'"),
 ('corrupt', 677, b'x', "str '6e3c4ebf4beea12fa24f4c00d94927ae4176feef2098bcb02d98c190bd9fe77d'"),
 ('corrupt',
  677,
  b'\xff',
  "raised construct.core.StringError: cannot use encoding 'ascii' to decode b'                  "
  "x2yU_9enPLz*7l-uZN-PtTi9U_VY2tm.TENgecjwmSmdcrGxPDk2MEcgCNQGul67YSH7aS81ZSJLYLZe9oVygST/i_*wsVa3B15oR.GnMy-*tck0sFD*/y2F/p.IMpn_w5GPu/GFsdr2atsQv4n*6oxPP0bY.1cBL/.o9HGiN4IX2HWc8EglTGrFyORtBnEY8/_1Vtn\\xffH9DLwPwAWT29MN1gYejPmAaJPxOOF7EMcwgs*vyChR'"),
 ('corrupt',
  677,
  b'\x00',
  "str 'e895262255ee157bc8a434e1dbc9f84d42954c0af2b678e36a3860dd3fc04fb7'"),
 ('corrupt', 684, b'x', "str '9f010a1ff8ddc6cb065b78035fefe06fb729a090d42affb0ba4e9d9b1860ee90'"),
 ('corrupt',
  684,
  b'\xff',
  "raised construct.core.StringError: cannot use encoding 'ascii' to decode b'                  "
  "x2yU_9enPLz*7l-uZN-PtTi9U_VY2tm.TENgecjwmSmdcrGxPDk2MEcgCNQGul67YSH7aS81ZSJLYLZe9oVygST/i_*wsVa3B15oR.GnMy-*tck0sFD*/y2F/p.IMpn_w5GPu/GFsdr2atsQv4n*6oxPP0bY.1cBL/.o9HGiN4IX2HWc8EglTGrFyORtBnEY8/_1VtnEH9DLwP\\xffAWT29MN1gYejPmAaJPxOOF7EMcwgs*vyChR'"),
 ('corrupt',
  684,
  b'\x00',
  "str '04e08d86ead7140fdd2001948ef4e292753280b2e1ea0a7cccf889e6c3ab2d56'"),
 ('corrupt', 691, b'x', "str '1b39fce5c8a1e2efc54f0dcd66f7cb61c84307a0bd37f45d8835628995ba3a3b'"),
 ('corrupt',
  691,
  b'\xff',
  "raised construct.core.StringError: cannot use encoding 'ascii' to decode b'                  "
  "x2yU_9enPLz*7l-uZN-PtTi9U_VY2tm.TENgecjwmSmdcrGxPDk2MEcgCNQGul67YSH7aS81ZSJLYLZe9oVygST/i_*wsVa3B15oR.GnMy-*tck0sFD*/y2F/p.IMpn_w5GPu/GFsdr2atsQv4n*6oxPP0bY.1cBL/.o9HGiN4IX2HWc8EglTGrFyORtBnEY8/_1VtnEH9DLwPwAWT29M\\xff1gYejPmAaJPxOOF7EMcwgs*vyChR'"),
 ('corrupt',
  691,
  b'\x00',
  "str 'c2989d28147808c2c1828de424b9bd71964bdcbefe9598432a0f7d708efa47b9'"),
 ('corrupt', 698, b'x', "str '07164d73f20be7e99ebc167cfb900927d91c59228dfe143cc49cfd417c061c92'"),
 ('corrupt',
  698,
  b'\xff',
  "raised construct.core.StringError: cannot use encoding 'ascii' to decode b'                  "
  "x2yU_9enPLz*7l-uZN-PtTi9U_VY2tm.TENgecjwmSmdcrGxPDk2MEcgCNQGul67YSH7aS81ZSJLYLZe9oVygST/i_*wsVa3B15oR.GnMy-*tck0sFD*/y2F/p.IMpn_w5GPu/GFsdr2atsQv4n*6oxPP0bY.1cBL/.o9HGiN4IX2HWc8EglTGrFyORtBnEY8/_1VtnEH9DLwPwAWT29MN1gYejP\\xffAaJPxOOF7EMcwgs*vyChR'"),
 ('corrupt',
  698,
  b'\x00',
  "str 'fcda13ff8dccfba18e421199e3274512b7f2353f7e92d14017a70eb354fe3132'"),
 ('corrupt', 705, b'x', "str '44b168a0b8c14e6e6bb98340885fb67f89f9e8338e999e012c074a41b793e816'"),
 ('corrupt',
  705,
  b'\xff',
  "raised construct.core.StringError: cannot use encoding 'ascii' to decode b'                  "
  "x2yU_9enPLz*7l-uZN-PtTi9U_VY2tm.TENgecjwmSmdcrGxPDk2MEcgCNQGul67YSH7aS81ZSJLYLZe9oVygST/i_*wsVa3B15oR.GnMy-*tck0sFD*/y2F/p.IMpn_w5GPu/GFsdr2atsQv4n*6oxPP0bY.1cBL/.o9HGiN4IX2HWc8EglTGrFyORtBnEY8/_1VtnEH9DLwPwAWT29MN1gYejPmAaJPxO\\xffF7EMcwgs*vyChR'"),
 ('corrupt',
  705,
  b'\x00',
  "str 'dca83d1cbb03f65c6de7027e4e680dc73f08095462e94685cb3eb74ed24dd2bc'"),
 ('corrupt', 712, b'x', "str 'fd0e73c8e62b317d476e2f0af1a98b4988f542bff4193cfb977e0f1e2e346a8b'"),
 ('corrupt',
  712,
  b'\xff',
  "raised construct.core.StringError: cannot use encoding 'ascii' to decode b'                  "
  "x2yU_9enPLz*7l-uZN-PtTi9U_VY2tm.TENgecjwmSmdcrGxPDk2MEcgCNQGul67YSH7aS81ZSJLYLZe9oVygST/i_*wsVa3B15oR.GnMy-*tck0sFD*/y2F/p.IMpn_w5GPu/GFsdr2atsQv4n*6oxPP0bY.1cBL/.o9HGiN4IX2HWc8EglTGrFyORtBnEY8/_1VtnEH9DLwPwAWT29MN1gYejPmAaJPxOOF7EMcw\\xffs*vyChR'"),
 ('corrupt',
  712,
  b'\x00',
  "str 'd4a25cd0f83b368fbbbc74b412d5eecd73d445dafa5f35dfd86c9e85726d95fd'"),
 ('corrupt', 719, b'x', "str 'cb1f6b8ee74b5716c8de90a26f02caeb2f0753bf0ee40b3da8b798161ba23684'"),
 ('corrupt',
  719,
  b'\xff',
  "raised construct.core.StringError: cannot use encoding 'ascii' to decode b'                  "
  "x2yU_9enPLz*7l-uZN-PtTi9U_VY2tm.TENgecjwmSmdcrGxPDk2MEcgCNQGul67YSH7aS81ZSJLYLZe9oVygST/i_*wsVa3B15oR.GnMy-*tck0sFD*/y2F/p.IMpn_w5GPu/GFsdr2atsQv4n*6oxPP0bY.1cBL/.o9HGiN4IX2HWc8EglTGrFyORtBnEY8/_1VtnEH9DLwPwAWT29MN1gYejPmAaJPxOOF7EMcwgs*vyCh\\xff'"),
 ('corrupt',
  719,
  b'\x00',
  "str '9f96c72e325c85885c4821f412455c515b46292c6d0aa9d356674ae7d34a08f6'"),
 ('build', 'raised builtins.NotImplementedError: '),
 ('read_file_descriptor',
  "str 'c2c27a3e8f4d6b369ab18335fd1012518b2f97ad2463933d588b0205aac93d08'",
  [('read', (720,), 0)]),
 ('read_file_descriptor short',
  'raised construct.core.StreamError: Error in path (parsing) -> record_length_location\n'
  'stream read less than specified amount, expected 8, found 0',
  [('read', (720,), 0)]),
 ('parse_chunk dispatch', 0, 'raised builtins.ValueError: unknown record type code: 0'),
 ('parse_chunk dispatch', 9, 'raised builtins.ValueError: unknown record type code: 9'),
 ('parse_chunk dispatch',
  10,
  'raised construct.core.StreamError: Error in path (parsing) -> sar_image_data_line_number\n'
  'stream read less than specified amount, expected 4, found 0'),
 ('parse_chunk dispatch',
  11,
  'raised construct.core.StreamError: Error in path (parsing) -> sar_image_data_line_number\n'
  'stream read less than specified amount, expected 4, found 0'),
 ('parse_chunk dispatch', 12, 'raised builtins.ValueError: unknown record type code: 12'),
 ('parse_chunk dispatch', 255, 'raised builtins.ValueError: unknown record type code: 255'),
 ('construct', '2.10.70')]


def test_equivalence():
    observed = observe()
    assert len(observed) == len(EXPECTED)
    for actual, expected in zip(observed, EXPECTED):
        assert actual == expected
    assert observed == EXPECTED


if __name__ == "__main__":
    test_equivalence()
    print(f"ok: {len(EXPECTED)} observations identical")
