"""Equivalence check for refactoring 2: ``ceos_alos2.sar_image.open_image``.

Run as::

    cd /tmp/wt9/e71 && PYTHONPATH=/tmp/wt9/e71 /venv/bin/python _eq/2/equiv.py

(or through pytest). ``EXPECTED`` was recorded from the unchanged code with
``python _eq/2/equiv.py --record``; the script has to pass with and without the patch.
"""

import datetime
import hashlib
import pathlib
import pprint
import shutil
import struct
import sys
import tempfile

import fsspec
import numpy as np
from fsspec.implementations.memory import MemoryFileSystem

import ceos_alos2.sar_image as sar_image
from ceos_alos2.array import Array
from ceos_alos2.hierarchy import Group, Variable
from ceos_alos2.sar_image import caching
from ceos_alos2.sar_image.caching import CachingError

LOG = []
SCRUB = []  # run-specific strings (temporary cache directory) removed from recorded text


# --------------------------------------------------------------------------- helpers
def describe_exception(exc):
    if exc is None:
        return None
    return {
        "type": f"{type(exc).__module__}.{type(exc).__qualname__}",
        "message": str(exc),
        "args": repr(exc.args),
        "cause": describe_exception(exc.__cause__),
        "context": describe_exception(exc.__context__),
        "suppress_context": exc.__suppress_context__,
    }


def canon(obj):
    if isinstance(obj, Group):
        return {
            "Group": {
                "path": obj.path,
                "url": obj.url,
                "attrs": canon(obj.attrs),
                "data": [(name, canon(value)) for name, value in obj.data.items()],
            }
        }
    if isinstance(obj, Variable):
        return {"Variable": [canon(obj.dims), canon(obj.data), canon(obj.attrs)]}
    if isinstance(obj, Array):
        return {
            "Array": {
                "fs": [type(obj.fs).__name__, getattr(obj.fs, "path", None), type(obj.fs.fs).__name__],
                "url": obj.url,
                "byte_ranges": canon(obj.byte_ranges),
                "shape": canon(obj.shape),
                "dtype": [type(obj.dtype).__name__, str(obj.dtype)],
                "type_code": obj.type_code,
                "records_per_chunk": canon(obj.records_per_chunk),
                "chunk_offsets": canon(obj.chunk_offsets),
            }
        }
    if isinstance(obj, np.ndarray):
        return {"ndarray": [str(obj.dtype), list(obj.shape), [str(v) for v in obj.ravel()]]}
    if isinstance(obj, np.generic):
        return {"npscalar": [type(obj).__name__, str(obj)]}
    if isinstance(obj, dict):
        return {"dict": [(canon(k), canon(v)) for k, v in obj.items()]}
    if isinstance(obj, (list, tuple)):
        return {type(obj).__name__: [canon(v) for v in obj]}
    if isinstance(obj, (datetime.datetime, float, int, str, bytes, bool, type(None))):
        return f"{type(obj).__name__}:{obj!r}"
    return f"?{type(obj).__name__}:{obj!r}"


def compact(value, limit=300):
    text = repr(value)
    for string in SCRUB:
        text = text.replace(string, "<TMP>")
    if len(text) <= limit:
        return text
    return f"sha256:{hashlib.sha256(text.encode()).hexdigest()} len={len(text)}"


def make_record(kind, seq, length, *, line=1, year=2020, day=170, ms=1234, type_code=None):
    prefix = {10: 544, 11: 192}[kind]
    buf = bytearray(max(length, prefix))
    buf[0:4] = struct.pack(">I", seq)
    buf[4] = 50
    buf[5] = kind if type_code is None else type_code
    buf[6] = 18
    buf[7] = 20
    buf[8:12] = struct.pack(">I", length)
    buf[12:16] = struct.pack(">I", line)
    buf[16:20] = struct.pack(">I", 1)
    buf[36:48] = struct.pack(">III", year, day, ms + seq)
    buf[48:50] = struct.pack(">H", 2)
    buf[52:56] = struct.pack(">HH", 0, 1)
    buf[56:60] = struct.pack(">I", 2_000_000 + seq)
    buf[60:64] = struct.pack(">I", 3)
    if kind == 10:
        buf[84:92] = struct.pack(">Q", 1_000_000 * seq + 17)
        buf[284:288] = struct.pack(">I", 700)
    else:
        buf[64:68] = struct.pack(">I", 750_000 + seq)
    for index in range(prefix, len(buf)):
        buf[index] = (index * 7 + seq) % 251
    return bytes(buf)


def make_descriptor(n_records, record_length, *, type_code, lines, groups, max_range="", bursts=""):
    buf = bytearray(b" " * 720)
    buf[0:12] = struct.pack(">IBBBBI", 1, 50, 192, 18, 18, 720)

    def put(offset, width, value):
        buf[offset : offset + width] = str(value).rjust(width).encode()

    put(180, 6, n_records)
    put(186, 6, record_length)
    put(232, 4, 1)
    put(236, 8, lines)
    put(248, 8, groups)
    buf[268:272] = b"BSQ "
    buf[428:432] = type_code.ljust(4).encode()
    put(440, 8, max_range)
    put(448, 4, bursts)
    put(452, 4, bursts)
    put(456, 4, bursts)
    return bytes(buf)


def make_image(kind, n, *, record_length, **kwargs):
    groups = (record_length - {10: 544, 11: 192}[kind]) // {10: 8, 11: 2}[kind]
    descriptor = make_descriptor(
        kwargs.pop("declared", n),
        kwargs.pop("declared_length", record_length),
        type_code={10: "C*8", 11: "IU2"}[kind],
        lines=n,
        groups=groups,
        **kwargs,
    )
    return descriptor + b"".join(
        make_record(kind, i + 1, record_length, line=i + 1) for i in range(n)
    )


class LoggedFile:
    """proxy around the memory file that records what is done with it"""

    def __init__(self, f, path):
        self._f = f
        self._path = path

    def __enter__(self):
        LOG.append(("enter", self._path))
        self._f.__enter__()
        return self

    def __exit__(self, exc_type, exc, tb):
        LOG.append(("exit", self._path, None if exc_type is None else exc_type.__name__))
        return self._f.__exit__(exc_type, exc, tb)

    def read(self, size=-1):
        position = self._f.tell()
        data = self._f.read(size)
        LOG.append(("read", position, size, len(data)))
        return data

    def seek(self, *args):
        LOG.append(("seek", *args))
        return self._f.seek(*args)

    def tell(self):
        return self._f.tell()

    def close(self):
        LOG.append(("close", self._path))
        return self._f.close()

    @property
    def closed(self):
        return self._f.closed


class LoggedMemoryFileSystem(MemoryFileSystem):
    protocol = "loggedmemory"
    store = {}
    pseudo_dirs = [""]
    cachable = False

    def _open(self, path, mode="rb", **kwargs):
        LOG.append(("open", path, mode))
        return LoggedFile(super()._open(path, mode=mode, **kwargs), path)


fsspec.register_implementation("loggedmemory", LoggedMemoryFileSystem, clobber=True)

SLC = "IMG-HH-ALOS2225333100-180726-WWDR1.1__D-B3"
GRD = "IMG-HV-ALOS2290760600-191011-WWDR1.5RUA"
BADNAME = "image.bin"
ROOT = "loggedmemory://products/0000"


def make_mapper():
    LoggedMemoryFileSystem.store.clear()
    LoggedMemoryFileSystem.pseudo_dirs[:] = [""]
    mapper = fsspec.get_mapper(ROOT)
    fs = mapper.fs
    fs.pipe(f"{mapper.root}/{SLC}", make_image(10, 5, record_length=576, bursts=3))
    fs.pipe(f"{mapper.root}/{GRD}", make_image(11, 7, record_length=204, max_range=4095))
    fs.pipe(f"{mapper.root}/{BADNAME}", make_image(11, 2, record_length=204))
    fs.pipe(f"{mapper.root}/IMG-VV-ALOS2225333100-180726-WWDR1.1__D-F1", make_image(10, 0, record_length=576))
    fs.pipe(
        f"{mapper.root}/IMG-HH-ALOS2290760600-191011-WWDR1.5RUA",
        make_image(11, 3, record_length=204).replace(b"IU2 ", b"F*4 "),
    )
    fs.pipe(
        f"{mapper.root}/IMG-VH-ALOS2290760600-191011-WWDR1.5RUA",
        make_descriptor(3, 204, type_code="IU2", lines=3, groups=6)
        + make_record(11, 1, 204)
        + make_record(11, 2, 204, type_code=42)
        + make_record(11, 3, 204),
    )
    fs.pipe(
        f"{mapper.root}/IMG-VV-ALOS2290760600-191011-WWDR1.5RUA",
        make_image(11, 3, record_length=204)[:-50],
    )
    fs.pipe(f"{mapper.root}/IMG-HH-ALOS2290760600-191011-WWDR1.5RUD", b"\x00" * 100)
    LOG.clear()
    return mapper


def run_open(mapper, path, **kwargs):
    LOG.clear()
    try:
        result = sar_image.open_image(mapper, path, **kwargs)
    except BaseException as e:  # noqa: B902
        out = {"raised": compact(describe_exception(e), limit=2000)}
    else:
        out = {"returned": compact(canon(result)), "type": type(result).__name__}
    out["log"] = compact(list(LOG))
    LOG.clear()
    return out


class Patched:
    def __init__(self, target, name, value):
        self.target, self.name, self.value = target, name, value

    def __enter__(self):
        self.old = getattr(self.target, self.name)
        setattr(self.target, self.name, self.value)

    def __exit__(self, *exc_info):
        setattr(self.target, self.name, self.old)
        return False


def cache_files(cache_root):
    return sorted(
        (str(p.relative_to(cache_root)), hashlib.sha256(p.read_bytes()).hexdigest()[:16])
        for p in cache_root.rglob("*")
        if p.is_file()
    )


# --------------------------------------------------------------------------- scenarios
def real_scenarios(cache_root):
    results = {}
    mapper = make_mapper()

    # no cache anywhere: falls back to reading the file
    for rpc in (1, 2, 3, 1024, 4096):
        for path in (SLC, GRD):
            results[f"nocache-{path[4:6]}-rpc{rpc}"] = run_open(mapper, path, records_per_chunk=rpc)
            results[f"nousecache-{path[4:6]}-rpc{rpc}"] = run_open(
                mapper, path, use_cache=False, records_per_chunk=rpc
            )
    results["cache-dir-after-plain-reads"] = cache_files(cache_root)

    # defaults and unusable chunk sizes (the file is opened, then closed on the error)
    results["default-rpc"] = run_open(mapper, GRD)
    results["default-rpc-nocache"] = run_open(mapper, GRD, use_cache=False)
    results["rpc-zero"] = run_open(mapper, GRD, records_per_chunk=0)
    results["rpc-negative"] = run_open(mapper, GRD, records_per_chunk=-1)
    results["rpc-str"] = run_open(mapper, GRD, records_per_chunk="auto")
    results["rpc-float"] = run_open(mapper, GRD, records_per_chunk=2.5)

    # failures while reading
    results["missing-file"] = run_open(mapper, "IMG-HH-ALOS2225333100-180726-WWDR1.1__D-B1", records_per_chunk=2)
    results["bad-name"] = run_open(mapper, BADNAME, records_per_chunk=2)
    results["bad-name-create"] = run_open(mapper, BADNAME, records_per_chunk=2, create_cache=True)
    results["empty-image"] = run_open(
        mapper, "IMG-VV-ALOS2225333100-180726-WWDR1.1__D-F1", records_per_chunk=2
    )
    results["unknown-type-code"] = run_open(
        mapper, "IMG-HH-ALOS2290760600-191011-WWDR1.5RUA", records_per_chunk=2, create_cache=True
    )
    results["unknown-record-type"] = run_open(
        mapper, "IMG-VH-ALOS2290760600-191011-WWDR1.5RUA", records_per_chunk=1, create_cache=True
    )
    results["truncated"] = run_open(
        mapper, "IMG-VV-ALOS2290760600-191011-WWDR1.5RUA", records_per_chunk=2, create_cache=True
    )
    results["truncated-descriptor"] = run_open(
        mapper, "IMG-HH-ALOS2290760600-191011-WWDR1.5RUD", records_per_chunk=2, create_cache=True
    )
    results["cache-dir-after-failures"] = cache_files(cache_root)

    # create the local cache, then read it back
    results["create-slc"] = run_open(mapper, SLC, records_per_chunk=2, create_cache=True)
    results["cache-dir-after-create-slc"] = cache_files(cache_root)
    results["cached-slc"] = run_open(mapper, SLC, records_per_chunk=2)
    results["cached-slc-rpc3"] = run_open(mapper, SLC, records_per_chunk=3)
    results["cached-slc-default"] = run_open(mapper, SLC)
    results["cached-slc-ignored"] = run_open(mapper, SLC, use_cache=False, records_per_chunk=2)
    results["cached-slc-recreate"] = run_open(mapper, SLC, create_cache=True, records_per_chunk=4)
    results["cached-slc-overwrite"] = run_open(
        mapper, SLC, use_cache=False, create_cache=True, records_per_chunk=4
    )
    results["cache-dir-after-overwrite"] = cache_files(cache_root)
    results["grd-still-uncached"] = run_open(mapper, GRD, records_per_chunk=2)

    # remote cache next to the image
    local = caching.path.local_cache_location(mapper.root, SLC)
    mapper[f"{GRD}.index"] = local.read_bytes().replace(SLC.encode(), GRD.encode())
    results["remote-cache"] = run_open(mapper, GRD, records_per_chunk=2)
    results["remote-cache-ignored"] = run_open(mapper, GRD, records_per_chunk=2, use_cache=False)

    # broken caches: CachingError -> fallback, anything else propagates
    good = local.read_text()
    local.write_text(good[: len(good) // 2])
    results["local-cache-incomplete"] = run_open(mapper, SLC, records_per_chunk=2)
    local.write_text("")
    results["local-cache-empty"] = run_open(mapper, SLC, records_per_chunk=2)
    results["local-cache-empty-create"] = run_open(mapper, SLC, records_per_chunk=2, create_cache=True)
    results["local-cache-repaired"] = run_open(mapper, SLC, records_per_chunk=2)
    local.write_text("{}")
    results["local-cache-wrong-structure"] = run_open(mapper, SLC, records_per_chunk=2)
    local.write_text("[1, 2, 3]")
    results["local-cache-wrong-structure2"] = run_open(mapper, SLC, records_per_chunk=2)
    local.write_bytes(b"\xff\xfe\x00")
    results["local-cache-not-text"] = run_open(mapper, SLC, records_per_chunk=2)
    local.unlink()
    local.mkdir()
    results["local-cache-is-directory"] = run_open(mapper, SLC, records_per_chunk=2)
    results["local-cache-is-directory-create"] = run_open(
        mapper, SLC, records_per_chunk=2, create_cache=True
    )
    local.rmdir()
    mapper[f"{GRD}.index"] = b"{"
    results["remote-cache-incomplete"] = run_open(mapper, GRD, records_per_chunk=2)
    mapper[f"{GRD}.index"] = b"\xff{"
    results["remote-cache-not-text"] = run_open(mapper, GRD, records_per_chunk=2)
    results["cache-dir-final"] = cache_files(cache_root)

    return results


def stub_scenarios(cache_root):
    """replace the collaborators to pin down call order, arguments and error paths"""
    results = {}

    class SubCachingError(CachingError):
        pass

    def reading(behaviour):
        def read_cache(*args, **kwargs):
            LOG.append(("read_cache", len(args), sorted(kwargs), kwargs.get("records_per_chunk")))
            if isinstance(behaviour, BaseException):
                raise behaviour
            return behaviour

        return read_cache

    def create_cache(mapper, path, data):
        LOG.append(("create_cache", path, type(data).__name__, data.path, sorted(data.data)))

    def failing_create_cache(mapper, path, data):
        LOG.append(("create_cache", path, data.path, sorted(data.data)))
        raise PermissionError("read-only cache directory")

    behaviours = {
        "group": Group(path="cached", url=None, data={}, attrs={"from": "cache"}),
        "none": None,
        "zero": 0,
        "empty-dict": {},
        "caching-error": CachingError("no cache found for x"),
        "sub-caching-error": SubCachingError("subclass"),
        "file-not-found": FileNotFoundError("plain"),
        "os-error": OSError("os"),
        "key-error": KeyError("k"),
        "value-error": ValueError("v"),
        "keyboard-interrupt": KeyboardInterrupt(),
        "exception-group": ExceptionGroup("eg", [CachingError("inner")]),
    }
    for name, behaviour in behaviours.items():
        for create in (False, True):
            mapper = make_mapper()
            with Patched(caching, "read_cache", reading(behaviour)), Patched(
                caching, "create_cache", create_cache
            ):
                key = f"stub-read_cache-{name}-create{int(create)}"
                results[key] = run_open(mapper, GRD, records_per_chunk=3, create_cache=create)
        mapper = make_mapper()
        with Patched(caching, "read_cache", reading(behaviour)):
            results[f"stub-read_cache-{name}-unused"] = run_open(
                mapper, GRD, records_per_chunk=3, use_cache=False
            )

    # errors after a failed cache lookup carry no exception context
    mapper = make_mapper()
    with Patched(caching, "read_cache", reading(CachingError("nope"))):
        results["context-missing-file"] = run_open(mapper, "IMG-HH-nothing", records_per_chunk=3)
        results["context-bad-name"] = run_open(mapper, BADNAME, records_per_chunk=3)
        with Patched(caching, "create_cache", failing_create_cache):
            results["context-create-fails"] = run_open(
                mapper, GRD, records_per_chunk=3, create_cache=True
            )

    # collaborators of the reading step
    def logged_read_metadata(result):
        def read_metadata(*args, **kwargs):
            LOG.append(("read_metadata", type(args[0]).__name__, args[1:], kwargs))
            args[0].read(5)
            if isinstance(result, BaseException):
                raise result
            return result

        return read_metadata

    def logged_transform(result):
        def transform_metadata(*args, **kwargs):
            LOG.append(("transform_metadata", args, kwargs))
            if isinstance(result, BaseException):
                raise result
            return result

        return transform_metadata

    def group():
        return Group(path=None, url=None, data={}, attrs={"a": 1})

    array_metadata = {
        "type_code": "IU2",
        "shape": (2, 3),
        "dtype": "uint16",
        "byte_ranges": [(10, 16), (26, 32)],
    }
    combos = {
        "ok": (("h", "m"), (group(), array_metadata)),
        "read-raises": (RuntimeError("read"), (group(), array_metadata)),
        "read-returns-3": (("h", "m", "x"), (group(), array_metadata)),
        "read-returns-none": (None, (group(), array_metadata)),
        "transform-raises": (("h", "m"), LookupError("transform")),
        "transform-returns-3": (("h", "m"), (group(), array_metadata, None)),
        "transform-returns-none": (("h", "m"), None),
        "array-metadata-extra-key": (("h", "m"), (group(), array_metadata | {"bogus": 1})),
        "array-metadata-missing-key": (("h", "m"), (group(), {"type_code": "IU2"})),
        "array-metadata-clash": (("h", "m"), (group(), array_metadata | {"url": "other"})),
        "array-metadata-not-mapping": (("h", "m"), (group(), [1, 2])),
        "group-is-dict": (("h", "m"), ({}, array_metadata)),
        "group-is-none": (("h", "m"), (None, array_metadata)),
    }
    for name, (read_result, transform_result) in combos.items():
        for create in (False, True):
            mapper = make_mapper()
            with Patched(sar_image, "read_metadata", logged_read_metadata(read_result)), Patched(
                sar_image, "transform_metadata", logged_transform(transform_result)
            ), Patched(caching, "create_cache", create_cache), Patched(
                caching, "read_cache", reading(CachingError("none"))
            ):
                results[f"stub-reading-{name}-create{int(create)}"] = run_open(
                    mapper, SLC, records_per_chunk=7, create_cache=create
                )

    # the error class caught is the one bound in the package namespace
    mapper = make_mapper()
    with Patched(sar_image, "CachingError", KeyError), Patched(
        caching, "read_cache", reading(KeyError("treated as missing cache"))
    ):
        results["rebound-error-class"] = run_open(mapper, GRD, records_per_chunk=3)
    with Patched(sar_image, "CachingError", KeyError), Patched(
        caching, "read_cache", reading(CachingError("no longer caught"))
    ):
        results["rebound-error-class-2"] = run_open(mapper, GRD, records_per_chunk=3)

    # a mapper that is not a mapper
    with Patched(caching, "read_cache", reading(CachingError("none"))):
        results["mapper-none"] = run_open(None, GRD, records_per_chunk=3)
        results["mapper-none-nocache"] = run_open(None, GRD, records_per_chunk=3, use_cache=False)
    results["mapper-none-real-cache"] = run_open(None, GRD, records_per_chunk=3)

    results["cache-dir-after-stubs"] = cache_files(cache_root)
    return results


def run():
    tmp = pathlib.Path(tempfile.mkdtemp(prefix="eq2-"))
    SCRUB[:] = [str(tmp)]
    try:
        with Patched(caching.path, "cache_root", tmp):
            results = real_scenarios(tmp)
            for path in sorted(tmp.rglob("*"), reverse=True):
                path.unlink() if path.is_file() else path.rmdir()
            results.update(stub_scenarios(tmp))
    finally:
        shutil.rmtree(tmp, ignore_errors=True)

    text = pprint.pformat(results)
    assert str(tmp) not in text, "temporary directory leaked into the results"

    results["public-names"] = sorted(
        name
        for name in (
            "Array",
            "decode_filename",
            "Variable",
            "caching",
            "CachingError",
            "read_metadata",
            "transform_metadata",
            "filename_to_groupname",
            "open_image",
        )
        if hasattr(sar_image, name)
    )
    results["caching-error-mro"] = [c.__name__ for c in sar_image.CachingError.__mro__]
    results["same-error-class"] = sar_image.CachingError is caching.CachingError

    import inspect

    results["signature"] = str(inspect.signature(sar_image.open_image))
    return results


EXPECTED = None  # filled in below by --record


def test_equivalence():
    assert sar_image.__file__.startswith("/tmp/wt9/e71/"), sar_image.__file__
    actual = run()
    assert sorted(actual) == sorted(EXPECTED)
    for name in EXPECTED:
        assert actual[name] == EXPECTED[name], (
            f"{name}:\n{pprint.pformat(actual[name])}\n!=\n{pprint.pformat(EXPECTED[name])}"
        )


# EXPECTED-BEGIN
EXPECTED = {'bad-name': {'log': "[('open', 'loggedmemory://products/0000/image.bin', 'rb'), ('enter', "
                     "'loggedmemory://products/0000/image.bin'), ('read', 0, 720, 720), ('read', "
                     "720, 408, 408), ('exit', 'loggedmemory://products/0000/image.bin', None)]",
              'raised': "{'type': 'builtins.ValueError', 'message': 'invalid file name: "
                        'image.bin\', \'args\': "(\'invalid file name: image.bin\',)", \'cause\': '
                        "None, 'context': None, 'suppress_context': False}"},
 'bad-name-create': {'log': "[('open', 'loggedmemory://products/0000/image.bin', 'rb'), ('enter', "
                            "'loggedmemory://products/0000/image.bin'), ('read', 0, 720, 720), "
                            "('read', 720, 408, 408), ('exit', "
                            "'loggedmemory://products/0000/image.bin', None)]",
                     'raised': "{'type': 'builtins.ValueError', 'message': 'invalid file name: "
                               'image.bin\', \'args\': "(\'invalid file name: image.bin\',)", '
                               "'cause': None, 'context': None, 'suppress_context': False}"},
 'cache-dir-after-create-slc': [('32c9221983615ea342c4eb1ef044e3f28f6dde7ae34eaa1dd7e4012d834c95fe/IMG-HH-ALOS2225333100-180726-WWDR1.1__D-B3.index',
                                 'ec90939d13cedad0')],
 'cache-dir-after-failures': [],
 'cache-dir-after-overwrite': [('32c9221983615ea342c4eb1ef044e3f28f6dde7ae34eaa1dd7e4012d834c95fe/IMG-HH-ALOS2225333100-180726-WWDR1.1__D-B3.index',
                                'ec90939d13cedad0')],
 'cache-dir-after-plain-reads': [],
 'cache-dir-after-stubs': [],
 'cache-dir-final': [],
 'cached-slc': {'log': '[]',
                'returned': 'sha256:81e6393f6855cebe53ccf17b622c186bb691d8ab2a3bac48eff97f47565786fa '
                            'len=10044',
                'type': 'Group'},
 'cached-slc-default': {'log': '[]',
                        'returned': 'sha256:3bab56af5b2859fe641c9510466fbb45fce43762cd788b711191086b1d90cf74 '
                                    'len=9889',
                        'type': 'Group'},
 'cached-slc-ignored': {'log': 'sha256:4055f83c21f031ded07eeaab7c80a5438af39547819d67151ffccb258540086f '
                               'len=372',
                        'returned': 'sha256:bf79428b1a063014bc98caa4ec8d019052824bae2229d3e18b96d0ab98df0154 '
                                    'len=13469',
                        'type': 'Group'},
 'cached-slc-overwrite': {'log': 'sha256:2407baa6700b8118a13e9ce415e1d370164ab7aa1b64aafd90aa95fba8027451 '
                                 'len=344',
                          'returned': 'sha256:297522ee674914a899f9c8dfd3b76284b6e2965561e42d2c43d9882ae8ecb4fc '
                                      'len=13390',
                          'type': 'Group'},
 'cached-slc-recreate': {'log': '[]',
                         'returned': 'sha256:d1dd3a9d9f696e7a73fc64029f4d9813f1467e764152a03c141b03cf12a79ae7 '
                                     'len=9965',
                         'type': 'Group'},
 'cached-slc-rpc3': {'log': '[]',
                     'returned': 'sha256:00e6a5cb9024eaeab54b11134573bd8311d7ad4123f23ea92b77a1171de76fdb '
                                 'len=9966',
                     'type': 'Group'},
 'caching-error-mro': ['CachingError',
                       'FileNotFoundError',
                       'OSError',
                       'Exception',
                       'BaseException',
                       'object'],
 'context-bad-name': {'log': "[('read_cache', 2, ['records_per_chunk'], 3), ('open', "
                             "'loggedmemory://products/0000/image.bin', 'rb'), ('enter', "
                             "'loggedmemory://products/0000/image.bin'), ('read', 0, 720, 720), "
                             "('read', 720, 408, 408), ('exit', "
                             "'loggedmemory://products/0000/image.bin', None)]",
                      'raised': "{'type': 'builtins.ValueError', 'message': 'invalid file name: "
                                'image.bin\', \'args\': "(\'invalid file name: image.bin\',)", '
                                "'cause': None, 'context': None, 'suppress_context': False}"},
 'context-create-fails': {'log': 'sha256:51287a56db0cbc1753d4270e163b17631f75025e204394fcd05172cd2a9571d2 '
                                 'len=1161',
                          'raised': "{'type': 'builtins.PermissionError', 'message': 'read-only "
                                    'cache directory\', \'args\': "(\'read-only cache '
                                    'directory\',)", \'cause\': None, \'context\': None, '
                                    "'suppress_context': False}"},
 'context-missing-file': {'log': "[('read_cache', 2, ['records_per_chunk'], 3), ('open', "
                                 "'loggedmemory://products/0000/IMG-HH-nothing', 'rb')]",
                          'raised': "{'type': 'builtins.FileNotFoundError', 'message': "
                                    "'loggedmemory://products/0000/IMG-HH-nothing', 'args': "
                                    '"(\'loggedmemory://products/0000/IMG-HH-nothing\',)", '
                                    "'cause': None, 'context': None, 'suppress_context': False}"},
 'create-slc': {'log': 'sha256:4055f83c21f031ded07eeaab7c80a5438af39547819d67151ffccb258540086f '
                       'len=372',
                'returned': 'sha256:bf79428b1a063014bc98caa4ec8d019052824bae2229d3e18b96d0ab98df0154 '
                            'len=13469',
                'type': 'Group'},
 'default-rpc': {'log': "[('open', "
                        "'loggedmemory://products/0000/IMG-HV-ALOS2290760600-191011-WWDR1.5RUA', "
                        "'rb'), ('enter', "
                        "'loggedmemory://products/0000/IMG-HV-ALOS2290760600-191011-WWDR1.5RUA'), "
                        "('read', 0, 720, 720), ('exit', "
                        "'loggedmemory://products/0000/IMG-HV-ALOS2290760600-191011-WWDR1.5RUA', "
                        "'TypeError')]",
                 'raised': '{\'type\': \'builtins.TypeError\', \'message\': "unsupported operand '
                           'type(s) for /: \'int\' and \'NoneType\'", \'args\': \'("unsupported '
                           'operand type(s) for /: \\\'int\\\' and \\\'NoneType\\\'",)\', '
                           "'cause': None, 'context': None, 'suppress_context': False}"},
 'default-rpc-nocache': {'log': "[('open', "
                                "'loggedmemory://products/0000/IMG-HV-ALOS2290760600-191011-WWDR1.5RUA', "
                                "'rb'), ('enter', "
                                "'loggedmemory://products/0000/IMG-HV-ALOS2290760600-191011-WWDR1.5RUA'), "
                                "('read', 0, 720, 720), ('exit', "
                                "'loggedmemory://products/0000/IMG-HV-ALOS2290760600-191011-WWDR1.5RUA', "
                                "'TypeError')]",
                         'raised': '{\'type\': \'builtins.TypeError\', \'message\': "unsupported '
                                   'operand type(s) for /: \'int\' and \'NoneType\'", \'args\': '
                                   '\'("unsupported operand type(s) for /: \\\'int\\\' and '
                                   '\\\'NoneType\\\'",)\', \'cause\': None, \'context\': None, '
                                   "'suppress_context': False}"},
 'empty-image': {'log': "[('open', "
                        "'loggedmemory://products/0000/IMG-VV-ALOS2225333100-180726-WWDR1.1__D-F1', "
                        "'rb'), ('enter', "
                        "'loggedmemory://products/0000/IMG-VV-ALOS2225333100-180726-WWDR1.1__D-F1'), "
                        "('read', 0, 720, 720), ('exit', "
                        "'loggedmemory://products/0000/IMG-VV-ALOS2225333100-180726-WWDR1.1__D-F1', "
                        'None)]',
                 'returned': 'sha256:656b4b23492b16f8c8bcdba9f3862d198c62d55254f739ad58efb8bc7ba78a41 '
                             'len=565',
                 'type': 'Group'},
 'grd-still-uncached': {'log': 'sha256:7c44de846e6c5927bee8661431c808792b77b7d1a5d65e1d874a179a92861197 '
                               'len=385',
                        'returned': 'sha256:d530c77915841041dfbd1c829230a1d686bc5863b5672109353e2c823018a8ff '
                                    'len=7655',
                        'type': 'Group'},
 'local-cache-empty': {'log': 'sha256:4055f83c21f031ded07eeaab7c80a5438af39547819d67151ffccb258540086f '
                              'len=372',
                       'returned': 'sha256:bf79428b1a063014bc98caa4ec8d019052824bae2229d3e18b96d0ab98df0154 '
                                   'len=13469',
                       'type': 'Group'},
 'local-cache-empty-create': {'log': 'sha256:4055f83c21f031ded07eeaab7c80a5438af39547819d67151ffccb258540086f '
                                     'len=372',
                              'returned': 'sha256:bf79428b1a063014bc98caa4ec8d019052824bae2229d3e18b96d0ab98df0154 '
                                          'len=13469',
                              'type': 'Group'},
 'local-cache-incomplete': {'log': 'sha256:4055f83c21f031ded07eeaab7c80a5438af39547819d67151ffccb258540086f '
                                   'len=372',
                            'returned': 'sha256:bf79428b1a063014bc98caa4ec8d019052824bae2229d3e18b96d0ab98df0154 '
                                        'len=13469',
                            'type': 'Group'},
 'local-cache-is-directory': {'log': 'sha256:4055f83c21f031ded07eeaab7c80a5438af39547819d67151ffccb258540086f '
                                     'len=372',
                              'returned': 'sha256:bf79428b1a063014bc98caa4ec8d019052824bae2229d3e18b96d0ab98df0154 '
                                          'len=13469',
                              'type': 'Group'},
 'local-cache-is-directory-create': {'log': 'sha256:4055f83c21f031ded07eeaab7c80a5438af39547819d67151ffccb258540086f '
                                            'len=372',
                                     'raised': "{'type': 'builtins.IsADirectoryError', 'message': "
                                               '"[Errno 21] Is a directory: '
                                               '\'<TMP>/32c9221983615ea342c4eb1ef044e3f28f6dde7ae34eaa1dd7e4012d834c95fe/IMG-HH-ALOS2225333100-180726-WWDR1.1__D-B3.index\'", '
                                               '\'args\': "(21, \'Is a directory\')", \'cause\': '
                                               "None, 'context': None, 'suppress_context': False}"},
 'local-cache-not-text': {'log': '[]',
                          'raised': "{'type': 'builtins.UnicodeDecodeError', 'message': "
                                    '"\'utf-8\' codec can\'t decode byte 0xff in position 0: '
                                    'invalid start byte", \'args\': "(\'utf-8\', '
                                    'b\'\\\\xff\\\\xfe\\\\x00\', 0, 1, \'invalid start byte\')", '
                                    "'cause': None, 'context': None, 'suppress_context': False}"},
 'local-cache-repaired': {'log': '[]',
                          'returned': 'sha256:81e6393f6855cebe53ccf17b622c186bb691d8ab2a3bac48eff97f47565786fa '
                                      'len=10044',
                          'type': 'Group'},
 'local-cache-wrong-structure': {'log': '[]', 'returned': "{'dict': []}", 'type': 'dict'},
 'local-cache-wrong-structure2': {'log': '[]',
                                  'raised': "{'type': 'builtins.AttributeError', 'message': "
                                            '"\'list\' object has no attribute \'get\'", \'args\': '
                                            '\'("\\\'list\\\' object has no attribute '
                                            '\\\'get\\\'",)\', \'cause\': None, \'context\': None, '
                                            "'suppress_context': False}"},
 'mapper-none': {'log': "[('read_cache', 2, ['records_per_chunk'], 3)]",
                 'raised': '{\'type\': \'builtins.AttributeError\', \'message\': "\'NoneType\' '
                           'object has no attribute \'root\'", \'args\': \'("\\\'NoneType\\\' '
                           'object has no attribute \\\'root\\\'",)\', \'cause\': None, '
                           "'context': None, 'suppress_context': False}"},
 'mapper-none-nocache': {'log': '[]',
                         'raised': "{'type': 'builtins.AttributeError', 'message': "
                                   '"\'NoneType\' object has no attribute \'root\'", \'args\': '
                                   '\'("\\\'NoneType\\\' object has no attribute '
                                   '\\\'root\\\'",)\', \'cause\': None, \'context\': None, '
                                   "'suppress_context': False}"},
 'mapper-none-real-cache': {'log': '[]',
                            'raised': "{'type': 'builtins.AttributeError', 'message': "
                                      '"\'NoneType\' object has no attribute \'root\'", \'args\': '
                                      '\'("\\\'NoneType\\\' object has no attribute '
                                      '\\\'root\\\'",)\', \'cause\': None, \'context\': None, '
                                      "'suppress_context': False}"},
 'missing-file': {'log': "[('open', "
                         "'loggedmemory://products/0000/IMG-HH-ALOS2225333100-180726-WWDR1.1__D-B1', "
                         "'rb')]",
                  'raised': "{'type': 'builtins.FileNotFoundError', 'message': "
                            "'loggedmemory://products/0000/IMG-HH-ALOS2225333100-180726-WWDR1.1__D-B1', "
                            "'args': "
                            '"(\'loggedmemory://products/0000/IMG-HH-ALOS2225333100-180726-WWDR1.1__D-B1\',)", '
                            "'cause': None, 'context': None, 'suppress_context': False}"},
 'nocache-HH-rpc1': {'log': 'sha256:778d5fdd675635efdb9e2d23f10990101e3662ffbab796d93470f9c2a2dfeb7e '
                            'len=420',
                     'returned': 'sha256:5860d643a538309f71f1d456696fa650d37e6ce2819c55bf84a42bed5201c138 '
                                 'len=13625',
                     'type': 'Group'},
 'nocache-HH-rpc1024': {'log': 'sha256:0a3f8d47e26a97a9d7c9d0be150e9e268d0d1198d18b8705fb7dc6a7c9b55019 '
                               'len=318',
                        'returned': 'sha256:3e33512bb72d5fad44f976aeb99670bdb072a8cc6e83baeb85930eb39c95643a '
                                    'len=13311',
                        'type': 'Group'},
 'nocache-HH-rpc2': {'log': 'sha256:4055f83c21f031ded07eeaab7c80a5438af39547819d67151ffccb258540086f '
                            'len=372',
                     'returned': 'sha256:bf79428b1a063014bc98caa4ec8d019052824bae2229d3e18b96d0ab98df0154 '
                                 'len=13469',
                     'type': 'Group'},
 'nocache-HH-rpc3': {'log': 'sha256:dbc54901738724e596938cc5be6c7cc9c0ca3a587d4d99a127c7ed3cf4509ced '
                            'len=346',
                     'returned': 'sha256:1e6535c39c22d12fe2f283174fba32e276ee873e8dba9dbbb0bf744c520d1ca7 '
                                 'len=13391',
                     'type': 'Group'},
 'nocache-HH-rpc4096': {'log': 'sha256:0a3f8d47e26a97a9d7c9d0be150e9e268d0d1198d18b8705fb7dc6a7c9b55019 '
                               'len=318',
                        'returned': 'sha256:3e33512bb72d5fad44f976aeb99670bdb072a8cc6e83baeb85930eb39c95643a '
                                    'len=13311',
                        'type': 'Group'},
 'nocache-HV-rpc1': {'log': 'sha256:45ec4083dce5cef36628977dddd45afbbbdb5f99348d8f441b20499237a680a2 '
                            'len=462',
                     'returned': 'sha256:0afb7a72cad90ad7a78b4730e09c4d2da3a81fa4747f08be0d1caab00c716399 '
                                 'len=7889',
                     'type': 'Group'},
 'nocache-HV-rpc1024': {'log': 'sha256:356022bcab70f71f48226fc1d00129aa6eb08140f3ceaf159c1c33c0011ba2dc '
                               'len=309',
                        'returned': 'sha256:1fd59e14ad830c3998bb1361199493cd21cc7eaed4d178f09b5931e7134b5760 '
                                    'len=7417',
                        'type': 'Group'},
 'nocache-HV-rpc2': {'log': 'sha256:7c44de846e6c5927bee8661431c808792b77b7d1a5d65e1d874a179a92861197 '
                            'len=385',
                     'returned': 'sha256:d530c77915841041dfbd1c829230a1d686bc5863b5672109353e2c823018a8ff '
                                 'len=7655',
                     'type': 'Group'},
 'nocache-HV-rpc3': {'log': 'sha256:9ddb18675c29a2f663b84dfb329af9aa6629f0e92800b917d8a2e747bd4c3731 '
                            'len=359',
                     'returned': 'sha256:b339b0b0effa557329e22a9d259261d507b32c9fabf034622b36e37707e4d653 '
                                 'len=7575',
                     'type': 'Group'},
 'nocache-HV-rpc4096': {'log': 'sha256:356022bcab70f71f48226fc1d00129aa6eb08140f3ceaf159c1c33c0011ba2dc '
                               'len=309',
                        'returned': 'sha256:1fd59e14ad830c3998bb1361199493cd21cc7eaed4d178f09b5931e7134b5760 '
                                    'len=7417',
                        'type': 'Group'},
 'nousecache-HH-rpc1': {'log': 'sha256:778d5fdd675635efdb9e2d23f10990101e3662ffbab796d93470f9c2a2dfeb7e '
                               'len=420',
                        'returned': 'sha256:5860d643a538309f71f1d456696fa650d37e6ce2819c55bf84a42bed5201c138 '
                                    'len=13625',
                        'type': 'Group'},
 'nousecache-HH-rpc1024': {'log': 'sha256:0a3f8d47e26a97a9d7c9d0be150e9e268d0d1198d18b8705fb7dc6a7c9b55019 '
                                  'len=318',
                           'returned': 'sha256:3e33512bb72d5fad44f976aeb99670bdb072a8cc6e83baeb85930eb39c95643a '
                                       'len=13311',
                           'type': 'Group'},
 'nousecache-HH-rpc2': {'log': 'sha256:4055f83c21f031ded07eeaab7c80a5438af39547819d67151ffccb258540086f '
                               'len=372',
                        'returned': 'sha256:bf79428b1a063014bc98caa4ec8d019052824bae2229d3e18b96d0ab98df0154 '
                                    'len=13469',
                        'type': 'Group'},
 'nousecache-HH-rpc3': {'log': 'sha256:dbc54901738724e596938cc5be6c7cc9c0ca3a587d4d99a127c7ed3cf4509ced '
                               'len=346',
                        'returned': 'sha256:1e6535c39c22d12fe2f283174fba32e276ee873e8dba9dbbb0bf744c520d1ca7 '
                                    'len=13391',
                        'type': 'Group'},
 'nousecache-HH-rpc4096': {'log': 'sha256:0a3f8d47e26a97a9d7c9d0be150e9e268d0d1198d18b8705fb7dc6a7c9b55019 '
                                  'len=318',
                           'returned': 'sha256:3e33512bb72d5fad44f976aeb99670bdb072a8cc6e83baeb85930eb39c95643a '
                                       'len=13311',
                           'type': 'Group'},
 'nousecache-HV-rpc1': {'log': 'sha256:45ec4083dce5cef36628977dddd45afbbbdb5f99348d8f441b20499237a680a2 '
                               'len=462',
                        'returned': 'sha256:0afb7a72cad90ad7a78b4730e09c4d2da3a81fa4747f08be0d1caab00c716399 '
                                    'len=7889',
                        'type': 'Group'},
 'nousecache-HV-rpc1024': {'log': 'sha256:356022bcab70f71f48226fc1d00129aa6eb08140f3ceaf159c1c33c0011ba2dc '
                                  'len=309',
                           'returned': 'sha256:1fd59e14ad830c3998bb1361199493cd21cc7eaed4d178f09b5931e7134b5760 '
                                       'len=7417',
                           'type': 'Group'},
 'nousecache-HV-rpc2': {'log': 'sha256:7c44de846e6c5927bee8661431c808792b77b7d1a5d65e1d874a179a92861197 '
                               'len=385',
                        'returned': 'sha256:d530c77915841041dfbd1c829230a1d686bc5863b5672109353e2c823018a8ff '
                                    'len=7655',
                        'type': 'Group'},
 'nousecache-HV-rpc3': {'log': 'sha256:9ddb18675c29a2f663b84dfb329af9aa6629f0e92800b917d8a2e747bd4c3731 '
                               'len=359',
                        'returned': 'sha256:b339b0b0effa557329e22a9d259261d507b32c9fabf034622b36e37707e4d653 '
                                    'len=7575',
                        'type': 'Group'},
 'nousecache-HV-rpc4096': {'log': 'sha256:356022bcab70f71f48226fc1d00129aa6eb08140f3ceaf159c1c33c0011ba2dc '
                                  'len=309',
                           'returned': 'sha256:1fd59e14ad830c3998bb1361199493cd21cc7eaed4d178f09b5931e7134b5760 '
                                       'len=7417',
                           'type': 'Group'},
 'public-names': ['Array',
                  'CachingError',
                  'Variable',
                  'caching',
                  'decode_filename',
                  'filename_to_groupname',
                  'open_image',
                  'read_metadata',
                  'transform_metadata'],
 'rebound-error-class': {'log': 'sha256:ddd07a052e2eaa5cc719904391d51d78dec4e16736aefd6aba69b2fb00e85f29 '
                                'len=404',
                         'returned': 'sha256:b339b0b0effa557329e22a9d259261d507b32c9fabf034622b36e37707e4d653 '
                                     'len=7575',
                         'type': 'Group'},
 'rebound-error-class-2': {'log': "[('read_cache', 2, ['records_per_chunk'], 3)]",
                           'raised': "{'type': 'ceos_alos2.sar_image.caching.CachingError', "
                                     '\'message\': \'no longer caught\', \'args\': "(\'no longer '
                                     'caught\',)", \'cause\': None, \'context\': None, '
                                     "'suppress_context': False}"},
 'remote-cache': {'log': '[]',
                  'returned': 'sha256:72d9f881737fd331a0fe0833f6b742eb7a0903667560e08dd6eee29a40b0e749 '
                              'len=10041',
                  'type': 'Group'},
 'remote-cache-ignored': {'log': 'sha256:7c44de846e6c5927bee8661431c808792b77b7d1a5d65e1d874a179a92861197 '
                                 'len=385',
                          'returned': 'sha256:d530c77915841041dfbd1c829230a1d686bc5863b5672109353e2c823018a8ff '
                                      'len=7655',
                          'type': 'Group'},
 'remote-cache-incomplete': {'log': 'sha256:7c44de846e6c5927bee8661431c808792b77b7d1a5d65e1d874a179a92861197 '
                                    'len=385',
                             'returned': 'sha256:d530c77915841041dfbd1c829230a1d686bc5863b5672109353e2c823018a8ff '
                                         'len=7655',
                             'type': 'Group'},
 'remote-cache-not-text': {'log': '[]',
                           'raised': "{'type': 'builtins.UnicodeDecodeError', 'message': "
                                     '"\'utf-8\' codec can\'t decode byte 0xff in position 0: '
                                     'invalid start byte", \'args\': "(\'utf-8\', b\'\\\\xff{\', '
                                     '0, 1, \'invalid start byte\')", \'cause\': None, '
                                     "'context': None, 'suppress_context': False}"},
 'rpc-float': {'log': "[('open', "
                      "'loggedmemory://products/0000/IMG-HV-ALOS2290760600-191011-WWDR1.5RUA', "
                      "'rb'), ('enter', "
                      "'loggedmemory://products/0000/IMG-HV-ALOS2290760600-191011-WWDR1.5RUA'), "
                      "('read', 0, 720, 720), ('exit', "
                      "'loggedmemory://products/0000/IMG-HV-ALOS2290760600-191011-WWDR1.5RUA', "
                      "'TypeError')]",
               'raised': '{\'type\': \'builtins.TypeError\', \'message\': "argument should be '
                         'integer or None, not \'float\'", \'args\': \'("argument should be '
                         'integer or None, not \\\'float\\\'",)\', \'cause\': None, \'context\': '
                         "None, 'suppress_context': False}"},
 'rpc-negative': {'log': "[('open', "
                         "'loggedmemory://products/0000/IMG-HV-ALOS2290760600-191011-WWDR1.5RUA', "
                         "'rb'), ('enter', "
                         "'loggedmemory://products/0000/IMG-HV-ALOS2290760600-191011-WWDR1.5RUA'), "
                         "('read', 0, 720, 720), ('exit', "
                         "'loggedmemory://products/0000/IMG-HV-ALOS2290760600-191011-WWDR1.5RUA', "
                         'None)]',
                  'returned': 'sha256:e5456e1bb05f90e3a7820f38ef92bd7fc6fcfc61a765a223f374f30962d39bc7 '
                              'len=609',
                  'type': 'Group'},
 'rpc-str': {'log': "[('open', "
                    "'loggedmemory://products/0000/IMG-HV-ALOS2290760600-191011-WWDR1.5RUA', "
                    "'rb'), ('enter', "
                    "'loggedmemory://products/0000/IMG-HV-ALOS2290760600-191011-WWDR1.5RUA'), "
                    "('read', 0, 720, 720), ('exit', "
                    "'loggedmemory://products/0000/IMG-HV-ALOS2290760600-191011-WWDR1.5RUA', "
                    "'TypeError')]",
             'raised': '{\'type\': \'builtins.TypeError\', \'message\': "unsupported operand '
                       'type(s) for /: \'int\' and \'str\'", \'args\': \'("unsupported operand '
                       'type(s) for /: \\\'int\\\' and \\\'str\\\'",)\', \'cause\': None, '
                       "'context': None, 'suppress_context': False}"},
 'rpc-zero': {'log': "[('open', "
                     "'loggedmemory://products/0000/IMG-HV-ALOS2290760600-191011-WWDR1.5RUA', "
                     "'rb'), ('enter', "
                     "'loggedmemory://products/0000/IMG-HV-ALOS2290760600-191011-WWDR1.5RUA'), "
                     "('read', 0, 720, 720), ('exit', "
                     "'loggedmemory://products/0000/IMG-HV-ALOS2290760600-191011-WWDR1.5RUA', "
                     "'ZeroDivisionError')]",
              'raised': "{'type': 'builtins.ZeroDivisionError', 'message': 'division by zero', "
                        '\'args\': "(\'division by zero\',)", \'cause\': None, \'context\': None, '
                        "'suppress_context': False}"},
 'same-error-class': True,
 'signature': '(mapper, path, *, use_cache=True, create_cache=False, records_per_chunk=None)',
 'stub-read_cache-caching-error-create0': {'log': 'sha256:ddd07a052e2eaa5cc719904391d51d78dec4e16736aefd6aba69b2fb00e85f29 '
                                                  'len=404',
                                           'returned': 'sha256:b339b0b0effa557329e22a9d259261d507b32c9fabf034622b36e37707e4d653 '
                                                       'len=7575',
                                           'type': 'Group'},
 'stub-read_cache-caching-error-create1': {'log': 'sha256:cff835b04b01661f90490ec5a9fa0e185b7d395ec16d63618c1f63e7c878ed1c '
                                                  'len=1170',
                                           'returned': 'sha256:b339b0b0effa557329e22a9d259261d507b32c9fabf034622b36e37707e4d653 '
                                                       'len=7575',
                                           'type': 'Group'},
 'stub-read_cache-caching-error-unused': {'log': 'sha256:9ddb18675c29a2f663b84dfb329af9aa6629f0e92800b917d8a2e747bd4c3731 '
                                                 'len=359',
                                          'returned': 'sha256:b339b0b0effa557329e22a9d259261d507b32c9fabf034622b36e37707e4d653 '
                                                      'len=7575',
                                          'type': 'Group'},
 'stub-read_cache-empty-dict-create0': {'log': "[('read_cache', 2, ['records_per_chunk'], 3)]",
                                        'returned': "{'dict': []}",
                                        'type': 'dict'},
 'stub-read_cache-empty-dict-create1': {'log': "[('read_cache', 2, ['records_per_chunk'], 3)]",
                                        'returned': "{'dict': []}",
                                        'type': 'dict'},
 'stub-read_cache-empty-dict-unused': {'log': 'sha256:9ddb18675c29a2f663b84dfb329af9aa6629f0e92800b917d8a2e747bd4c3731 '
                                              'len=359',
                                       'returned': 'sha256:b339b0b0effa557329e22a9d259261d507b32c9fabf034622b36e37707e4d653 '
                                                   'len=7575',
                                       'type': 'Group'},
 'stub-read_cache-exception-group-create0': {'log': "[('read_cache', 2, ['records_per_chunk'], 3)]",
                                             'raised': "{'type': 'builtins.ExceptionGroup', "
                                                       "'message': 'eg (1 sub-exception)', 'args': "
                                                       '"(\'eg\', [CachingError(\'inner\')])", '
                                                       "'cause': None, 'context': None, "
                                                       "'suppress_context': False}"},
 'stub-read_cache-exception-group-create1': {'log': "[('read_cache', 2, ['records_per_chunk'], 3)]",
                                             'raised': "{'type': 'builtins.ExceptionGroup', "
                                                       "'message': 'eg (1 sub-exception)', 'args': "
                                                       '"(\'eg\', [CachingError(\'inner\')])", '
                                                       "'cause': None, 'context': None, "
                                                       "'suppress_context': False}"},
 'stub-read_cache-exception-group-unused': {'log': 'sha256:9ddb18675c29a2f663b84dfb329af9aa6629f0e92800b917d8a2e747bd4c3731 '
                                                   'len=359',
                                            'returned': 'sha256:b339b0b0effa557329e22a9d259261d507b32c9fabf034622b36e37707e4d653 '
                                                        'len=7575',
                                            'type': 'Group'},
 'stub-read_cache-file-not-found-create0': {'log': "[('read_cache', 2, ['records_per_chunk'], 3)]",
                                            'raised': "{'type': 'builtins.FileNotFoundError', "
                                                      "'message': 'plain', 'args': "
                                                      '"(\'plain\',)", \'cause\': None, '
                                                      "'context': None, 'suppress_context': "
                                                      'False}'},
 'stub-read_cache-file-not-found-create1': {'log': "[('read_cache', 2, ['records_per_chunk'], 3)]",
                                            'raised': "{'type': 'builtins.FileNotFoundError', "
                                                      "'message': 'plain', 'args': "
                                                      '"(\'plain\',)", \'cause\': None, '
                                                      "'context': None, 'suppress_context': "
                                                      'False}'},
 'stub-read_cache-file-not-found-unused': {'log': 'sha256:9ddb18675c29a2f663b84dfb329af9aa6629f0e92800b917d8a2e747bd4c3731 '
                                                  'len=359',
                                           'returned': 'sha256:b339b0b0effa557329e22a9d259261d507b32c9fabf034622b36e37707e4d653 '
                                                       'len=7575',
                                           'type': 'Group'},
 'stub-read_cache-group-create0': {'log': "[('read_cache', 2, ['records_per_chunk'], 3)]",
                                   'returned': "{'Group': {'path': 'cached', 'url': None, 'attrs': "
                                               '{\'dict\': [("str:\'from\'", "str:\'cache\'")]}, '
                                               "'data': []}}",
                                   'type': 'Group'},
 'stub-read_cache-group-create1': {'log': "[('read_cache', 2, ['records_per_chunk'], 3)]",
                                   'returned': "{'Group': {'path': 'cached', 'url': None, 'attrs': "
                                               '{\'dict\': [("str:\'from\'", "str:\'cache\'")]}, '
                                               "'data': []}}",
                                   'type': 'Group'},
 'stub-read_cache-group-unused': {'log': 'sha256:9ddb18675c29a2f663b84dfb329af9aa6629f0e92800b917d8a2e747bd4c3731 '
                                         'len=359',
                                  'returned': 'sha256:b339b0b0effa557329e22a9d259261d507b32c9fabf034622b36e37707e4d653 '
                                              'len=7575',
                                  'type': 'Group'},
 'stub-read_cache-key-error-create0': {'log': "[('read_cache', 2, ['records_per_chunk'], 3)]",
                                       'raised': "{'type': 'builtins.KeyError', 'message': "
                                                 '"\'k\'", \'args\': "(\'k\',)", \'cause\': None, '
                                                 "'context': None, 'suppress_context': False}"},
 'stub-read_cache-key-error-create1': {'log': "[('read_cache', 2, ['records_per_chunk'], 3)]",
                                       'raised': "{'type': 'builtins.KeyError', 'message': "
                                                 '"\'k\'", \'args\': "(\'k\',)", \'cause\': None, '
                                                 "'context': None, 'suppress_context': False}"},
 'stub-read_cache-key-error-unused': {'log': 'sha256:9ddb18675c29a2f663b84dfb329af9aa6629f0e92800b917d8a2e747bd4c3731 '
                                             'len=359',
                                      'returned': 'sha256:b339b0b0effa557329e22a9d259261d507b32c9fabf034622b36e37707e4d653 '
                                                  'len=7575',
                                      'type': 'Group'},
 'stub-read_cache-keyboard-interrupt-create0': {'log': "[('read_cache', 2, ['records_per_chunk'], "
                                                       '3)]',
                                                'raised': "{'type': 'builtins.KeyboardInterrupt', "
                                                          "'message': '', 'args': '()', 'cause': "
                                                          "None, 'context': None, "
                                                          "'suppress_context': False}"},
 'stub-read_cache-keyboard-interrupt-create1': {'log': "[('read_cache', 2, ['records_per_chunk'], "
                                                       '3)]',
                                                'raised': "{'type': 'builtins.KeyboardInterrupt', "
                                                          "'message': '', 'args': '()', 'cause': "
                                                          "None, 'context': None, "
                                                          "'suppress_context': False}"},
 'stub-read_cache-keyboard-interrupt-unused': {'log': 'sha256:9ddb18675c29a2f663b84dfb329af9aa6629f0e92800b917d8a2e747bd4c3731 '
                                                      'len=359',
                                               'returned': 'sha256:b339b0b0effa557329e22a9d259261d507b32c9fabf034622b36e37707e4d653 '
                                                           'len=7575',
                                               'type': 'Group'},
 'stub-read_cache-none-create0': {'log': "[('read_cache', 2, ['records_per_chunk'], 3)]",
                                  'returned': "'NoneType:None'",
                                  'type': 'NoneType'},
 'stub-read_cache-none-create1': {'log': "[('read_cache', 2, ['records_per_chunk'], 3)]",
                                  'returned': "'NoneType:None'",
                                  'type': 'NoneType'},
 'stub-read_cache-none-unused': {'log': 'sha256:9ddb18675c29a2f663b84dfb329af9aa6629f0e92800b917d8a2e747bd4c3731 '
                                        'len=359',
                                 'returned': 'sha256:b339b0b0effa557329e22a9d259261d507b32c9fabf034622b36e37707e4d653 '
                                             'len=7575',
                                 'type': 'Group'},
 'stub-read_cache-os-error-create0': {'log': "[('read_cache', 2, ['records_per_chunk'], 3)]",
                                      'raised': "{'type': 'builtins.OSError', 'message': 'os', "
                                                '\'args\': "(\'os\',)", \'cause\': None, '
                                                "'context': None, 'suppress_context': False}"},
 'stub-read_cache-os-error-create1': {'log': "[('read_cache', 2, ['records_per_chunk'], 3)]",
                                      'raised': "{'type': 'builtins.OSError', 'message': 'os', "
                                                '\'args\': "(\'os\',)", \'cause\': None, '
                                                "'context': None, 'suppress_context': False}"},
 'stub-read_cache-os-error-unused': {'log': 'sha256:9ddb18675c29a2f663b84dfb329af9aa6629f0e92800b917d8a2e747bd4c3731 '
                                            'len=359',
                                     'returned': 'sha256:b339b0b0effa557329e22a9d259261d507b32c9fabf034622b36e37707e4d653 '
                                                 'len=7575',
                                     'type': 'Group'},
 'stub-read_cache-sub-caching-error-create0': {'log': 'sha256:ddd07a052e2eaa5cc719904391d51d78dec4e16736aefd6aba69b2fb00e85f29 '
                                                      'len=404',
                                               'returned': 'sha256:b339b0b0effa557329e22a9d259261d507b32c9fabf034622b36e37707e4d653 '
                                                           'len=7575',
                                               'type': 'Group'},
 'stub-read_cache-sub-caching-error-create1': {'log': 'sha256:cff835b04b01661f90490ec5a9fa0e185b7d395ec16d63618c1f63e7c878ed1c '
                                                      'len=1170',
                                               'returned': 'sha256:b339b0b0effa557329e22a9d259261d507b32c9fabf034622b36e37707e4d653 '
                                                           'len=7575',
                                               'type': 'Group'},
 'stub-read_cache-sub-caching-error-unused': {'log': 'sha256:9ddb18675c29a2f663b84dfb329af9aa6629f0e92800b917d8a2e747bd4c3731 '
                                                     'len=359',
                                              'returned': 'sha256:b339b0b0effa557329e22a9d259261d507b32c9fabf034622b36e37707e4d653 '
                                                          'len=7575',
                                              'type': 'Group'},
 'stub-read_cache-value-error-create0': {'log': "[('read_cache', 2, ['records_per_chunk'], 3)]",
                                         'raised': "{'type': 'builtins.ValueError', 'message': "
                                                   '\'v\', \'args\': "(\'v\',)", \'cause\': None, '
                                                   "'context': None, 'suppress_context': False}"},
 'stub-read_cache-value-error-create1': {'log': "[('read_cache', 2, ['records_per_chunk'], 3)]",
                                         'raised': "{'type': 'builtins.ValueError', 'message': "
                                                   '\'v\', \'args\': "(\'v\',)", \'cause\': None, '
                                                   "'context': None, 'suppress_context': False}"},
 'stub-read_cache-value-error-unused': {'log': 'sha256:9ddb18675c29a2f663b84dfb329af9aa6629f0e92800b917d8a2e747bd4c3731 '
                                               'len=359',
                                        'returned': 'sha256:b339b0b0effa557329e22a9d259261d507b32c9fabf034622b36e37707e4d653 '
                                                    'len=7575',
                                        'type': 'Group'},
 'stub-read_cache-zero-create0': {'log': "[('read_cache', 2, ['records_per_chunk'], 3)]",
                                  'returned': "'int:0'",
                                  'type': 'int'},
 'stub-read_cache-zero-create1': {'log': "[('read_cache', 2, ['records_per_chunk'], 3)]",
                                  'returned': "'int:0'",
                                  'type': 'int'},
 'stub-read_cache-zero-unused': {'log': 'sha256:9ddb18675c29a2f663b84dfb329af9aa6629f0e92800b917d8a2e747bd4c3731 '
                                        'len=359',
                                 'returned': 'sha256:b339b0b0effa557329e22a9d259261d507b32c9fabf034622b36e37707e4d653 '
                                             'len=7575',
                                 'type': 'Group'},
 'stub-reading-array-metadata-clash-create0': {'log': 'sha256:03aaf7a1951434be4c8068beb8591f744d176be7f1a27ac9b5f9d0f9a2dc5539 '
                                                      'len=415',
                                               'raised': "{'type': 'builtins.TypeError', "
                                                         '\'message\': "ceos_alos2.array.Array() '
                                                         'got multiple values for keyword argument '
                                                         '\'url\'", \'args\': '
                                                         '\'("ceos_alos2.array.Array() got '
                                                         'multiple values for keyword argument '
                                                         '\\\'url\\\'",)\', \'cause\': None, '
                                                         "'context': None, 'suppress_context': "
                                                         'False}'},
 'stub-reading-array-metadata-clash-create1': {'log': 'sha256:03aaf7a1951434be4c8068beb8591f744d176be7f1a27ac9b5f9d0f9a2dc5539 '
                                                      'len=415',
                                               'raised': "{'type': 'builtins.TypeError', "
                                                         '\'message\': "ceos_alos2.array.Array() '
                                                         'got multiple values for keyword argument '
                                                         '\'url\'", \'args\': '
                                                         '\'("ceos_alos2.array.Array() got '
                                                         'multiple values for keyword argument '
                                                         '\\\'url\\\'",)\', \'cause\': None, '
                                                         "'context': None, 'suppress_context': "
                                                         'False}'},
 'stub-reading-array-metadata-extra-key-create0': {'log': 'sha256:03aaf7a1951434be4c8068beb8591f744d176be7f1a27ac9b5f9d0f9a2dc5539 '
                                                          'len=415',
                                                   'raised': "{'type': 'builtins.TypeError', "
                                                             '\'message\': "Array.__init__() got '
                                                             'an unexpected keyword argument '
                                                             '\'bogus\'", \'args\': '
                                                             '\'("Array.__init__() got an '
                                                             'unexpected keyword argument '
                                                             '\\\'bogus\\\'",)\', \'cause\': None, '
                                                             "'context': None, 'suppress_context': "
                                                             'False}'},
 'stub-reading-array-metadata-extra-key-create1': {'log': 'sha256:03aaf7a1951434be4c8068beb8591f744d176be7f1a27ac9b5f9d0f9a2dc5539 '
                                                          'len=415',
                                                   'raised': "{'type': 'builtins.TypeError', "
                                                             '\'message\': "Array.__init__() got '
                                                             'an unexpected keyword argument '
                                                             '\'bogus\'", \'args\': '
                                                             '\'("Array.__init__() got an '
                                                             'unexpected keyword argument '
                                                             '\\\'bogus\\\'",)\', \'cause\': None, '
                                                             "'context': None, 'suppress_context': "
                                                             'False}'},
 'stub-reading-array-metadata-missing-key-create0': {'log': 'sha256:03aaf7a1951434be4c8068beb8591f744d176be7f1a27ac9b5f9d0f9a2dc5539 '
                                                            'len=415',
                                                     'raised': "{'type': 'builtins.TypeError', "
                                                               '\'message\': "Array.__init__() '
                                                               'missing 3 required positional '
                                                               "arguments: 'byte_ranges', 'shape', "
                                                               'and \'dtype\'", \'args\': '
                                                               '\'("Array.__init__() missing 3 '
                                                               'required positional arguments: '
                                                               "\\'byte_ranges\\', \\'shape\\', "
                                                               'and \\\'dtype\\\'",)\', \'cause\': '
                                                               "None, 'context': None, "
                                                               "'suppress_context': False}"},
 'stub-reading-array-metadata-missing-key-create1': {'log': 'sha256:03aaf7a1951434be4c8068beb8591f744d176be7f1a27ac9b5f9d0f9a2dc5539 '
                                                            'len=415',
                                                     'raised': "{'type': 'builtins.TypeError', "
                                                               '\'message\': "Array.__init__() '
                                                               'missing 3 required positional '
                                                               "arguments: 'byte_ranges', 'shape', "
                                                               'and \'dtype\'", \'args\': '
                                                               '\'("Array.__init__() missing 3 '
                                                               'required positional arguments: '
                                                               "\\'byte_ranges\\', \\'shape\\', "
                                                               'and \\\'dtype\\\'",)\', \'cause\': '
                                                               "None, 'context': None, "
                                                               "'suppress_context': False}"},
 'stub-reading-array-metadata-not-mapping-create0': {'log': 'sha256:03aaf7a1951434be4c8068beb8591f744d176be7f1a27ac9b5f9d0f9a2dc5539 '
                                                            'len=415',
                                                     'raised': "{'type': 'builtins.TypeError', "
                                                               "'message': "
                                                               "'ceos_alos2.array.Array() argument "
                                                               'after ** must be a mapping, not '
                                                               "list', 'args': "
                                                               '"(\'ceos_alos2.array.Array() '
                                                               'argument after ** must be a '
                                                               'mapping, not list\',)", \'cause\': '
                                                               "None, 'context': None, "
                                                               "'suppress_context': False}"},
 'stub-reading-array-metadata-not-mapping-create1': {'log': 'sha256:03aaf7a1951434be4c8068beb8591f744d176be7f1a27ac9b5f9d0f9a2dc5539 '
                                                            'len=415',
                                                     'raised': "{'type': 'builtins.TypeError', "
                                                               "'message': "
                                                               "'ceos_alos2.array.Array() argument "
                                                               'after ** must be a mapping, not '
                                                               "list', 'args': "
                                                               '"(\'ceos_alos2.array.Array() '
                                                               'argument after ** must be a '
                                                               'mapping, not list\',)", \'cause\': '
                                                               "None, 'context': None, "
                                                               "'suppress_context': False}"},
 'stub-reading-group-is-dict-create0': {'log': 'sha256:03aaf7a1951434be4c8068beb8591f744d176be7f1a27ac9b5f9d0f9a2dc5539 '
                                               'len=415',
                                        'raised': "{'type': 'builtins.AttributeError', 'message': "
                                                  '"\'dict\' object has no attribute \'path\'", '
                                                  '\'args\': \'("\\\'dict\\\' object has no '
                                                  'attribute \\\'path\\\'",)\', \'cause\': None, '
                                                  "'context': None, 'suppress_context': False}"},
 'stub-reading-group-is-dict-create1': {'log': 'sha256:03aaf7a1951434be4c8068beb8591f744d176be7f1a27ac9b5f9d0f9a2dc5539 '
                                               'len=415',
                                        'raised': "{'type': 'builtins.AttributeError', 'message': "
                                                  '"\'dict\' object has no attribute \'path\'", '
                                                  '\'args\': \'("\\\'dict\\\' object has no '
                                                  'attribute \\\'path\\\'",)\', \'cause\': None, '
                                                  "'context': None, 'suppress_context': False}"},
 'stub-reading-group-is-none-create0': {'log': 'sha256:03aaf7a1951434be4c8068beb8591f744d176be7f1a27ac9b5f9d0f9a2dc5539 '
                                               'len=415',
                                        'raised': "{'type': 'builtins.TypeError', 'message': "
                                                  '"\'NoneType\' object does not support item '
                                                  'assignment", \'args\': \'("\\\'NoneType\\\' '
                                                  'object does not support item assignment",)\', '
                                                  "'cause': None, 'context': None, "
                                                  "'suppress_context': False}"},
 'stub-reading-group-is-none-create1': {'log': 'sha256:03aaf7a1951434be4c8068beb8591f744d176be7f1a27ac9b5f9d0f9a2dc5539 '
                                               'len=415',
                                        'raised': "{'type': 'builtins.TypeError', 'message': "
                                                  '"\'NoneType\' object does not support item '
                                                  'assignment", \'args\': \'("\\\'NoneType\\\' '
                                                  'object does not support item assignment",)\', '
                                                  "'cause': None, 'context': None, "
                                                  "'suppress_context': False}"},
 'stub-reading-ok-create0': {'log': 'sha256:03aaf7a1951434be4c8068beb8591f744d176be7f1a27ac9b5f9d0f9a2dc5539 '
                                    'len=415',
                             'returned': 'sha256:008b31b1f2e6cee4d6d60628bbb17886adea7c91cc7ff8b7a3272bd729806c2c '
                                         'len=646',
                             'type': 'Group'},
 'stub-reading-ok-create1': {'log': 'sha256:cfe5c858e473196f82b5fb48b8ff209a79054b45c4f16cd4d29c63799694b084 '
                                    'len=510',
                             'returned': 'sha256:008b31b1f2e6cee4d6d60628bbb17886adea7c91cc7ff8b7a3272bd729806c2c '
                                         'len=646',
                             'type': 'Group'},
 'stub-reading-read-raises-create0': {'log': 'sha256:ce4328fdc4c6d14ccab6ec31ff8a3e448c1031d83a8c0d3ff9d62cedcb14fdff '
                                             'len=385',
                                      'raised': "{'type': 'builtins.RuntimeError', 'message': "
                                                '\'read\', \'args\': "(\'read\',)", \'cause\': '
                                                "None, 'context': None, 'suppress_context': "
                                                'False}'},
 'stub-reading-read-raises-create1': {'log': 'sha256:ce4328fdc4c6d14ccab6ec31ff8a3e448c1031d83a8c0d3ff9d62cedcb14fdff '
                                             'len=385',
                                      'raised': "{'type': 'builtins.RuntimeError', 'message': "
                                                '\'read\', \'args\': "(\'read\',)", \'cause\': '
                                                "None, 'context': None, 'suppress_context': "
                                                'False}'},
 'stub-reading-read-returns-3-create0': {'log': 'sha256:796fdeaee881941ebea2bd80abd7ec8569c8b690a4e5aeaba9036a9f12356b13 '
                                                'len=383',
                                         'raised': "{'type': 'builtins.ValueError', 'message': "
                                                   "'too many values to unpack (expected 2)', "
                                                   '\'args\': "(\'too many values to unpack '
                                                   '(expected 2)\',)", \'cause\': None, '
                                                   "'context': None, 'suppress_context': False}"},
 'stub-reading-read-returns-3-create1': {'log': 'sha256:796fdeaee881941ebea2bd80abd7ec8569c8b690a4e5aeaba9036a9f12356b13 '
                                                'len=383',
                                         'raised': "{'type': 'builtins.ValueError', 'message': "
                                                   "'too many values to unpack (expected 2)', "
                                                   '\'args\': "(\'too many values to unpack '
                                                   '(expected 2)\',)", \'cause\': None, '
                                                   "'context': None, 'suppress_context': False}"},
 'stub-reading-read-returns-none-create0': {'log': 'sha256:10708ac09907722ea9f2122ec94782e3127995825eb442299433bd40aadb8cc6 '
                                                   'len=382',
                                            'raised': "{'type': 'builtins.TypeError', 'message': "
                                                      "'cannot unpack non-iterable NoneType "
                                                      'object\', \'args\': "(\'cannot unpack '
                                                      'non-iterable NoneType object\',)", '
                                                      "'cause': None, 'context': None, "
                                                      "'suppress_context': False}"},
 'stub-reading-read-returns-none-create1': {'log': 'sha256:10708ac09907722ea9f2122ec94782e3127995825eb442299433bd40aadb8cc6 '
                                                   'len=382',
                                            'raised': "{'type': 'builtins.TypeError', 'message': "
                                                      "'cannot unpack non-iterable NoneType "
                                                      'object\', \'args\': "(\'cannot unpack '
                                                      'non-iterable NoneType object\',)", '
                                                      "'cause': None, 'context': None, "
                                                      "'suppress_context': False}"},
 'stub-reading-transform-raises-create0': {'log': 'sha256:2409b138b70072232b56691558a55a2ee28ec616b2464da976b26c993cdd4177 '
                                                  'len=424',
                                           'raised': "{'type': 'builtins.LookupError', 'message': "
                                                     '\'transform\', \'args\': "(\'transform\',)", '
                                                     "'cause': None, 'context': None, "
                                                     "'suppress_context': False}"},
 'stub-reading-transform-raises-create1': {'log': 'sha256:2409b138b70072232b56691558a55a2ee28ec616b2464da976b26c993cdd4177 '
                                                  'len=424',
                                           'raised': "{'type': 'builtins.LookupError', 'message': "
                                                     '\'transform\', \'args\': "(\'transform\',)", '
                                                     "'cause': None, 'context': None, "
                                                     "'suppress_context': False}"},
 'stub-reading-transform-returns-3-create0': {'log': 'sha256:7729fb897ae5bcba576069041962033462efd6bae8143853caf5bdaa33f6eaaf '
                                                     'len=423',
                                              'raised': "{'type': 'builtins.ValueError', "
                                                        "'message': 'too many values to unpack "
                                                        '(expected 2)\', \'args\': "(\'too many '
                                                        'values to unpack (expected 2)\',)", '
                                                        "'cause': None, 'context': None, "
                                                        "'suppress_context': False}"},
 'stub-reading-transform-returns-3-create1': {'log': 'sha256:7729fb897ae5bcba576069041962033462efd6bae8143853caf5bdaa33f6eaaf '
                                                     'len=423',
                                              'raised': "{'type': 'builtins.ValueError', "
                                                        "'message': 'too many values to unpack "
                                                        '(expected 2)\', \'args\': "(\'too many '
                                                        'values to unpack (expected 2)\',)", '
                                                        "'cause': None, 'context': None, "
                                                        "'suppress_context': False}"},
 'stub-reading-transform-returns-none-create0': {'log': 'sha256:5615638f26d3dc2cd7f9ea109ccd4b986cb70f48137fa8a044837816290b480e '
                                                        'len=422',
                                                 'raised': "{'type': 'builtins.TypeError', "
                                                           "'message': 'cannot unpack non-iterable "
                                                           "NoneType object', 'args': "
                                                           '"(\'cannot unpack non-iterable '
                                                           'NoneType object\',)", \'cause\': None, '
                                                           "'context': None, 'suppress_context': "
                                                           'False}'},
 'stub-reading-transform-returns-none-create1': {'log': 'sha256:5615638f26d3dc2cd7f9ea109ccd4b986cb70f48137fa8a044837816290b480e '
                                                        'len=422',
                                                 'raised': "{'type': 'builtins.TypeError', "
                                                           "'message': 'cannot unpack non-iterable "
                                                           "NoneType object', 'args': "
                                                           '"(\'cannot unpack non-iterable '
                                                           'NoneType object\',)", \'cause\': None, '
                                                           "'context': None, 'suppress_context': "
                                                           'False}'},
 'truncated': {'log': 'sha256:a9be7c1013b4e821fb63afeba74bc2d84992dbd81bb1445ee99849e62e739080 '
                      'len=341',
               'raised': "{'type': 'builtins.ValueError', 'message': 'sizes mismatch: chunksize is "
                         '0 but got 154 bytes\', \'args\': "(\'sizes mismatch: chunksize is 0 but '
                         'got 154 bytes\',)", \'cause\': None, \'context\': None, '
                         "'suppress_context': False}"},
 'truncated-descriptor': {'log': "[('open', "
                                 "'loggedmemory://products/0000/IMG-HH-ALOS2290760600-191011-WWDR1.5RUD', "
                                 "'rb'), ('enter', "
                                 "'loggedmemory://products/0000/IMG-HH-ALOS2290760600-191011-WWDR1.5RUD'), "
                                 "('read', 0, 720, 100), ('exit', "
                                 "'loggedmemory://products/0000/IMG-HH-ALOS2290760600-191011-WWDR1.5RUD', "
                                 "'StreamError')]",
                          'raised': "{'type': 'construct.core.StreamError', 'message': 'Error in "
                                    'path (parsing) -> record_length_location\\nstream read less '
                                    "than specified amount, expected 8, found 0', 'args': "
                                    '"(\'Error in path (parsing) -> '
                                    'record_length_location\\\\nstream read less than specified '
                                    'amount, expected 8, found 0\',)", \'cause\': None, '
                                    "'context': None, 'suppress_context': False}"},
 'unknown-record-type': {'log': 'sha256:f14a02bcbc727b0d368135468f280556acde543cf3bb7e5880223e3ad41bbd8c '
                                'len=340',
                         'raised': "{'type': 'builtins.ValueError', 'message': 'unknown record "
                                   'type code: 42\', \'args\': "(\'unknown record type code: '
                                   '42\',)", \'cause\': None, \'context\': None, '
                                   "'suppress_context': False}"},
 'unknown-type-code': {'log': 'sha256:7c421de5af2bad1262c394f3040e203422a36b809b5e8c85ddc7a072e13aff33 '
                              'len=341',
                       'raised': "{'type': 'builtins.ValueError', 'message': 'unknown type code: "
                                 'F*4\', \'args\': "(\'unknown type code: F*4\',)", \'cause\': '
                                 "None, 'context': None, 'suppress_context': False}"}}
# EXPECTED-END

if __name__ == "__main__":
    if "--record" in sys.argv:
        source = open(__file__).read()
        head, rest = source.split("# EXPECTED-BEGIN\n", 1)
        _, tail = rest.split("# EXPECTED-END\n", 1)
        body = "EXPECTED = " + pprint.pformat(run(), width=100, sort_dicts=True) + "\n"
        open(__file__, "w").write(head + "# EXPECTED-BEGIN\n" + body + "# EXPECTED-END\n" + tail)
        print("recorded")
    else:
        test_equivalence()
        print(f"OK: {len(EXPECTED)} cases identical")
