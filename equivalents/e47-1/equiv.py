"""Equivalence check for refactoring 1 (``decoders.decode_filename``).

Run as ``python _eq/1/equiv.py`` (or through pytest).  The expected outcomes below were
recorded from the unchanged code (``python _eq/1/equiv.py --record`` prints them).
"""

import datetime  # noqa: F401  (used by the recorded reprs)
import pprint
import sys

from ceos_alos2 import decoders

CASES = [
    # valid, all optional parts present / absent
    "IMG-HH-ALOS2225333200-180726-WWDR1.1__D-B4",
    "IMG-HV-ALOS2225333200-180726-WWDR1.1__D-F1",
    "IMG-VV-ALOS2225333200-180726-WWDR1.5RUA",
    "IMG-VH-ALOS2225333200-180726-FBDR1.5GUA",
    "LED-ALOS2225333200-180726-WWDR1.1__D",
    "VOL-ALOS2225333200-180726-HBQL1.1__A",
    "TRL-ALOS2225333200-180726-SBSL3.1GPD",
    "TRL-ALOS2225333200-180726-UBSR1.0_MA-F0",
    "LED-ALOS2000010001-000101-VBDR1.5RLD-B9",
    "LED-AB12300001000A-991231-WBSL1.5G_A",
    # invalid file names (no match at all)
    "",
    "IMG",
    "img-HH-ALOS2225333200-180726-WWDR1.1__D",
    "IMG-HX-ALOS2225333200-180726-WWDR1.1__D",
    "IMG-HH-ALOS2225333200-180726-WWDR1.1__D-B",
    "IMG-HH-ALOS2225333200-180726-WWDR1.1__D-B4 ",
    " IMG-HH-ALOS2225333200-180726-WWDR1.1__D-B4",
    "IMG-HH-ALOS2225333200-180726-WWDR1.1__D-X4",
    "IMG-HH-ALOS222533320-180726-WWDR1.1__D",
    "IMG-HH-ALOS2225333200-180726-WWDR1.1__D-B4-B4",
    "IMG-HH-HH-ALOS2225333200-180726-WWDR1.1__D",
    # file name matches, scene id invalid
    "IMG-HH-ALOS22253332AB-180726-WWDR1.1__D",
    "IMG-HH-ALOS2225333200-181326-WWDR1.1__D",
    "IMG-HH-ALOS2225333200-180732-WWDR1.1__D-B4",
    "LED-ALOS2225333200-000000-WWDR1.1__D",
    # file name matches, product id invalid
    "IMG-HH-ALOS2225333200-180726-XXXR1.1__D",
    "IMG-HH-ALOS2225333200-180726-WWDX1.1__D",
    "IMG-HH-ALOS2225333200-180726-WWDR2.1__D",
    "IMG-HH-ALOS2225333200-180726-WWDR1.1X_D",
    "IMG-HH-ALOS2225333200-180726-WWDR1.1_XD",
    "IMG-HH-ALOS2225333200-180726-WWDR1.1__X",
    "IMG-HH-ALOS2225333200-180726-WWDR1_1__D",
    "IMG-HH-ALOS2225333200-180726-AAAR1.1__D-B4",
    # both scene id and product id invalid: the scene id is reported
    "IMG-HH-ALOS2225333200-189926-XXXR1.1__D",
    # non-string input
    None,
    b"IMG-HH-ALOS2225333200-180726-WWDR1.1__D",
    17,
]

def describe_exception(e):
    if e is None:
        return None
    return (type(e).__name__, str(e), describe_exception(e.__cause__))


def outcome(value):
    try:
        result = decoders.decode_filename(value)
    except Exception as e:  # noqa: BLE001
        return ("raised", describe_exception(e))
    return ("returned", type(result).__name__, repr(list(result.items())))


def compute():
    return [outcome(case) for case in CASES]


# BEGIN EXPECTED
EXPECTED = [('returned',
  'dict',
  "[('filetype', 'IMG'), ('polarization', 'HH'), ('mission_name', 'ALOS2'), ('orbit_accumulation', "
  "'22533'), ('scene_frame', '3200'), ('date', datetime.datetime(2018, 7, 26, 0, 0)), "
  "('observation_mode', 'ScanSAR nominal 28MHz mode dual polarization'), ('observation_direction', "
  "'right looking'), ('processing_level', 'level 1.1'), ('processing_option', 'not specified'), "
  "('map_projection', 'not specified'), ('orbit_direction', 'descending'), ('processing_method', "
  "'SPECAN method'), ('scan_number', '4')]"),
 ('returned',
  'dict',
  "[('filetype', 'IMG'), ('polarization', 'HV'), ('mission_name', 'ALOS2'), ('orbit_accumulation', "
  "'22533'), ('scene_frame', '3200'), ('date', datetime.datetime(2018, 7, 26, 0, 0)), "
  "('observation_mode', 'ScanSAR nominal 28MHz mode dual polarization'), ('observation_direction', "
  "'right looking'), ('processing_level', 'level 1.1'), ('processing_option', 'not specified'), "
  "('map_projection', 'not specified'), ('orbit_direction', 'descending'), ('processing_method', "
  "'full aperture_method'), ('scan_number', '1')]"),
 ('returned',
  'dict',
  "[('filetype', 'IMG'), ('polarization', 'VV'), ('mission_name', 'ALOS2'), ('orbit_accumulation', "
  "'22533'), ('scene_frame', '3200'), ('date', datetime.datetime(2018, 7, 26, 0, 0)), "
  "('observation_mode', 'ScanSAR nominal 28MHz mode dual polarization'), ('observation_direction', "
  "'right looking'), ('processing_level', 'level 1.5'), ('processing_option', 'geo-reference'), "
  "('map_projection', 'UTM'), ('orbit_direction', 'ascending')]"),
 ('returned',
  'dict',
  "[('filetype', 'IMG'), ('polarization', 'VH'), ('mission_name', 'ALOS2'), ('orbit_accumulation', "
  "'22533'), ('scene_frame', '3200'), ('date', datetime.datetime(2018, 7, 26, 0, 0)), "
  "('observation_mode', 'fine mode dual polarization'), ('observation_direction', 'right "
  "looking'), ('processing_level', 'level 1.5'), ('processing_option', 'geo-code'), "
  "('map_projection', 'UTM'), ('orbit_direction', 'ascending')]"),
 ('returned',
  'dict',
  "[('filetype', 'LED'), ('polarization', None), ('mission_name', 'ALOS2'), ('orbit_accumulation', "
  "'22533'), ('scene_frame', '3200'), ('date', datetime.datetime(2018, 7, 26, 0, 0)), "
  "('observation_mode', 'ScanSAR nominal 28MHz mode dual polarization'), ('observation_direction', "
  "'right looking'), ('processing_level', 'level 1.1'), ('processing_option', 'not specified'), "
  "('map_projection', 'not specified'), ('orbit_direction', 'descending')]"),
 ('returned',
  'dict',
  "[('filetype', 'VOL'), ('polarization', None), ('mission_name', 'ALOS2'), ('orbit_accumulation', "
  "'22533'), ('scene_frame', '3200'), ('date', datetime.datetime(2018, 7, 26, 0, 0)), "
  "('observation_mode', 'high-sensitive mode full (quad.) polarimetry'), ('observation_direction', "
  "'left looking'), ('processing_level', 'level 1.1'), ('processing_option', 'not specified'), "
  "('map_projection', 'not specified'), ('orbit_direction', 'ascending')]"),
 ('returned',
  'dict',
  "[('filetype', 'TRL'), ('polarization', None), ('mission_name', 'ALOS2'), ('orbit_accumulation', "
  "'22533'), ('scene_frame', '3200'), ('date', datetime.datetime(2018, 7, 26, 0, 0)), "
  "('observation_mode', 'spotlight mode'), ('observation_direction', 'left looking'), "
  "('processing_level', 'level 3.1'), ('processing_option', 'geo-code'), ('map_projection', 'PS'), "
  "('orbit_direction', 'descending')]"),
 ('returned',
  'dict',
  "[('filetype', 'TRL'), ('polarization', None), ('mission_name', 'ALOS2'), ('orbit_accumulation', "
  "'22533'), ('scene_frame', '3200'), ('date', datetime.datetime(2018, 7, 26, 0, 0)), "
  "('observation_mode', 'ultra-fine mode single polarization'), ('observation_direction', 'right "
  "looking'), ('processing_level', 'level 1.0'), ('processing_option', 'not specified'), "
  "('map_projection', 'MER'), ('orbit_direction', 'ascending'), ('processing_method', 'full "
  "aperture_method'), ('scan_number', '0')]"),
 ('returned',
  'dict',
  "[('filetype', 'LED'), ('polarization', None), ('mission_name', 'ALOS2'), ('orbit_accumulation', "
  "'00001'), ('scene_frame', '0001'), ('date', datetime.datetime(2000, 1, 1, 0, 0)), "
  "('observation_mode', 'ScanSAR wide mode dual polarization'), ('observation_direction', 'right "
  "looking'), ('processing_level', 'level 1.5'), ('processing_option', 'geo-reference'), "
  "('map_projection', 'LCC'), ('orbit_direction', 'descending'), ('processing_method', 'SPECAN "
  "method'), ('scan_number', '9')]"),
 ('raised', ('ValueError', 'invalid scene id: AB12300001000A-991231', None)),
 ('raised', ('ValueError', 'invalid file name: ', None)),
 ('raised', ('ValueError', 'invalid file name: IMG', None)),
 ('raised', ('ValueError', 'invalid file name: img-HH-ALOS2225333200-180726-WWDR1.1__D', None)),
 ('raised', ('ValueError', 'invalid file name: IMG-HX-ALOS2225333200-180726-WWDR1.1__D', None)),
 ('raised', ('ValueError', 'invalid file name: IMG-HH-ALOS2225333200-180726-WWDR1.1__D-B', None)),
 ('raised', ('ValueError', 'invalid file name: IMG-HH-ALOS2225333200-180726-WWDR1.1__D-B4 ', None)),
 ('raised', ('ValueError', 'invalid file name:  IMG-HH-ALOS2225333200-180726-WWDR1.1__D-B4', None)),
 ('raised', ('ValueError', 'invalid file name: IMG-HH-ALOS2225333200-180726-WWDR1.1__D-X4', None)),
 ('raised', ('ValueError', 'invalid file name: IMG-HH-ALOS222533320-180726-WWDR1.1__D', None)),
 ('raised',
  ('ValueError', 'invalid file name: IMG-HH-ALOS2225333200-180726-WWDR1.1__D-B4-B4', None)),
 ('raised', ('ValueError', 'invalid file name: IMG-HH-HH-ALOS2225333200-180726-WWDR1.1__D', None)),
 ('raised', ('ValueError', 'invalid scene id: ALOS22253332AB-180726', None)),
 ('raised',
  ('ValueError',
   'invalid scene id: ALOS2225333200-181326',
   ('ValueError', 'unconverted data remains: 26', None))),
 ('raised',
  ('ValueError',
   'invalid scene id: ALOS2225333200-180732',
   ('ValueError', 'unconverted data remains: 2', None))),
 ('raised',
  ('ValueError',
   'invalid scene id: ALOS2225333200-000000',
   ('ValueError', "time data '000000' does not match format '%y%m%d'", None))),
 ('raised',
  ('ValueError', 'invalid product id: XXXR1.1__D', ('ValueError', "invalid code 'XXX'", None))),
 ('raised', ('ValueError', 'invalid product id: WWDX1.1__D', None)),
 ('raised', ('ValueError', 'invalid product id: WWDR2.1__D', None)),
 ('raised', ('ValueError', 'invalid product id: WWDR1.1X_D', None)),
 ('raised', ('ValueError', 'invalid product id: WWDR1.1_XD', None)),
 ('raised', ('ValueError', 'invalid product id: WWDR1.1__X', None)),
 ('raised', ('ValueError', 'invalid product id: WWDR1_1__D', None)),
 ('raised',
  ('ValueError', 'invalid product id: AAAR1.1__D', ('ValueError', "invalid code 'AAA'", None))),
 ('raised',
  ('ValueError',
   'invalid scene id: ALOS2225333200-189926',
   ('ValueError', 'unconverted data remains: 26', None))),
 ('raised', ('TypeError', "expected string or bytes-like object, got 'NoneType'", None)),
 ('raised', ('TypeError', 'cannot use a string pattern on a bytes-like object', None)),
 ('raised', ('TypeError', "expected string or bytes-like object, got 'int'", None))]
# END EXPECTED


def test_equivalence():
    actual = compute()
    assert len(actual) == len(EXPECTED) == len(CASES)
    for case, a, e in zip(CASES, actual, EXPECTED):
        assert a == e, (case, a, e)


def test_returns_fresh_plain_dict():
    first = decoders.decode_filename("IMG-HH-ALOS2225333200-180726-WWDR1.1__D-B4")
    second = decoders.decode_filename("IMG-HH-ALOS2225333200-180726-WWDR1.1__D-B4")
    assert type(first) is dict and first == second and first is not second
    first["filetype"] = "x"
    assert second["filetype"] == "IMG"


def test_sub_decoders_called_in_order():
    # the three sub-decoders are looked up in the module namespace at call time and called
    # in the order scene id, product id, scan info, each exactly once
    calls = []
    originals = {
        name: getattr(decoders, name)
        for name in ("decode_scene_id", "decode_product_id", "decode_scan_info")
    }

    def recorder(name):
        def wrapper(value):
            calls.append((name, value))
            return originals[name](value)

        return wrapper

    try:
        for name in originals:
            setattr(decoders, name, recorder(name))
        decoders.decode_filename("LED-ALOS2225333200-180726-WWDR1.1__D")
        decoders.decode_filename("IMG-HV-ALOS2225333200-180726-WWDR1.1__D-F2")
    finally:
        for name, func in originals.items():
            setattr(decoders, name, func)

    assert calls == [
        ("decode_scene_id", "ALOS2225333200-180726"),
        ("decode_product_id", "WWDR1.1__D"),
        ("decode_scan_info", None),
        ("decode_scene_id", "ALOS2225333200-180726"),
        ("decode_product_id", "WWDR1.1__D"),
        ("decode_scan_info", "F2"),
    ]


if __name__ == "__main__":
    if "--record" in sys.argv:
        pprint.pprint(compute(), width=100)
        sys.exit(0)

    test_equivalence()
    test_returns_fresh_plain_dict()
    test_sub_decoders_called_in_order()
    print("ok:", len(CASES), "cases")
