"""Equivalence check for refactoring 1 (ceos_alos2.sar_image.io.read_metadata).

Run as
    cd /tmp/wt5/e31 && PYTHONPATH=/tmp/wt5/e31 /venv/bin/python _eq/1/equiv.py
(or through pytest). The values in EXPECTED were recorded from the unchanged code at
HEAD with `equiv.py --record`; the script has to pass with and without patch.diff.
"""

import datetime
import hashlib
import pathlib
import pprint
import struct
import sys

import fsspec

from ceos_alos2.sar_image import io

# --------------------------------------------------------------------------------------
# synthetic products


def make_header(n_records, record_length, *, type_code="IU2", lines=3, groups=4, extra=()):
    buf = bytearray(b" " * 720)
    buf[0:12] = struct.pack(">IBBBBI", 1, 50, 192, 18, 18, 720)

    def put(offset, width, value):
        buf[offset : offset + width] = str(value).rjust(width).encode("ascii")

    put(12, 2, "A")
    put(16, 12, "CEOS-SAR")
    put(180, 6, n_records)
    put(186, 6, record_length)
    put(216, 4, 16)
    put(236, 8, lines)
    put(248, 8, groups)
    put(268, 4, "BSQ")
    put(428, 4, type_code)
    for offset, width, value in extra:
        put(offset, width, value)
    assert len(buf) == 720
    return bytes(buf)


def make_record(kind, seq, record_length, *, record_type=None, scan_id=1):
    prefix = {10: 544, 11: 192}[kind]
    assert record_length >= prefix
    buf = bytearray(record_length)
    rtype = kind if record_type is None else record_type
    buf[0:12] = struct.pack(">IBBBBI", seq + 1, 50, rtype, 18, 20, record_length)
    buf[12:16] = struct.pack(">I", seq + 1)  # line number
    buf[16:20] = struct.pack(">I", 1)
    buf[24:28] = struct.pack(">I", (record_length - prefix) // 2)
    buf[36:48] = struct.pack(">III", 2020, 100 + seq, 1000 * seq + 7)
    buf[48:56] = struct.pack(">HHHH", 2, 0, seq % 2, 1)
    buf[56:60] = struct.pack(">I", 2000000 + seq)
    buf[60:64] = struct.pack(">I", scan_id)
    if kind == 10:
        buf[64:68] = struct.pack(">HH", seq % 2, 0)
        buf[84:92] = struct.pack(">Q", 123456 * (seq + 1))
        buf[132:140] = struct.pack(">II", 35000000 + seq, 135000000 - seq)
        buf[224:230] = b"ab\x00\x00cd"
        buf[284:288] = struct.pack(">I", 710)
    else:
        buf[64:76] = struct.pack(">III", 800000, 850000 + seq, 900000)
        buf[128:132] = struct.pack(">I", seq % 2)
        buf[132:136] = struct.pack(">I", 35000000 + seq)
    for i in range(prefix, record_length):
        buf[i] = (seq * 31 + i) % 251
    return bytes(buf)


def make_file(kind, n_records, record_length, *, declared=None, bad_type_at=None, truncate=None):
    header = make_header(n_records if declared is None else declared, record_length)
    records = [
        make_record(
            kind,
            seq,
            record_length,
            record_type=(99 if bad_type_at is not None and seq == bad_type_at else None),
        )
        for seq in range(n_records)
    ]
    content = header + b"".join(records)
    if truncate is not None:
        content = content[:truncate]
    return content


# --------------------------------------------------------------------------------------
# recording wrappers

events = []


class LoggedFile:
    def __init__(self, f):
        self._f = f

    def read(self, *args, **kwargs):
        before = self._f.tell()
        data = self._f.read(*args, **kwargs)
        events.append(("read", args, kwargs, before, len(data)))
        return data

    def seek(self, *args, **kwargs):
        events.append(("seek", args, kwargs))
        return self._f.seek(*args, **kwargs)

    def tell(self):
        events.append(("tell",))
        return self._f.tell()


_orig_parse_chunk = io.parse_chunk
_orig_adjust_offsets = io.adjust_offsets
_orig_read_file_descriptor = io.read_file_descriptor
_orig_record_types = io.record_types


def logged_parse_chunk(content, element_size):
    events.append(("parse_chunk", len(content), element_size))
    return _orig_parse_chunk(content, element_size)


def logged_adjust_offsets(records, offset):
    events.append(("adjust_offsets", len(records), offset))
    return _orig_adjust_offsets(records, offset)


def canon(obj):
    """deterministic text form which also exposes the types"""
    if isinstance(obj, dict):
        items = ", ".join(f"{canon(k)}: {canon(v)}" for k, v in obj.items())
        return f"{type(obj).__name__}{{{items}}}"
    if isinstance(obj, (list, tuple)):
        items = ", ".join(canon(v) for v in obj)
        return f"{type(obj).__name__}[{items}]"
    if isinstance(obj, (datetime.datetime, bytes, str, int, float, bool, type(None))):
        return f"{type(obj).__name__}:{obj!r}"
    raise TypeError(f"unexpected type: {type(obj)}")


def call(content, *args, **kwargs):
    events.clear()
    fs = fsspec.filesystem("memory")
    fs.pipe_file("/eq1/file", content)
    io.parse_chunk = logged_parse_chunk
    io.adjust_offsets = logged_adjust_offsets
    try:
        with fs.open("/eq1/file", mode="rb") as f:
            wrapped = LoggedFile(f)
            try:
                header, metadata = io.read_metadata(wrapped, *args, **kwargs)
                outcome = f"ok header={canon(header)} metadata={canon(metadata)}"
            except Exception as e:  # noqa: BLE001
                outcome = f"raised {type(e).__module__}.{type(e).__qualname__}: {e}"
            position = f.tell()
    finally:
        io.parse_chunk = _orig_parse_chunk
        io.adjust_offsets = _orig_adjust_offsets
        fs.rm("/eq1/file")
    return f"{outcome} || events={events!r} || position={position}"


def call_dummy(dummy_header, content, *args, **kwargs):
    """the same with a replaced file descriptor reader (like the test-suite does)"""

    def dummy_read_file_descriptor(f):
        f.read(2)
        return dummy_header

    io.read_file_descriptor = dummy_read_file_descriptor
    try:
        return call(content, *args, **kwargs)
    finally:
        io.read_file_descriptor = _orig_read_file_descriptor


def cases():
    out = {}

    for kind, record_length in ((11, 192 + 8), (10, 544 + 12), (11, 192), (11, 192 + 1)):
        for n_records in (0, 1, 2, 3, 5, 8):
            content = make_file(kind, n_records, record_length)
            for rpc in (1, 2, 3, 4, 5, 7, 8, 9, 1024):
                out[f"real-{kind}-{record_length}-{n_records}-rpc{rpc}"] = call(content, rpc)
            out[f"real-{kind}-{record_length}-{n_records}-default"] = call(content)
            out[f"real-{kind}-{record_length}-{n_records}-kw"] = call(
                content, records_per_chunk=2
            )

    content = make_file(11, 5, 200)
    # odd chunk size arguments
    out["rpc-none"] = call(content, None)
    out["rpc-zero"] = call(content, 0)
    out["rpc-negative"] = call(content, -1)
    out["rpc-negative2"] = call(content, -3)
    out["rpc-float"] = call(content, 2.0)
    out["rpc-float2"] = call(content, 2.5)
    out["rpc-true"] = call(content, True)
    out["rpc-str"] = call(content, "2")
    out["rpc-huge"] = call(content, 10**12)

    # broken files
    out["declared-more"] = call(make_file(11, 3, 200, declared=5), 2)
    out["declared-more-1"] = call(make_file(11, 3, 200, declared=5), 1)
    out["declared-more-big"] = call(make_file(11, 3, 200, declared=5), 1024)
    out["declared-less"] = call(make_file(11, 5, 200, declared=3), 2)
    out["declared-blank"] = call(make_file(11, 2, 200, declared=""), 2)
    out["declared-zero-with-records"] = call(make_file(11, 2, 200, declared=0), 2)
    for truncate in (0, 100, 719, 720, 721, 731, 732, 800, 919, 920, 921, 1120, 1500):
        out[f"truncated-{truncate}-rpc2"] = call(make_file(11, 4, 200, truncate=truncate), 2)
        out[f"truncated-{truncate}-rpc1"] = call(make_file(11, 4, 200, truncate=truncate), 1)
    for bad in (0, 1, 2, 3, 4):
        for rpc in (1, 2, 3, 1024):
            out[f"badtype-{bad}-rpc{rpc}"] = call(make_file(11, 5, 200, bad_type_at=bad), rpc)
    # record length in the header differs from the record length in the preambles
    shifted = make_header(3, 210) + b"".join(make_record(11, seq, 200) for seq in range(4))
    out["length-mismatch"] = call(shifted, 2)
    shifted = make_header(3, 100) + b"".join(make_record(11, seq, 200) for seq in range(4))
    out["length-too-short"] = call(shifted, 2)
    out["length-zero"] = call(make_header(3, 0) + make_record(11, 0, 200), 2)
    out["length-blank"] = call(make_header(3, "") + make_record(11, 0, 200), 2)
    mixed = make_header(4, 600) + b"".join(
        make_record(kind, seq, 600) for seq, kind in enumerate((11, 11, 10, 10))
    )
    out["mixed-kinds-rpc2"] = call(mixed, 2)
    out["mixed-kinds-rpc3"] = call(mixed, 3)
    out["mixed-kinds-rpc4"] = call(mixed, 4)

    # replaced file descriptor reader: arbitrary header contents
    body = b"\x03\x0e" + b"".join(make_record(11, seq, 200) for seq in range(3))
    for rpc in (1, 2, 3, 4):
        out[f"dummy-rpc{rpc}"] = call_dummy(
            {"number_of_sar_data_records": 3, "sar_data_record_length": 200, "x": (1, "a")},
            body,
            rpc,
        )
    out["dummy-size-none-empty"] = call_dummy(
        {"number_of_sar_data_records": 0, "sar_data_record_length": None}, body, 2
    )
    out["dummy-size-none"] = call_dummy(
        {"number_of_sar_data_records": 2, "sar_data_record_length": None}, body, 2
    )
    out["dummy-size-str-empty"] = call_dummy(
        {"number_of_sar_data_records": 0, "sar_data_record_length": "ab"}, body, 2
    )
    out["dummy-count-none"] = call_dummy(
        {"number_of_sar_data_records": None, "sar_data_record_length": 200}, body, 2
    )
    out["dummy-count-float"] = call_dummy(
        {"number_of_sar_data_records": 3.0, "sar_data_record_length": 200}, body, 2
    )
    out["dummy-count-fraction"] = call_dummy(
        {"number_of_sar_data_records": 2.5, "sar_data_record_length": 200}, body, 2
    )
    out["dummy-missing-count"] = call_dummy({"sar_data_record_length": 200}, body, 2)
    out["dummy-missing-size"] = call_dummy({"number_of_sar_data_records": 3}, body, 2)
    out["dummy-not-a-mapping"] = call_dummy(None, body, 2)

    # replaced record table (like the test-suite does)
    from construct import Int8ub, Seek, Struct, Tell, this

    io.record_types = {
        11: Struct(
            "preamble" / io.record_preamble,
            "record_start" / Tell,
            "a" / Int8ub,
            "data" / Struct("start" / Tell, "stop" / Seek(this.start + 4)),
        )
    }
    try:
        content = b"\x03\x0e" + b"".join(
            struct.pack(">IBBBBI", seq, 0, 11, 0, 0, 17) + bytes([seq + 3, 0, 0, 0, 0])
            for seq in range(1, 4)
        )
        for rpc in (1, 2, 3, 5):
            out[f"dummy-table-rpc{rpc}"] = call_dummy(
                {"number_of_sar_data_records": 3, "sar_data_record_length": 17}, content, rpc
            )
    finally:
        io.record_types = _orig_record_types

    return out


def digest(text):
    if len(text) <= 400:
        return text
    return f"sha256:{hashlib.sha256(text.encode()).hexdigest()} len={len(text)}"


# EXPECTED-BEGIN
EXPECTED = {'real-11-200-0-rpc1': 'sha256:668260339b9657f2d8a155b9c76fb70872d2cdc8ede4643c2bc8428356e7f69b '
                       'len=3206',
 'real-11-200-0-rpc2': 'sha256:668260339b9657f2d8a155b9c76fb70872d2cdc8ede4643c2bc8428356e7f69b '
                       'len=3206',
 'real-11-200-0-rpc3': 'sha256:668260339b9657f2d8a155b9c76fb70872d2cdc8ede4643c2bc8428356e7f69b '
                       'len=3206',
 'real-11-200-0-rpc4': 'sha256:668260339b9657f2d8a155b9c76fb70872d2cdc8ede4643c2bc8428356e7f69b '
                       'len=3206',
 'real-11-200-0-rpc5': 'sha256:668260339b9657f2d8a155b9c76fb70872d2cdc8ede4643c2bc8428356e7f69b '
                       'len=3206',
 'real-11-200-0-rpc7': 'sha256:668260339b9657f2d8a155b9c76fb70872d2cdc8ede4643c2bc8428356e7f69b '
                       'len=3206',
 'real-11-200-0-rpc8': 'sha256:668260339b9657f2d8a155b9c76fb70872d2cdc8ede4643c2bc8428356e7f69b '
                       'len=3206',
 'real-11-200-0-rpc9': 'sha256:668260339b9657f2d8a155b9c76fb70872d2cdc8ede4643c2bc8428356e7f69b '
                       'len=3206',
 'real-11-200-0-rpc1024': 'sha256:668260339b9657f2d8a155b9c76fb70872d2cdc8ede4643c2bc8428356e7f69b '
                          'len=3206',
 'real-11-200-0-default': 'sha256:668260339b9657f2d8a155b9c76fb70872d2cdc8ede4643c2bc8428356e7f69b '
                          'len=3206',
 'real-11-200-0-kw': 'sha256:668260339b9657f2d8a155b9c76fb70872d2cdc8ede4643c2bc8428356e7f69b '
                     'len=3206',
 'real-11-200-1-rpc1': 'sha256:9da2cc5dea9b32c6ed5df5d81b401f1525dfa0825dcd9c729c0eb1f0849ca9bb '
                       'len=6159',
 'real-11-200-1-rpc2': 'sha256:9da2cc5dea9b32c6ed5df5d81b401f1525dfa0825dcd9c729c0eb1f0849ca9bb '
                       'len=6159',
 'real-11-200-1-rpc3': 'sha256:9da2cc5dea9b32c6ed5df5d81b401f1525dfa0825dcd9c729c0eb1f0849ca9bb '
                       'len=6159',
 'real-11-200-1-rpc4': 'sha256:9da2cc5dea9b32c6ed5df5d81b401f1525dfa0825dcd9c729c0eb1f0849ca9bb '
                       'len=6159',
 'real-11-200-1-rpc5': 'sha256:9da2cc5dea9b32c6ed5df5d81b401f1525dfa0825dcd9c729c0eb1f0849ca9bb '
                       'len=6159',
 'real-11-200-1-rpc7': 'sha256:9da2cc5dea9b32c6ed5df5d81b401f1525dfa0825dcd9c729c0eb1f0849ca9bb '
                       'len=6159',
 'real-11-200-1-rpc8': 'sha256:9da2cc5dea9b32c6ed5df5d81b401f1525dfa0825dcd9c729c0eb1f0849ca9bb '
                       'len=6159',
 'real-11-200-1-rpc9': 'sha256:9da2cc5dea9b32c6ed5df5d81b401f1525dfa0825dcd9c729c0eb1f0849ca9bb '
                       'len=6159',
 'real-11-200-1-rpc1024': 'sha256:9da2cc5dea9b32c6ed5df5d81b401f1525dfa0825dcd9c729c0eb1f0849ca9bb '
                          'len=6159',
 'real-11-200-1-default': 'sha256:9da2cc5dea9b32c6ed5df5d81b401f1525dfa0825dcd9c729c0eb1f0849ca9bb '
                          'len=6159',
 'real-11-200-1-kw': 'sha256:9da2cc5dea9b32c6ed5df5d81b401f1525dfa0825dcd9c729c0eb1f0849ca9bb '
                     'len=6159',
 'real-11-200-2-rpc1': 'sha256:ff1a39a17bba47fdcb9b1c9a92f2d20445cab7b90b7e566df853f48f26b31c3e '
                       'len=9121',
 'real-11-200-2-rpc2': 'sha256:231487aff753f358aaf47330f238ecb289b45d91b85808811509ca771b9d4adf '
                       'len=9034',
 'real-11-200-2-rpc3': 'sha256:231487aff753f358aaf47330f238ecb289b45d91b85808811509ca771b9d4adf '
                       'len=9034',
 'real-11-200-2-rpc4': 'sha256:231487aff753f358aaf47330f238ecb289b45d91b85808811509ca771b9d4adf '
                       'len=9034',
 'real-11-200-2-rpc5': 'sha256:231487aff753f358aaf47330f238ecb289b45d91b85808811509ca771b9d4adf '
                       'len=9034',
 'real-11-200-2-rpc7': 'sha256:231487aff753f358aaf47330f238ecb289b45d91b85808811509ca771b9d4adf '
                       'len=9034',
 'real-11-200-2-rpc8': 'sha256:231487aff753f358aaf47330f238ecb289b45d91b85808811509ca771b9d4adf '
                       'len=9034',
 'real-11-200-2-rpc9': 'sha256:231487aff753f358aaf47330f238ecb289b45d91b85808811509ca771b9d4adf '
                       'len=9034',
 'real-11-200-2-rpc1024': 'sha256:231487aff753f358aaf47330f238ecb289b45d91b85808811509ca771b9d4adf '
                          'len=9034',
 'real-11-200-2-default': 'sha256:231487aff753f358aaf47330f238ecb289b45d91b85808811509ca771b9d4adf '
                          'len=9034',
 'real-11-200-2-kw': 'sha256:231487aff753f358aaf47330f238ecb289b45d91b85808811509ca771b9d4adf '
                     'len=9034',
 'real-11-200-3-rpc1': 'sha256:c9bf1b9c4ba02e45cd97ab38d07928abd728966248d5b8ac41d408c842a7cf4c '
                       'len=12096',
 'real-11-200-3-rpc2': 'sha256:c6ab77832c1bea4db974ee8cb159ff545348da5561c2bbb8cc9787ceb7b56708 '
                       'len=12009',
 'real-11-200-3-rpc3': 'sha256:c1361129df4aecb0c79b8116e53a470f7af9e0c1b2213af38317dad609edd0eb '
                       'len=11920',
 'real-11-200-3-rpc4': 'sha256:c1361129df4aecb0c79b8116e53a470f7af9e0c1b2213af38317dad609edd0eb '
                       'len=11920',
 'real-11-200-3-rpc5': 'sha256:c1361129df4aecb0c79b8116e53a470f7af9e0c1b2213af38317dad609edd0eb '
                       'len=11920',
 'real-11-200-3-rpc7': 'sha256:c1361129df4aecb0c79b8116e53a470f7af9e0c1b2213af38317dad609edd0eb '
                       'len=11920',
 'real-11-200-3-rpc8': 'sha256:c1361129df4aecb0c79b8116e53a470f7af9e0c1b2213af38317dad609edd0eb '
                       'len=11920',
 'real-11-200-3-rpc9': 'sha256:c1361129df4aecb0c79b8116e53a470f7af9e0c1b2213af38317dad609edd0eb '
                       'len=11920',
 'real-11-200-3-rpc1024': 'sha256:c1361129df4aecb0c79b8116e53a470f7af9e0c1b2213af38317dad609edd0eb '
                          'len=11920',
 'real-11-200-3-default': 'sha256:c1361129df4aecb0c79b8116e53a470f7af9e0c1b2213af38317dad609edd0eb '
                          'len=11920',
 'real-11-200-3-kw': 'sha256:c6ab77832c1bea4db974ee8cb159ff545348da5561c2bbb8cc9787ceb7b56708 '
                     'len=12009',
 'real-11-200-5-rpc1': 'sha256:dfd9bf3fe8518e1b2bb23ecccc7838ab1c5e85d5034804a13e9dd5228204ebe2 '
                       'len=18026',
 'real-11-200-5-rpc2': 'sha256:23450770a6e44c39241c418647b6ddeb45a499c9dcb29b4eb279c078fcdceaf8 '
                       'len=17850',
 'real-11-200-5-rpc3': 'sha256:b975133f4f95a401518959f1c915f6ca6f2e13861625f8ef11794744d95acfe5 '
                       'len=17761',
 'real-11-200-5-rpc4': 'sha256:a8a26d0bb456e9457a822c087d9c3b11707aa1b0b5cf4283aae05f6a6a90b528 '
                       'len=17761',
 'real-11-200-5-rpc5': 'sha256:bbd05a9117597bae369209bbb885688211877e017916175d46a43ebeaf20c9b5 '
                       'len=17675',
 'real-11-200-5-rpc7': 'sha256:bbd05a9117597bae369209bbb885688211877e017916175d46a43ebeaf20c9b5 '
                       'len=17675',
 'real-11-200-5-rpc8': 'sha256:bbd05a9117597bae369209bbb885688211877e017916175d46a43ebeaf20c9b5 '
                       'len=17675',
 'real-11-200-5-rpc9': 'sha256:bbd05a9117597bae369209bbb885688211877e017916175d46a43ebeaf20c9b5 '
                       'len=17675',
 'real-11-200-5-rpc1024': 'sha256:bbd05a9117597bae369209bbb885688211877e017916175d46a43ebeaf20c9b5 '
                          'len=17675',
 'real-11-200-5-default': 'sha256:bbd05a9117597bae369209bbb885688211877e017916175d46a43ebeaf20c9b5 '
                          'len=17675',
 'real-11-200-5-kw': 'sha256:23450770a6e44c39241c418647b6ddeb45a499c9dcb29b4eb279c078fcdceaf8 '
                     'len=17850',
 'real-11-200-8-rpc1': 'sha256:f283cf9d97baef2d1a62120d0edc0b4f92983da1bb445aac1ff41c24a99254c9 '
                       'len=26920',
 'real-11-200-8-rpc2': 'sha256:6523874d6a7a014a130a2a150f2a2841c5997c5c6baca7bfd4fef3511efad952 '
                       'len=26566',
 'real-11-200-8-rpc3': 'sha256:2c4302cf96f9972390e39e67884f62fb5b4191c320fd17df8f4910c09084c33d '
                       'len=26477',
 'real-11-200-8-rpc4': 'sha256:e860c782200e148b684ed11189865973c98be7fa41555e71c95348f50a1a5d74 '
                       'len=26388',
 'real-11-200-8-rpc5': 'sha256:e950894e1eb84cf3f75dea78626319465bfebb6ec22af77ec723439ac233e6df '
                       'len=26391',
 'real-11-200-8-rpc7': 'sha256:89b45d604709b6c0b5b1b20451c74815d4e6a0be1767a5e9529a37217a7f4b9a '
                       'len=26391',
 'real-11-200-8-rpc8': 'sha256:ac841197a3270f29559d01eafd182266d406cf20a710d04e8039ba63edbbd4b9 '
                       'len=26302',
 'real-11-200-8-rpc9': 'sha256:ac841197a3270f29559d01eafd182266d406cf20a710d04e8039ba63edbbd4b9 '
                       'len=26302',
 'real-11-200-8-rpc1024': 'sha256:ac841197a3270f29559d01eafd182266d406cf20a710d04e8039ba63edbbd4b9 '
                          'len=26302',
 'real-11-200-8-default': 'sha256:ac841197a3270f29559d01eafd182266d406cf20a710d04e8039ba63edbbd4b9 '
                          'len=26302',
 'real-11-200-8-kw': 'sha256:6523874d6a7a014a130a2a150f2a2841c5997c5c6baca7bfd4fef3511efad952 '
                     'len=26566',
 'real-10-556-0-rpc1': 'sha256:1ea05fd3baeb518ee527cbc43a0eb4eb84a9be90ea917ecdeb321df010168129 '
                       'len=3206',
 'real-10-556-0-rpc2': 'sha256:1ea05fd3baeb518ee527cbc43a0eb4eb84a9be90ea917ecdeb321df010168129 '
                       'len=3206',
 'real-10-556-0-rpc3': 'sha256:1ea05fd3baeb518ee527cbc43a0eb4eb84a9be90ea917ecdeb321df010168129 '
                       'len=3206',
 'real-10-556-0-rpc4': 'sha256:1ea05fd3baeb518ee527cbc43a0eb4eb84a9be90ea917ecdeb321df010168129 '
                       'len=3206',
 'real-10-556-0-rpc5': 'sha256:1ea05fd3baeb518ee527cbc43a0eb4eb84a9be90ea917ecdeb321df010168129 '
                       'len=3206',
 'real-10-556-0-rpc7': 'sha256:1ea05fd3baeb518ee527cbc43a0eb4eb84a9be90ea917ecdeb321df010168129 '
                       'len=3206',
 'real-10-556-0-rpc8': 'sha256:1ea05fd3baeb518ee527cbc43a0eb4eb84a9be90ea917ecdeb321df010168129 '
                       'len=3206',
 'real-10-556-0-rpc9': 'sha256:1ea05fd3baeb518ee527cbc43a0eb4eb84a9be90ea917ecdeb321df010168129 '
                       'len=3206',
 'real-10-556-0-rpc1024': 'sha256:1ea05fd3baeb518ee527cbc43a0eb4eb84a9be90ea917ecdeb321df010168129 '
                          'len=3206',
 'real-10-556-0-default': 'sha256:1ea05fd3baeb518ee527cbc43a0eb4eb84a9be90ea917ecdeb321df010168129 '
                          'len=3206',
 'real-10-556-0-kw': 'sha256:1ea05fd3baeb518ee527cbc43a0eb4eb84a9be90ea917ecdeb321df010168129 '
                     'len=3206',
 'real-10-556-1-rpc1': 'sha256:85c12cd8be6248599f42512364eccd18b13ebcad700fd1a0600fbc59b533e9af '
                       'len=7144',
 'real-10-556-1-rpc2': 'sha256:85c12cd8be6248599f42512364eccd18b13ebcad700fd1a0600fbc59b533e9af '
                       'len=7144',
 'real-10-556-1-rpc3': 'sha256:85c12cd8be6248599f42512364eccd18b13ebcad700fd1a0600fbc59b533e9af '
                       'len=7144',
 'real-10-556-1-rpc4': 'sha256:85c12cd8be6248599f42512364eccd18b13ebcad700fd1a0600fbc59b533e9af '
                       'len=7144',
 'real-10-556-1-rpc5': 'sha256:85c12cd8be6248599f42512364eccd18b13ebcad700fd1a0600fbc59b533e9af '
                       'len=7144',
 'real-10-556-1-rpc7': 'sha256:85c12cd8be6248599f42512364eccd18b13ebcad700fd1a0600fbc59b533e9af '
                       'len=7144',
 'real-10-556-1-rpc8': 'sha256:85c12cd8be6248599f42512364eccd18b13ebcad700fd1a0600fbc59b533e9af '
                       'len=7144',
 'real-10-556-1-rpc9': 'sha256:85c12cd8be6248599f42512364eccd18b13ebcad700fd1a0600fbc59b533e9af '
                       'len=7144',
 'real-10-556-1-rpc1024': 'sha256:85c12cd8be6248599f42512364eccd18b13ebcad700fd1a0600fbc59b533e9af '
                          'len=7144',
 'real-10-556-1-default': 'sha256:85c12cd8be6248599f42512364eccd18b13ebcad700fd1a0600fbc59b533e9af '
                          'len=7144',
 'real-10-556-1-kw': 'sha256:85c12cd8be6248599f42512364eccd18b13ebcad700fd1a0600fbc59b533e9af '
                     'len=7144',
 'real-10-556-2-rpc1': 'sha256:1f8403ae6c0f4930aa5b07b1b2b7692e27c94370a4eb51201374d53bcfd6c3dc '
                       'len=11095',
 'real-10-556-2-rpc2': 'sha256:f6ad7006992a06b9eb0b471113a9c80124fc3501f487bdb3a19bf615bdb45d51 '
                       'len=11009',
 'real-10-556-2-rpc3': 'sha256:f6ad7006992a06b9eb0b471113a9c80124fc3501f487bdb3a19bf615bdb45d51 '
                       'len=11009',
 'real-10-556-2-rpc4': 'sha256:f6ad7006992a06b9eb0b471113a9c80124fc3501f487bdb3a19bf615bdb45d51 '
                       'len=11009',
 'real-10-556-2-rpc5': 'sha256:f6ad7006992a06b9eb0b471113a9c80124fc3501f487bdb3a19bf615bdb45d51 '
                       'len=11009',
 'real-10-556-2-rpc7': 'sha256:f6ad7006992a06b9eb0b471113a9c80124fc3501f487bdb3a19bf615bdb45d51 '
                       'len=11009',
 'real-10-556-2-rpc8': 'sha256:f6ad7006992a06b9eb0b471113a9c80124fc3501f487bdb3a19bf615bdb45d51 '
                       'len=11009',
 'real-10-556-2-rpc9': 'sha256:f6ad7006992a06b9eb0b471113a9c80124fc3501f487bdb3a19bf615bdb45d51 '
                       'len=11009',
 'real-10-556-2-rpc1024': 'sha256:f6ad7006992a06b9eb0b471113a9c80124fc3501f487bdb3a19bf615bdb45d51 '
                          'len=11009',
 'real-10-556-2-default': 'sha256:f6ad7006992a06b9eb0b471113a9c80124fc3501f487bdb3a19bf615bdb45d51 '
                          'len=11009',
 'real-10-556-2-kw': 'sha256:f6ad7006992a06b9eb0b471113a9c80124fc3501f487bdb3a19bf615bdb45d51 '
                     'len=11009',
 'real-10-556-3-rpc1': 'sha256:9c5623fc7ec2b04d8dece983d164a74bd98288f8585144534cac85b7ad5f7374 '
                       'len=15058',
 'real-10-556-3-rpc2': 'sha256:9455678c83f3c487c94810ee3a89392da34ca99eaa75e29c56e34b5e8285a873 '
                       'len=14972',
 'real-10-556-3-rpc3': 'sha256:62362989ce51b39ce1ebf0e3fce2e3f29025d88fa8491792bc8a7f23d6750c1d '
                       'len=14883',
 'real-10-556-3-rpc4': 'sha256:62362989ce51b39ce1ebf0e3fce2e3f29025d88fa8491792bc8a7f23d6750c1d '
                       'len=14883',
 'real-10-556-3-rpc5': 'sha256:62362989ce51b39ce1ebf0e3fce2e3f29025d88fa8491792bc8a7f23d6750c1d '
                       'len=14883',
 'real-10-556-3-rpc7': 'sha256:62362989ce51b39ce1ebf0e3fce2e3f29025d88fa8491792bc8a7f23d6750c1d '
                       'len=14883',
 'real-10-556-3-rpc8': 'sha256:62362989ce51b39ce1ebf0e3fce2e3f29025d88fa8491792bc8a7f23d6750c1d '
                       'len=14883',
 'real-10-556-3-rpc9': 'sha256:62362989ce51b39ce1ebf0e3fce2e3f29025d88fa8491792bc8a7f23d6750c1d '
                       'len=14883',
 'real-10-556-3-rpc1024': 'sha256:62362989ce51b39ce1ebf0e3fce2e3f29025d88fa8491792bc8a7f23d6750c1d '
                          'len=14883',
 'real-10-556-3-default': 'sha256:62362989ce51b39ce1ebf0e3fce2e3f29025d88fa8491792bc8a7f23d6750c1d '
                          'len=14883',
 'real-10-556-3-kw': 'sha256:9455678c83f3c487c94810ee3a89392da34ca99eaa75e29c56e34b5e8285a873 '
                     'len=14972',
 'real-10-556-5-rpc1': 'sha256:33dce213535687ebce1a994706dfe5dfc203c0ee0e6c2456948e17dd1d8574af '
                       'len=22971',
 'real-10-556-5-rpc2': 'sha256:eda9f5afe1de09b733b60066df2b59c41322eea8ea3729f8403a4151e51883cd '
                       'len=22799',
 'real-10-556-5-rpc3': 'sha256:5c077df61a82ae0c9cd4e97f9e08d604b8078da6f15090d6fdd320cd23a84ec2 '
                       'len=22710',
 'real-10-556-5-rpc4': 'sha256:fdc56b3df60640809b107893e415f86382a49157be4bb1ffe7f3b75328997cf5 '
                       'len=22707',
 'real-10-556-5-rpc5': 'sha256:7c1ad434f15ef724ef43545d97c32c772998343d974e0d2cf99972e97e89b334 '
                       'len=22618',
 'real-10-556-5-rpc7': 'sha256:7c1ad434f15ef724ef43545d97c32c772998343d974e0d2cf99972e97e89b334 '
                       'len=22618',
 'real-10-556-5-rpc8': 'sha256:7c1ad434f15ef724ef43545d97c32c772998343d974e0d2cf99972e97e89b334 '
                       'len=22618',
 'real-10-556-5-rpc9': 'sha256:7c1ad434f15ef724ef43545d97c32c772998343d974e0d2cf99972e97e89b334 '
                       'len=22618',
 'real-10-556-5-rpc1024': 'sha256:7c1ad434f15ef724ef43545d97c32c772998343d974e0d2cf99972e97e89b334 '
                          'len=22618',
 'real-10-556-5-default': 'sha256:7c1ad434f15ef724ef43545d97c32c772998343d974e0d2cf99972e97e89b334 '
                          'len=22618',
 'real-10-556-5-kw': 'sha256:eda9f5afe1de09b733b60066df2b59c41322eea8ea3729f8403a4151e51883cd '
                     'len=22799',
 'real-10-556-8-rpc1': 'sha256:b13a2bdc97566d8cda3011a28e3737ccd6c4c8d17a4aae40ce2488087338e59c '
                       'len=34835',
 'real-10-556-8-rpc2': 'sha256:01eb26917fe35db12e6d6039b72f67f3015c78fd443cf339b127bd2c548b298e '
                       'len=34491',
 'real-10-556-8-rpc3': 'sha256:12b950cfd6ba36f2836597174a15120142f9c701627a3e6f7c0d294bafb9dd5d '
                       'len=34399',
 'real-10-556-8-rpc4': 'sha256:5203c27da0faa94c22c5ca95a1647c413fc12b27a897e541d954614e72e4f86c '
                       'len=34307',
 'real-10-556-8-rpc5': 'sha256:abc2e99cd2f32273caa8bc243096e508fa869e5293e1881ef53de5ad9645df87 '
                       'len=34307',
 'real-10-556-8-rpc7': 'sha256:de613edb51d68bc4949bb4efce23726c3ee67c3c337008d9b2be5bf5b529e3b3 '
                       'len=34304',
 'real-10-556-8-rpc8': 'sha256:b3616d593272d7f31ade84fae7741f81db92193b1de1bb87ba1e1ded4465cc4b '
                       'len=34215',
 'real-10-556-8-rpc9': 'sha256:b3616d593272d7f31ade84fae7741f81db92193b1de1bb87ba1e1ded4465cc4b '
                       'len=34215',
 'real-10-556-8-rpc1024': 'sha256:b3616d593272d7f31ade84fae7741f81db92193b1de1bb87ba1e1ded4465cc4b '
                          'len=34215',
 'real-10-556-8-default': 'sha256:b3616d593272d7f31ade84fae7741f81db92193b1de1bb87ba1e1ded4465cc4b '
                          'len=34215',
 'real-10-556-8-kw': 'sha256:01eb26917fe35db12e6d6039b72f67f3015c78fd443cf339b127bd2c548b298e '
                     'len=34491',
 'real-11-192-0-rpc1': 'sha256:9c3b81e586dfdb34f93a7a5571e094e694fe93d39cfb65f4050acd94a64957d0 '
                       'len=3206',
 'real-11-192-0-rpc2': 'sha256:9c3b81e586dfdb34f93a7a5571e094e694fe93d39cfb65f4050acd94a64957d0 '
                       'len=3206',
 'real-11-192-0-rpc3': 'sha256:9c3b81e586dfdb34f93a7a5571e094e694fe93d39cfb65f4050acd94a64957d0 '
                       'len=3206',
 'real-11-192-0-rpc4': 'sha256:9c3b81e586dfdb34f93a7a5571e094e694fe93d39cfb65f4050acd94a64957d0 '
                       'len=3206',
 'real-11-192-0-rpc5': 'sha256:9c3b81e586dfdb34f93a7a5571e094e694fe93d39cfb65f4050acd94a64957d0 '
                       'len=3206',
 'real-11-192-0-rpc7': 'sha256:9c3b81e586dfdb34f93a7a5571e094e694fe93d39cfb65f4050acd94a64957d0 '
                       'len=3206',
 'real-11-192-0-rpc8': 'sha256:9c3b81e586dfdb34f93a7a5571e094e694fe93d39cfb65f4050acd94a64957d0 '
                       'len=3206',
 'real-11-192-0-rpc9': 'sha256:9c3b81e586dfdb34f93a7a5571e094e694fe93d39cfb65f4050acd94a64957d0 '
                       'len=3206',
 'real-11-192-0-rpc1024': 'sha256:9c3b81e586dfdb34f93a7a5571e094e694fe93d39cfb65f4050acd94a64957d0 '
                          'len=3206',
 'real-11-192-0-default': 'sha256:9c3b81e586dfdb34f93a7a5571e094e694fe93d39cfb65f4050acd94a64957d0 '
                          'len=3206',
 'real-11-192-0-kw': 'sha256:9c3b81e586dfdb34f93a7a5571e094e694fe93d39cfb65f4050acd94a64957d0 '
                     'len=3206',
 'real-11-192-1-rpc1': 'sha256:e895088c81582e6050401768aa2f29bf8f0565f52281d000142be3c39bd5ed8b '
                       'len=6159',
 'real-11-192-1-rpc2': 'sha256:e895088c81582e6050401768aa2f29bf8f0565f52281d000142be3c39bd5ed8b '
                       'len=6159',
 'real-11-192-1-rpc3': 'sha256:e895088c81582e6050401768aa2f29bf8f0565f52281d000142be3c39bd5ed8b '
                       'len=6159',
 'real-11-192-1-rpc4': 'sha256:e895088c81582e6050401768aa2f29bf8f0565f52281d000142be3c39bd5ed8b '
                       'len=6159',
 'real-11-192-1-rpc5': 'sha256:e895088c81582e6050401768aa2f29bf8f0565f52281d000142be3c39bd5ed8b '
                       'len=6159',
 'real-11-192-1-rpc7': 'sha256:e895088c81582e6050401768aa2f29bf8f0565f52281d000142be3c39bd5ed8b '
                       'len=6159',
 'real-11-192-1-rpc8': 'sha256:e895088c81582e6050401768aa2f29bf8f0565f52281d000142be3c39bd5ed8b '
                       'len=6159',
 'real-11-192-1-rpc9': 'sha256:e895088c81582e6050401768aa2f29bf8f0565f52281d000142be3c39bd5ed8b '
                       'len=6159',
 'real-11-192-1-rpc1024': 'sha256:e895088c81582e6050401768aa2f29bf8f0565f52281d000142be3c39bd5ed8b '
                          'len=6159',
 'real-11-192-1-default': 'sha256:e895088c81582e6050401768aa2f29bf8f0565f52281d000142be3c39bd5ed8b '
                          'len=6159',
 'real-11-192-1-kw': 'sha256:e895088c81582e6050401768aa2f29bf8f0565f52281d000142be3c39bd5ed8b '
                     'len=6159',
 'real-11-192-2-rpc1': 'sha256:03ffb74ccd5ba03a47b518b77d83f2921529c614149dc4208899e319a405937a '
                       'len=9121',
 'real-11-192-2-rpc2': 'sha256:f8d9cba48c3db19425d397e3ea5dfc21c9dd13f335dda3009ab9f31f86cf1945 '
                       'len=9034',
 'real-11-192-2-rpc3': 'sha256:f8d9cba48c3db19425d397e3ea5dfc21c9dd13f335dda3009ab9f31f86cf1945 '
                       'len=9034',
 'real-11-192-2-rpc4': 'sha256:f8d9cba48c3db19425d397e3ea5dfc21c9dd13f335dda3009ab9f31f86cf1945 '
                       'len=9034',
 'real-11-192-2-rpc5': 'sha256:f8d9cba48c3db19425d397e3ea5dfc21c9dd13f335dda3009ab9f31f86cf1945 '
                       'len=9034',
 'real-11-192-2-rpc7': 'sha256:f8d9cba48c3db19425d397e3ea5dfc21c9dd13f335dda3009ab9f31f86cf1945 '
                       'len=9034',
 'real-11-192-2-rpc8': 'sha256:f8d9cba48c3db19425d397e3ea5dfc21c9dd13f335dda3009ab9f31f86cf1945 '
                       'len=9034',
 'real-11-192-2-rpc9': 'sha256:f8d9cba48c3db19425d397e3ea5dfc21c9dd13f335dda3009ab9f31f86cf1945 '
                       'len=9034',
 'real-11-192-2-rpc1024': 'sha256:f8d9cba48c3db19425d397e3ea5dfc21c9dd13f335dda3009ab9f31f86cf1945 '
                          'len=9034',
 'real-11-192-2-default': 'sha256:f8d9cba48c3db19425d397e3ea5dfc21c9dd13f335dda3009ab9f31f86cf1945 '
                          'len=9034',
 'real-11-192-2-kw': 'sha256:f8d9cba48c3db19425d397e3ea5dfc21c9dd13f335dda3009ab9f31f86cf1945 '
                     'len=9034',
 'real-11-192-3-rpc1': 'sha256:767542781c520b2b7550f08102fc24358d8c68142681845b1666f896c2f15312 '
                       'len=12096',
 'real-11-192-3-rpc2': 'sha256:7d37d0426c45d0ad0b1953c266ef1447cf5516886a7a860febc08e197ef98d7d '
                       'len=12009',
 'real-11-192-3-rpc3': 'sha256:289e6876b9322315352de12da3d49e1a29ea6419adbe6f44c403af3ed4119d05 '
                       'len=11920',
 'real-11-192-3-rpc4': 'sha256:289e6876b9322315352de12da3d49e1a29ea6419adbe6f44c403af3ed4119d05 '
                       'len=11920',
 'real-11-192-3-rpc5': 'sha256:289e6876b9322315352de12da3d49e1a29ea6419adbe6f44c403af3ed4119d05 '
                       'len=11920',
 'real-11-192-3-rpc7': 'sha256:289e6876b9322315352de12da3d49e1a29ea6419adbe6f44c403af3ed4119d05 '
                       'len=11920',
 'real-11-192-3-rpc8': 'sha256:289e6876b9322315352de12da3d49e1a29ea6419adbe6f44c403af3ed4119d05 '
                       'len=11920',
 'real-11-192-3-rpc9': 'sha256:289e6876b9322315352de12da3d49e1a29ea6419adbe6f44c403af3ed4119d05 '
                       'len=11920',
 'real-11-192-3-rpc1024': 'sha256:289e6876b9322315352de12da3d49e1a29ea6419adbe6f44c403af3ed4119d05 '
                          'len=11920',
 'real-11-192-3-default': 'sha256:289e6876b9322315352de12da3d49e1a29ea6419adbe6f44c403af3ed4119d05 '
                          'len=11920',
 'real-11-192-3-kw': 'sha256:7d37d0426c45d0ad0b1953c266ef1447cf5516886a7a860febc08e197ef98d7d '
                     'len=12009',
 'real-11-192-5-rpc1': 'sha256:ec40da8d6590615127658741fcce31d0c882fb7af39c91377713dd734a93d921 '
                       'len=18026',
 'real-11-192-5-rpc2': 'sha256:e8113303c8a687f274aa2c6ce05b68e92c9bdfeee3bd62d30c6244cea5cd148e '
                       'len=17850',
 'real-11-192-5-rpc3': 'sha256:ddeafc0f5b2fb511f03f818c92fbd9431343d3bacd25cddfd1b167411fef2f34 '
                       'len=17761',
 'real-11-192-5-rpc4': 'sha256:fd089690906f1aac2683bb85413dcc5575a8257bd96d5c2716068a63bd1f6ec6 '
                       'len=17761',
 'real-11-192-5-rpc5': 'sha256:c66d467447f42b39ffc0bb9ee0bf5953740590b5afbf94088441920601d0ebe0 '
                       'len=17672',
 'real-11-192-5-rpc7': 'sha256:c66d467447f42b39ffc0bb9ee0bf5953740590b5afbf94088441920601d0ebe0 '
                       'len=17672',
 'real-11-192-5-rpc8': 'sha256:c66d467447f42b39ffc0bb9ee0bf5953740590b5afbf94088441920601d0ebe0 '
                       'len=17672',
 'real-11-192-5-rpc9': 'sha256:c66d467447f42b39ffc0bb9ee0bf5953740590b5afbf94088441920601d0ebe0 '
                       'len=17672',
 'real-11-192-5-rpc1024': 'sha256:c66d467447f42b39ffc0bb9ee0bf5953740590b5afbf94088441920601d0ebe0 '
                          'len=17672',
 'real-11-192-5-default': 'sha256:c66d467447f42b39ffc0bb9ee0bf5953740590b5afbf94088441920601d0ebe0 '
                          'len=17672',
 'real-11-192-5-kw': 'sha256:e8113303c8a687f274aa2c6ce05b68e92c9bdfeee3bd62d30c6244cea5cd148e '
                     'len=17850',
 'real-11-192-8-rpc1': 'sha256:0353c454f6479cee52272e74206b99abfbf263219c540e79ec11116cb0d6b100 '
                       'len=26920',
 'real-11-192-8-rpc2': 'sha256:b552e8e097ba618d9747b7f1205c9d5c1405f44bb33b3e3cd9304a8eea1e898e '
                       'len=26566',
 'real-11-192-8-rpc3': 'sha256:bd46296026b66c829fc60ad38964b02ba47a650647b124bb2f15427a873b6875 '
                       'len=26477',
 'real-11-192-8-rpc4': 'sha256:4c03c6f64473701e65dfbe2e369d131954eb16f069b06a82bdb0d2cd05efa725 '
                       'len=26388',
 'real-11-192-8-rpc5': 'sha256:6266e9a72cc1b346b9a850e5d7dab31e8050669184000be8313c1ca87748f753 '
                       'len=26388',
 'real-11-192-8-rpc7': 'sha256:44130541adb767d638b8e27d2d2a62179fc42be3c4f6815c81186ddb63f0e10d '
                       'len=26391',
 'real-11-192-8-rpc8': 'sha256:3cf3225c9eeab83aba36efc05ffb86855039d1045fb52f15adb2445feba095f3 '
                       'len=26302',
 'real-11-192-8-rpc9': 'sha256:3cf3225c9eeab83aba36efc05ffb86855039d1045fb52f15adb2445feba095f3 '
                       'len=26302',
 'real-11-192-8-rpc1024': 'sha256:3cf3225c9eeab83aba36efc05ffb86855039d1045fb52f15adb2445feba095f3 '
                          'len=26302',
 'real-11-192-8-default': 'sha256:3cf3225c9eeab83aba36efc05ffb86855039d1045fb52f15adb2445feba095f3 '
                          'len=26302',
 'real-11-192-8-kw': 'sha256:b552e8e097ba618d9747b7f1205c9d5c1405f44bb33b3e3cd9304a8eea1e898e '
                     'len=26566',
 'real-11-193-0-rpc1': 'sha256:135c0d09a14374ccb42c4e1afbbf04e6a8beeef2bc99a4827d30c5de5a999492 '
                       'len=3206',
 'real-11-193-0-rpc2': 'sha256:135c0d09a14374ccb42c4e1afbbf04e6a8beeef2bc99a4827d30c5de5a999492 '
                       'len=3206',
 'real-11-193-0-rpc3': 'sha256:135c0d09a14374ccb42c4e1afbbf04e6a8beeef2bc99a4827d30c5de5a999492 '
                       'len=3206',
 'real-11-193-0-rpc4': 'sha256:135c0d09a14374ccb42c4e1afbbf04e6a8beeef2bc99a4827d30c5de5a999492 '
                       'len=3206',
 'real-11-193-0-rpc5': 'sha256:135c0d09a14374ccb42c4e1afbbf04e6a8beeef2bc99a4827d30c5de5a999492 '
                       'len=3206',
 'real-11-193-0-rpc7': 'sha256:135c0d09a14374ccb42c4e1afbbf04e6a8beeef2bc99a4827d30c5de5a999492 '
                       'len=3206',
 'real-11-193-0-rpc8': 'sha256:135c0d09a14374ccb42c4e1afbbf04e6a8beeef2bc99a4827d30c5de5a999492 '
                       'len=3206',
 'real-11-193-0-rpc9': 'sha256:135c0d09a14374ccb42c4e1afbbf04e6a8beeef2bc99a4827d30c5de5a999492 '
                       'len=3206',
 'real-11-193-0-rpc1024': 'sha256:135c0d09a14374ccb42c4e1afbbf04e6a8beeef2bc99a4827d30c5de5a999492 '
                          'len=3206',
 'real-11-193-0-default': 'sha256:135c0d09a14374ccb42c4e1afbbf04e6a8beeef2bc99a4827d30c5de5a999492 '
                          'len=3206',
 'real-11-193-0-kw': 'sha256:135c0d09a14374ccb42c4e1afbbf04e6a8beeef2bc99a4827d30c5de5a999492 '
                     'len=3206',
 'real-11-193-1-rpc1': 'sha256:df0dc6cb69447e3da75d7f54013ec9ec819bb690dee469f7351b9ec057194aa4 '
                       'len=6159',
 'real-11-193-1-rpc2': 'sha256:df0dc6cb69447e3da75d7f54013ec9ec819bb690dee469f7351b9ec057194aa4 '
                       'len=6159',
 'real-11-193-1-rpc3': 'sha256:df0dc6cb69447e3da75d7f54013ec9ec819bb690dee469f7351b9ec057194aa4 '
                       'len=6159',
 'real-11-193-1-rpc4': 'sha256:df0dc6cb69447e3da75d7f54013ec9ec819bb690dee469f7351b9ec057194aa4 '
                       'len=6159',
 'real-11-193-1-rpc5': 'sha256:df0dc6cb69447e3da75d7f54013ec9ec819bb690dee469f7351b9ec057194aa4 '
                       'len=6159',
 'real-11-193-1-rpc7': 'sha256:df0dc6cb69447e3da75d7f54013ec9ec819bb690dee469f7351b9ec057194aa4 '
                       'len=6159',
 'real-11-193-1-rpc8': 'sha256:df0dc6cb69447e3da75d7f54013ec9ec819bb690dee469f7351b9ec057194aa4 '
                       'len=6159',
 'real-11-193-1-rpc9': 'sha256:df0dc6cb69447e3da75d7f54013ec9ec819bb690dee469f7351b9ec057194aa4 '
                       'len=6159',
 'real-11-193-1-rpc1024': 'sha256:df0dc6cb69447e3da75d7f54013ec9ec819bb690dee469f7351b9ec057194aa4 '
                          'len=6159',
 'real-11-193-1-default': 'sha256:df0dc6cb69447e3da75d7f54013ec9ec819bb690dee469f7351b9ec057194aa4 '
                          'len=6159',
 'real-11-193-1-kw': 'sha256:df0dc6cb69447e3da75d7f54013ec9ec819bb690dee469f7351b9ec057194aa4 '
                     'len=6159',
 'real-11-193-2-rpc1': 'sha256:8b88d573c2e0e348dcfb675d5e6444ebf8b2a4827c93442ba1690276bf6081da '
                       'len=9121',
 'real-11-193-2-rpc2': 'sha256:0784dbafc79fc5a79ead3680eac8f3f5006013a5fa29d56585331384068c5bdc '
                       'len=9034',
 'real-11-193-2-rpc3': 'sha256:0784dbafc79fc5a79ead3680eac8f3f5006013a5fa29d56585331384068c5bdc '
                       'len=9034',
 'real-11-193-2-rpc4': 'sha256:0784dbafc79fc5a79ead3680eac8f3f5006013a5fa29d56585331384068c5bdc '
                       'len=9034',
 'real-11-193-2-rpc5': 'sha256:0784dbafc79fc5a79ead3680eac8f3f5006013a5fa29d56585331384068c5bdc '
                       'len=9034',
 'real-11-193-2-rpc7': 'sha256:0784dbafc79fc5a79ead3680eac8f3f5006013a5fa29d56585331384068c5bdc '
                       'len=9034',
 'real-11-193-2-rpc8': 'sha256:0784dbafc79fc5a79ead3680eac8f3f5006013a5fa29d56585331384068c5bdc '
                       'len=9034',
 'real-11-193-2-rpc9': 'sha256:0784dbafc79fc5a79ead3680eac8f3f5006013a5fa29d56585331384068c5bdc '
                       'len=9034',
 'real-11-193-2-rpc1024': 'sha256:0784dbafc79fc5a79ead3680eac8f3f5006013a5fa29d56585331384068c5bdc '
                          'len=9034',
 'real-11-193-2-default': 'sha256:0784dbafc79fc5a79ead3680eac8f3f5006013a5fa29d56585331384068c5bdc '
                          'len=9034',
 'real-11-193-2-kw': 'sha256:0784dbafc79fc5a79ead3680eac8f3f5006013a5fa29d56585331384068c5bdc '
                     'len=9034',
 'real-11-193-3-rpc1': 'sha256:94fb38ccc3e8180e583fd8e943e6c6728347bd1c1ef8aee5444c0e704358f9ef '
                       'len=12096',
 'real-11-193-3-rpc2': 'sha256:fb70c07592679ceeac0dfe81d26095fc61dbf584fb5e7269c0449fec58f60923 '
                       'len=12009',
 'real-11-193-3-rpc3': 'sha256:a8c734d69561d5e6b46fc2191dade0cf279864fe3432db5343ec363b0fcd2583 '
                       'len=11920',
 'real-11-193-3-rpc4': 'sha256:a8c734d69561d5e6b46fc2191dade0cf279864fe3432db5343ec363b0fcd2583 '
                       'len=11920',
 'real-11-193-3-rpc5': 'sha256:a8c734d69561d5e6b46fc2191dade0cf279864fe3432db5343ec363b0fcd2583 '
                       'len=11920',
 'real-11-193-3-rpc7': 'sha256:a8c734d69561d5e6b46fc2191dade0cf279864fe3432db5343ec363b0fcd2583 '
                       'len=11920',
 'real-11-193-3-rpc8': 'sha256:a8c734d69561d5e6b46fc2191dade0cf279864fe3432db5343ec363b0fcd2583 '
                       'len=11920',
 'real-11-193-3-rpc9': 'sha256:a8c734d69561d5e6b46fc2191dade0cf279864fe3432db5343ec363b0fcd2583 '
                       'len=11920',
 'real-11-193-3-rpc1024': 'sha256:a8c734d69561d5e6b46fc2191dade0cf279864fe3432db5343ec363b0fcd2583 '
                          'len=11920',
 'real-11-193-3-default': 'sha256:a8c734d69561d5e6b46fc2191dade0cf279864fe3432db5343ec363b0fcd2583 '
                          'len=11920',
 'real-11-193-3-kw': 'sha256:fb70c07592679ceeac0dfe81d26095fc61dbf584fb5e7269c0449fec58f60923 '
                     'len=12009',
 'real-11-193-5-rpc1': 'sha256:e83e8f0df5fb5b14dc2f850b2f5711bd4e8ec43ea84519f849548edfedc30ae2 '
                       'len=18026',
 'real-11-193-5-rpc2': 'sha256:d1ac24ba1bd42354d92743880ffbb225ff09f3615fdc660aa7f0cb69fbc9a73c '
                       'len=17850',
 'real-11-193-5-rpc3': 'sha256:89a2511bd1bf7b9887e34fad847cb353b6ab7c80aa512d055f24b3f040f4d0a4 '
                       'len=17761',
 'real-11-193-5-rpc4': 'sha256:a7723a2f9ed8b5b20c7104bd0ddefff541994f3fd70fdbdc3b774f1bb7dec297 '
                       'len=17761',
 'real-11-193-5-rpc5': 'sha256:710d492791088d70e051dbd9fd964c4d15e88e55480550a349dead3457b472bd '
                       'len=17672',
 'real-11-193-5-rpc7': 'sha256:710d492791088d70e051dbd9fd964c4d15e88e55480550a349dead3457b472bd '
                       'len=17672',
 'real-11-193-5-rpc8': 'sha256:710d492791088d70e051dbd9fd964c4d15e88e55480550a349dead3457b472bd '
                       'len=17672',
 'real-11-193-5-rpc9': 'sha256:710d492791088d70e051dbd9fd964c4d15e88e55480550a349dead3457b472bd '
                       'len=17672',
 'real-11-193-5-rpc1024': 'sha256:710d492791088d70e051dbd9fd964c4d15e88e55480550a349dead3457b472bd '
                          'len=17672',
 'real-11-193-5-default': 'sha256:710d492791088d70e051dbd9fd964c4d15e88e55480550a349dead3457b472bd '
                          'len=17672',
 'real-11-193-5-kw': 'sha256:d1ac24ba1bd42354d92743880ffbb225ff09f3615fdc660aa7f0cb69fbc9a73c '
                     'len=17850',
 'real-11-193-8-rpc1': 'sha256:d2a1f11405f166c0739b55f4ed986f70c3e79d0cbcbe661e9d176784f3ef92a6 '
                       'len=26920',
 'real-11-193-8-rpc2': 'sha256:5c772aced40932037932bef88f9ed0837b69bf162bdffb3b63fd088a6529f69f '
                       'len=26566',
 'real-11-193-8-rpc3': 'sha256:082676c65aecbd1a59f1e13b478fd087f1d98f82be955b722042ebcd80830560 '
                       'len=26477',
 'real-11-193-8-rpc4': 'sha256:d2f9d31aa7492e827e18ef0190c7046d879bec52aab8bc7d7225d5e016472f22 '
                       'len=26388',
 'real-11-193-8-rpc5': 'sha256:cd41c579417a2743f8ea4b8abb87110154027b73f5d38077c02bad44bbd34405 '
                       'len=26388',
 'real-11-193-8-rpc7': 'sha256:0d90b1607e7f701040577dd311cae198cba0dc20dadab54bb7da7de1b05c3421 '
                       'len=26391',
 'real-11-193-8-rpc8': 'sha256:4f016deb1547361158c6a1d62c1c5a325f60960404450a882d2444531ed4bea0 '
                       'len=26302',
 'real-11-193-8-rpc9': 'sha256:4f016deb1547361158c6a1d62c1c5a325f60960404450a882d2444531ed4bea0 '
                       'len=26302',
 'real-11-193-8-rpc1024': 'sha256:4f016deb1547361158c6a1d62c1c5a325f60960404450a882d2444531ed4bea0 '
                          'len=26302',
 'real-11-193-8-default': 'sha256:4f016deb1547361158c6a1d62c1c5a325f60960404450a882d2444531ed4bea0 '
                          'len=26302',
 'real-11-193-8-kw': 'sha256:5c772aced40932037932bef88f9ed0837b69bf162bdffb3b63fd088a6529f69f '
                     'len=26566',
 'rpc-none': "raised builtins.TypeError: unsupported operand type(s) for /: 'int' and 'NoneType' "
             "|| events=[('read', (720,), {}, 0, 720)] || position=720",
 'rpc-zero': "raised builtins.ZeroDivisionError: division by zero || events=[('read', (720,), {}, "
             '0, 720)] || position=720',
 'rpc-negative': 'sha256:92cb6285091a31f27097f27b42ef69028e84af03698b96e12d5d81c8f38b09b0 len=3206',
 'rpc-negative2': 'sha256:92cb6285091a31f27097f27b42ef69028e84af03698b96e12d5d81c8f38b09b0 '
                  'len=3206',
 'rpc-float': "raised builtins.TypeError: argument should be integer or None, not 'float' || "
              "events=[('read', (720,), {}, 0, 720)] || position=720",
 'rpc-float2': "raised builtins.TypeError: argument should be integer or None, not 'float' || "
               "events=[('read', (720,), {}, 0, 720)] || position=720",
 'rpc-true': 'sha256:dfd9bf3fe8518e1b2bb23ecccc7838ab1c5e85d5034804a13e9dd5228204ebe2 len=18026',
 'rpc-str': "raised builtins.TypeError: unsupported operand type(s) for /: 'int' and 'str' || "
            "events=[('read', (720,), {}, 0, 720)] || position=720",
 'rpc-huge': 'sha256:bbd05a9117597bae369209bbb885688211877e017916175d46a43ebeaf20c9b5 len=17675',
 'declared-more': 'sha256:28a9bbc45f1ff74b21d39a2ed4610a4caa73f8a3c98ca9af1923f703890ea7c3 len=434',
 'declared-more-1': 'sha256:8558bd02c84ccdc4602fb21f500a9a74ff7151db99ee163c0ce91a56eba77baa '
                    'len=521',
 'declared-more-big': 'sha256:bf9cc008c1a96a493045bb7de302560d4ef09cfaa42df562d8c9d7270435ee0a '
                      'len=11921',
 'declared-less': 'sha256:c6ab77832c1bea4db974ee8cb159ff545348da5561c2bbb8cc9787ceb7b56708 '
                  'len=12009',
 'declared-blank': 'sha256:ad3d8a382b227282d9ec7080c07b770ebc35d489206506907e6d463f226fd5d1 '
                   'len=3207',
 'declared-zero-with-records': 'sha256:668260339b9657f2d8a155b9c76fb70872d2cdc8ede4643c2bc8428356e7f69b '
                               'len=3206',
 'truncated-0-rpc2': 'raised construct.core.StreamError: Error in path (parsing) -> preamble -> '
                     'record_sequence_number\n'
                     'stream read less than specified amount, expected 4, found 0 || '
                     "events=[('read', (720,), {}, 0, 0)] || position=0",
 'truncated-0-rpc1': 'raised construct.core.StreamError: Error in path (parsing) -> preamble -> '
                     'record_sequence_number\n'
                     'stream read less than specified amount, expected 4, found 0 || '
                     "events=[('read', (720,), {}, 0, 0)] || position=0",
 'truncated-100-rpc2': 'raised construct.core.StreamError: Error in path (parsing) -> '
                       'record_length_location\n'
                       'stream read less than specified amount, expected 8, found 0 || '
                       "events=[('read', (720,), {}, 0, 100)] || position=100",
 'truncated-100-rpc1': 'raised construct.core.StreamError: Error in path (parsing) -> '
                       'record_length_location\n'
                       'stream read less than specified amount, expected 8, found 0 || '
                       "events=[('read', (720,), {}, 0, 100)] || position=100",
 'truncated-719-rpc2': 'raised construct.core.StreamError: Error in path (parsing) -> '
                       'scansar_burst_data_information -> blanks\n'
                       'stream read less than specified amount, expected 260, found 259 || '
                       "events=[('read', (720,), {}, 0, 719)] || position=719",
 'truncated-719-rpc1': 'raised construct.core.StreamError: Error in path (parsing) -> '
                       'scansar_burst_data_information -> blanks\n'
                       'stream read less than specified amount, expected 260, found 259 || '
                       "events=[('read', (720,), {}, 0, 719)] || position=719",
 'truncated-720-rpc2': 'raised construct.core.StreamError: Error in path (parsing) -> '
                       'record_sequence_number\n'
                       'stream read less than specified amount, expected 4, found 0 || '
                       "events=[('read', (720,), {}, 0, 720), ('read', (400,), {}, 720, 0), "
                       "('parse_chunk', 0, 200)] || position=720",
 'truncated-720-rpc1': 'raised construct.core.StreamError: Error in path (parsing) -> '
                       'record_sequence_number\n'
                       'stream read less than specified amount, expected 4, found 0 || '
                       "events=[('read', (720,), {}, 0, 720), ('read', (200,), {}, 720, 0), "
                       "('parse_chunk', 0, 200)] || position=720",
 'truncated-721-rpc2': 'raised builtins.ValueError: sizes mismatch: chunksize is 0 but got 1 bytes '
                       "|| events=[('read', (720,), {}, 0, 720), ('read', (400,), {}, 720, 1), "
                       "('parse_chunk', 1, 200)] || position=721",
 'truncated-721-rpc1': 'raised builtins.ValueError: sizes mismatch: chunksize is 0 but got 1 bytes '
                       "|| events=[('read', (720,), {}, 0, 720), ('read', (200,), {}, 720, 1), "
                       "('parse_chunk', 1, 200)] || position=721",
 'truncated-731-rpc2': 'raised builtins.ValueError: sizes mismatch: chunksize is 0 but got 11 '
                       "bytes || events=[('read', (720,), {}, 0, 720), ('read', (400,), {}, 720, "
                       "11), ('parse_chunk', 11, 200)] || position=731",
 'truncated-731-rpc1': 'raised builtins.ValueError: sizes mismatch: chunksize is 0 but got 11 '
                       "bytes || events=[('read', (720,), {}, 0, 720), ('read', (200,), {}, 720, "
                       "11), ('parse_chunk', 11, 200)] || position=731",
 'truncated-732-rpc2': 'raised builtins.ValueError: sizes mismatch: chunksize is 0 but got 12 '
                       "bytes || events=[('read', (720,), {}, 0, 720), ('read', (400,), {}, 720, "
                       "12), ('parse_chunk', 12, 200)] || position=732",
 'truncated-732-rpc1': 'raised builtins.ValueError: sizes mismatch: chunksize is 0 but got 12 '
                       "bytes || events=[('read', (720,), {}, 0, 720), ('read', (200,), {}, 720, "
                       "12), ('parse_chunk', 12, 200)] || position=732",
 'truncated-800-rpc2': 'raised builtins.ValueError: sizes mismatch: chunksize is 0 but got 80 '
                       "bytes || events=[('read', (720,), {}, 0, 720), ('read', (400,), {}, 720, "
                       "80), ('parse_chunk', 80, 200)] || position=800",
 'truncated-800-rpc1': 'raised builtins.ValueError: sizes mismatch: chunksize is 0 but got 80 '
                       "bytes || events=[('read', (720,), {}, 0, 720), ('read', (200,), {}, 720, "
                       "80), ('parse_chunk', 80, 200)] || position=800",
 'truncated-919-rpc2': 'raised builtins.ValueError: sizes mismatch: chunksize is 0 but got 199 '
                       "bytes || events=[('read', (720,), {}, 0, 720), ('read', (400,), {}, 720, "
                       "199), ('parse_chunk', 199, 200)] || position=919",
 'truncated-919-rpc1': 'raised builtins.ValueError: sizes mismatch: chunksize is 0 but got 199 '
                       "bytes || events=[('read', (720,), {}, 0, 720), ('read', (200,), {}, 720, "
                       "199), ('parse_chunk', 199, 200)] || position=919",
 'truncated-920-rpc2': 'raised construct.core.StreamError: Error in path (parsing) -> '
                       'record_sequence_number\n'
                       'stream read less than specified amount, expected 4, found 0 || '
                       "events=[('read', (720,), {}, 0, 720), ('read', (400,), {}, 720, 200), "
                       "('parse_chunk', 200, 200), ('adjust_offsets', 1, 720), ('read', (400,), "
                       "{}, 920, 0), ('parse_chunk', 0, 200)] || position=920",
 'truncated-920-rpc1': 'raised construct.core.StreamError: Error in path (parsing) -> '
                       'record_sequence_number\n'
                       'stream read less than specified amount, expected 4, found 0 || '
                       "events=[('read', (720,), {}, 0, 720), ('read', (200,), {}, 720, 200), "
                       "('parse_chunk', 200, 200), ('adjust_offsets', 1, 720), ('read', (200,), "
                       "{}, 920, 0), ('parse_chunk', 0, 200)] || position=920",
 'truncated-921-rpc2': 'raised builtins.ValueError: sizes mismatch: chunksize is 200 but got 201 '
                       "bytes || events=[('read', (720,), {}, 0, 720), ('read', (400,), {}, 720, "
                       "201), ('parse_chunk', 201, 200)] || position=921",
 'truncated-921-rpc1': 'raised builtins.ValueError: sizes mismatch: chunksize is 0 but got 1 bytes '
                       "|| events=[('read', (720,), {}, 0, 720), ('read', (200,), {}, 720, 200), "
                       "('parse_chunk', 200, 200), ('adjust_offsets', 1, 720), ('read', (200,), "
                       "{}, 920, 1), ('parse_chunk', 1, 200)] || position=921",
 'truncated-1120-rpc2': 'raised construct.core.StreamError: Error in path (parsing) -> '
                        'record_sequence_number\n'
                        'stream read less than specified amount, expected 4, found 0 || '
                        "events=[('read', (720,), {}, 0, 720), ('read', (400,), {}, 720, 400), "
                        "('parse_chunk', 400, 200), ('adjust_offsets', 2, 720), ('read', (400,), "
                        "{}, 1120, 0), ('parse_chunk', 0, 200)] || position=1120",
 'truncated-1120-rpc1': 'sha256:123857f343bc28bbcc2fbfac6b5eb9f9b9f2ea0531a8ca13d1d6a1b5d89b87bf '
                        'len=432',
 'truncated-1500-rpc2': 'raised builtins.ValueError: sizes mismatch: chunksize is 200 but got 380 '
                        "bytes || events=[('read', (720,), {}, 0, 720), ('read', (400,), {}, 720, "
                        "400), ('parse_chunk', 400, 200), ('adjust_offsets', 2, 720), ('read', "
                        "(400,), {}, 1120, 380), ('parse_chunk', 380, 200)] || position=1500",
 'truncated-1500-rpc1': 'sha256:52e3b50843db114e2c5ec452481ea280a1a1e0e9a6209d5c233bcdddad8e2a53 '
                        'len=457',
 'badtype-0-rpc1': "raised builtins.ValueError: unknown record type code: 99 || events=[('read', "
                   "(720,), {}, 0, 720), ('read', (200,), {}, 720, 200), ('parse_chunk', 200, "
                   '200)] || position=920',
 'badtype-0-rpc2': "raised builtins.ValueError: unknown record type code: 99 || events=[('read', "
                   "(720,), {}, 0, 720), ('read', (400,), {}, 720, 400), ('parse_chunk', 400, "
                   '200)] || position=1120',
 'badtype-0-rpc3': "raised builtins.ValueError: unknown record type code: 99 || events=[('read', "
                   "(720,), {}, 0, 720), ('read', (600,), {}, 720, 600), ('parse_chunk', 600, "
                   '200)] || position=1320',
 'badtype-0-rpc1024': 'raised builtins.ValueError: unknown record type code: 99 || '
                      "events=[('read', (720,), {}, 0, 720), ('read', (1000,), {}, 720, 1000), "
                      "('parse_chunk', 1000, 200)] || position=1720",
 'badtype-1-rpc1': "raised builtins.ValueError: unknown record type code: 99 || events=[('read', "
                   "(720,), {}, 0, 720), ('read', (200,), {}, 720, 200), ('parse_chunk', 200, "
                   "200), ('adjust_offsets', 1, 720), ('read', (200,), {}, 920, 200), "
                   "('parse_chunk', 200, 200)] || position=1120",
 'badtype-1-rpc2': 'sha256:12ca0f34fef7cd464bee7aad58c0095514d29e82675e409fd6ff2a086a066f7c '
                   'len=17850',
 'badtype-1-rpc3': 'sha256:e7f37b33278af161991a287d8d37d3e6c9ffbc9ea6342e693d6490a8003d7db8 '
                   'len=17761',
 'badtype-1-rpc1024': 'sha256:49bd4ee817bb1ef1ddf21dbff55a01e9fdf444881147973b7a3993f79c8712a1 '
                      'len=17675',
 'badtype-2-rpc1': "raised builtins.ValueError: unknown record type code: 99 || events=[('read', "
                   "(720,), {}, 0, 720), ('read', (200,), {}, 720, 200), ('parse_chunk', 200, "
                   "200), ('adjust_offsets', 1, 720), ('read', (200,), {}, 920, 200), "
                   "('parse_chunk', 200, 200), ('adjust_offsets', 1, 920), ('read', (200,), {}, "
                   "1120, 200), ('parse_chunk', 200, 200)] || position=1320",
 'badtype-2-rpc2': "raised builtins.ValueError: unknown record type code: 99 || events=[('read', "
                   "(720,), {}, 0, 720), ('read', (400,), {}, 720, 400), ('parse_chunk', 400, "
                   "200), ('adjust_offsets', 2, 720), ('read', (400,), {}, 1120, 400), "
                   "('parse_chunk', 400, 200)] || position=1520",
 'badtype-2-rpc3': 'sha256:7011ab24c0ec8bae75b75482872474891ba58b5e43fb5572919dc7ce413bd508 '
                   'len=17761',
 'badtype-2-rpc1024': 'sha256:4b32a356be5856dd79db74a66175b23a88a2a6a4faea642fd87c7c7ddd1e5f7f '
                      'len=17675',
 'badtype-3-rpc1': 'sha256:f0348763b968ff189a94c9a0638e7d69c025cc0fa43cc6f31a66066ce36bf79b '
                   'len=437',
 'badtype-3-rpc2': 'sha256:d6fc06afa1918aeb2d4e359d37299f4060e694ae417d31670ef767860394271f '
                   'len=17850',
 'badtype-3-rpc3': "raised builtins.ValueError: unknown record type code: 99 || events=[('read', "
                   "(720,), {}, 0, 720), ('read', (600,), {}, 720, 600), ('parse_chunk', 600, "
                   "200), ('adjust_offsets', 3, 720), ('read', (400,), {}, 1320, 400), "
                   "('parse_chunk', 400, 200)] || position=1720",
 'badtype-3-rpc1024': 'sha256:36dc78b19a5e99d2f907cf167cf89cba28448fbda6351cb58d4da705b255b39e '
                      'len=17675',
 'badtype-4-rpc1': 'sha256:c2bcf7fa4e0d9ad4cc8144363e997ea568a798154d6b7b7ae23d1433f5268aa2 '
                   'len=526',
 'badtype-4-rpc2': "raised builtins.ValueError: unknown record type code: 99 || events=[('read', "
                   "(720,), {}, 0, 720), ('read', (400,), {}, 720, 400), ('parse_chunk', 400, "
                   "200), ('adjust_offsets', 2, 720), ('read', (400,), {}, 1120, 400), "
                   "('parse_chunk', 400, 200), ('adjust_offsets', 2, 1120), ('read', (200,), {}, "
                   "1520, 200), ('parse_chunk', 200, 200)] || position=1720",
 'badtype-4-rpc3': 'sha256:ee51176bfadd4203bc88f6191980d835e7c70ac8be2a17792ca5288cffb5557c '
                   'len=17761',
 'badtype-4-rpc1024': 'sha256:abe53bd59ac4d868b04a9ab8fa0f6301c0652a956b40299dd17ff3e8107849e4 '
                      'len=17675',
 'length-mismatch': "raised builtins.ValueError: unknown record type code: 0 || events=[('read', "
                    "(720,), {}, 0, 720), ('read', (420,), {}, 720, 420), ('parse_chunk', 420, "
                    "210), ('adjust_offsets', 2, 720), ('read', (210,), {}, 1140, 210), "
                    "('parse_chunk', 210, 210)] || position=1350",
 'length-too-short': 'raised construct.core.StreamError: Error in path (parsing) -> preamble -> '
                     'record_sequence_number\n'
                     'stream read less than specified amount, expected 4, found 0 || '
                     "events=[('read', (720,), {}, 0, 720), ('read', (200,), {}, 720, 200), "
                     "('parse_chunk', 200, 100)] || position=920",
 'length-zero': 'raised builtins.ZeroDivisionError: integer division or modulo by zero || '
                "events=[('read', (720,), {}, 0, 720), ('read', (0,), {}, 720, 0), ('parse_chunk', "
                '0, 0)] || position=720',
 'length-blank': 'raised construct.core.RangeError: Error in path (parsing)\n'
                 "invalid count -200 || events=[('read', (720,), {}, 0, 720), ('read', (-2,), {}, "
                 "720, 200), ('parse_chunk', 200, -1)] || position=920",
 'mixed-kinds-rpc2': 'sha256:8cab471822cca5a891a9a8376889cda880a67720964c3d37298c8f797570f0d8 '
                     'len=16877',
 'mixed-kinds-rpc3': 'sha256:099c8688091436ddd0df4db7493a15d0b93d8c43e838fb8beaae778e0f6f2003 '
                     'len=15885',
 'mixed-kinds-rpc4': 'sha256:217df7cdfff80f41bf2f80446accceb7a107727d807123a677b9765f24e8e17f '
                     'len=14812',
 'dummy-rpc1': 'sha256:0bc85da2ac85ec5fe04b5902f076503026b1795294221d1eaf647eaf15918b2f len=9081',
 'dummy-rpc2': 'sha256:30c640e98dc42c0a46e61bebf0aec15872d80007c37a0ddadf41c17f939a9347 len=8994',
 'dummy-rpc3': 'sha256:c9d12861219ab41e6545c6fd52c98381db9caffe0e5d3f4a4abe9edf5eb6fc0e len=8906',
 'dummy-rpc4': 'sha256:c9d12861219ab41e6545c6fd52c98381db9caffe0e5d3f4a4abe9edf5eb6fc0e len=8906',
 'dummy-size-none-empty': "raised builtins.TypeError: unsupported operand type(s) for *: 'int' and "
                          "'NoneType' || events=[('read', (2,), {}, 0, 2)] || position=2",
 'dummy-size-none': "raised builtins.TypeError: unsupported operand type(s) for *: 'int' and "
                    "'NoneType' || events=[('read', (2,), {}, 0, 2)] || position=2",
 'dummy-size-str-empty': 'raised builtins.TypeError: can only concatenate str (not "int") to str '
                         "|| events=[('read', (2,), {}, 0, 2)] || position=2",
 'dummy-count-none': "raised builtins.TypeError: unsupported operand type(s) for /: 'NoneType' and "
                     "'int' || events=[('read', (2,), {}, 0, 2)] || position=2",
 'dummy-count-float': "raised builtins.TypeError: argument should be integer or None, not 'float' "
                      "|| events=[('read', (2,), {}, 0, 2), ('read', (400,), {}, 2, 400), "
                      "('parse_chunk', 400, 200), ('adjust_offsets', 2, 720)] || position=402",
 'dummy-count-fraction': 'raised builtins.TypeError: argument should be integer or None, not '
                         "'float' || events=[('read', (2,), {}, 0, 2), ('read', (400,), {}, 2, "
                         "400), ('parse_chunk', 400, 200), ('adjust_offsets', 2, 720)] || "
                         'position=402',
 'dummy-missing-count': "raised builtins.KeyError: 'number_of_sar_data_records' || "
                        "events=[('read', (2,), {}, 0, 2)] || position=2",
 'dummy-missing-size': "raised builtins.KeyError: 'sar_data_record_length' || events=[('read', "
                       '(2,), {}, 0, 2)] || position=2',
 'dummy-not-a-mapping': "raised builtins.TypeError: 'NoneType' object is not subscriptable || "
                        "events=[('read', (2,), {}, 0, 2)] || position=2",
 'dummy-table-rpc1': 'sha256:6961922a1eaa534e6682b3cb02a9d64198961cd4d53a397636fdf80f6f740c9b '
                     'len=1403',
 'dummy-table-rpc2': 'sha256:351d4ea1bf8b8e13864b93e2391fc49a84c284d80814ad6f966f1e55c8a5c040 '
                     'len=1321',
 'dummy-table-rpc3': 'sha256:b7f9615339fe3f143feede00716d35fbe9cdb931042da20821b43f1c660df2b1 '
                     'len=1239',
 'dummy-table-rpc5': 'sha256:b7f9615339fe3f143feede00716d35fbe9cdb931042da20821b43f1c660df2b1 '
                     'len=1239'}
# EXPECTED-END


def test_equivalence():
    actual = {name: digest(text) for name, text in cases().items()}
    assert list(actual) == list(EXPECTED)
    for name, value in actual.items():
        assert value == EXPECTED[name], name


def test_public_names():
    # the patch only adds private helpers
    assert callable(io.read_metadata)
    assert io.read_metadata.__defaults__ == (1024,)
    assert io.read_metadata.__code__.co_varnames[:2] == ("f", "records_per_chunk")


if __name__ == "__main__":
    if "--record" in sys.argv:
        actual = {name: digest(text) for name, text in cases().items()}
        path = pathlib.Path(__file__)
        source = path.read_text()
        head, rest = source.split("# EXPECTED-BEGIN\n", 1)
        _, tail = rest.split("# EXPECTED-END\n", 1)
        body = "EXPECTED = " + pprint.pformat(actual, width=100, sort_dicts=False) + "\n"
        path.write_text(head + "# EXPECTED-BEGIN\n" + body + "# EXPECTED-END\n" + tail)
        print(f"recorded {len(actual)} cases")
    else:
        test_equivalence()
        test_public_names()
        print(f"ok: {len(EXPECTED)} cases identical")
