"""Equivalence check for refactoring 1 (caching/encoders.py).

Run from the repository root:

    PYTHONPATH=. python _eq/1/equiv.py          # check against the recorded values
    PYTHONPATH=. python _eq/1/equiv.py --print  # print the observed values

The EXPECTED table was recorded with the unchanged code (clean HEAD); the
script has to pass both with and without patch.diff applied.
"""

import collections
import json
import sys
import warnings

import fsspec
import numpy as np

from ceos_alos2.array import Array
from ceos_alos2.hierarchy import Group, Variable
from ceos_alos2.sar_image import caching
from ceos_alos2.sar_image.caching import encoders


def observe(func):
    """Run ``func`` and normalise its outcome (value or exception) to a string."""
    try:
        result = func()
    except Exception as e:  # noqa: BLE001 - the exception *is* the observation
        return f"RAISES {type(e).__module__}.{type(e).__qualname__}: {e}"
    return f"{type(result).__name__}: {result!r}"


def backend_array():
    fs = fsspec.filesystem("memory")
    dirfs = fsspec.filesystem("dir", path="/path/to", fs=fs)
    return Array(
        fs=dirfs,
        url="file",
        byte_ranges=[(5, 10), (15, 20), (25, 30), (35, 40)],
        shape=(4, 3),
        dtype="int16",
        type_code="IU2",
        records_per_chunk=2,
    )


Point = collections.namedtuple("Point", ["x", "y"])


class NoToList:
    """arbitrary object: np.asarray wraps it in a 0-d object array (dtype.kind 'O')"""

    def __repr__(self):
        return "NoToList()"


def tree():
    return Group(
        path=None,
        url="s3://bucket/data",
        data={
            "a": Variable("x", np.array([1, 2, 3], dtype="int8"), {"u": (1, 2)}),
            "t": Variable(
                "t",
                np.array(["2020-01-01T00:00:01", "2020-01-01T00:00:03"], dtype="datetime64[s]"),
                {},
            ),
            "sub": Group(
                path=None,
                url=None,
                data={
                    "d": Variable(["r", "c"], backend_array(), {"k": [1, (2, 3)]}),
                    "deeper": Group(path=None, url="file:///elsewhere", data={}, attrs={"n": None}),
                },
                attrs={"g": 1},
            ),
        },
        attrs={"shape": (4, 3), "nested": {"t": ((1,), [2])}},
    )


def broken_group():
    group = Group(path=None, url="u", data={}, attrs={})
    # bypass __setitem__: any non-Group entry is handed to encode_variable
    group.data["x"] = 1
    return group


CASES = {
    # --- encode_array -----------------------------------------------------
    "array/int-list": lambda: encoders.encode_array([1, 2, 3]),
    "array/float-2d": lambda: encoders.encode_array(np.array([[1.5, 2.0], [3.25, -4.0]])),
    "array/float32": lambda: encoders.encode_array(np.array([0.5, 1.5], dtype="float32")),
    "array/bool": lambda: encoders.encode_array(np.array([True, False])),
    "array/str": lambda: encoders.encode_array(np.array(["a", "bc"])),
    "array/bytes": lambda: encoders.encode_array(np.array([b"a", b"bc"])),
    "array/complex": lambda: encoders.encode_array(np.array([1 + 2j], dtype="complex64")),
    "array/uint": lambda: encoders.encode_array(np.array([1, 2], dtype="uint16")),
    "array/object": lambda: encoders.encode_array(np.array([None, "a"], dtype=object)),
    "array/empty": lambda: encoders.encode_array([]),
    "array/0d-int": lambda: encoders.encode_array(np.int16(7)),
    "array/python-scalar": lambda: encoders.encode_array(3.5),
    "array/timedelta-s": lambda: encoders.encode_array(
        np.array([1, 5, -3], dtype="timedelta64[s]")
    ),
    "array/timedelta-ns-2d": lambda: encoders.encode_array(
        np.array([[1, 2], [3, 4]], dtype="timedelta64[ns]")
    ),
    "array/timedelta-0d": lambda: encoders.encode_array(np.timedelta64(3, "ms")),
    "array/timedelta-nat": lambda: encoders.encode_array(
        np.array(["NaT", 4], dtype="timedelta64[us]")
    ),
    "array/timedelta-generic": lambda: encoders.encode_array(np.array([1], dtype="timedelta64")),
    "array/datetime-s": lambda: encoders.encode_array(
        np.array(["2020-01-01T00:00:01", "2020-01-01T00:00:03"], dtype="datetime64[s]")
    ),
    "array/datetime-ns": lambda: encoders.encode_array(
        np.array(
            ["2019-12-31T23:59:59.000000001", "2020-01-01T00:00:00.5"], dtype="datetime64[ns]"
        )
    ),
    "array/datetime-D-unsorted": lambda: encoders.encode_array(
        np.array(["2020-01-05", "2020-01-01"], dtype="datetime64[D]")
    ),
    "array/datetime-empty": lambda: encoders.encode_array(np.array([], dtype="datetime64[s]")),
    "array/datetime-0d": lambda: encoders.encode_array(np.datetime64("2020-01-01", "s")),
    "array/datetime-2d": lambda: encoders.encode_array(
        np.array([["2020-01-01", "2020-01-02"]], dtype="datetime64[D]")
    ),
    "array/backend": lambda: encoders.encode_array(backend_array()),
    "array/NoToList": lambda: encoders.encode_array(NoToList()),
    # --- encode_variable / encode_group / encode_hierarchy --------------------
    "variable/plain": lambda: encoders.encode_variable(
        Variable("x", np.array([1, 2], dtype="int16"), {"a": (1, 2)})
    ),
    "variable/not-a-variable": lambda: encoders.encode_variable(1),
    "group/tree": lambda: encoders.encode_group(tree()),
    "group/empty": lambda: encoders.encode_group(Group(path="/", url=None, data={}, attrs={})),
    "group/non-variable-entry": lambda: encoders.encode_group(broken_group()),
    "group/not-a-group": lambda: encoders.encode_group(Variable("x", [1], {})),
    "hierarchy/group": lambda: encoders.encode_hierarchy(tree()),
    "hierarchy/variable": lambda: encoders.encode_hierarchy(
        Variable(["x", "y"], np.array([[1.0, 2.0]]), {})
    ),
    "hierarchy/dict-passthrough": lambda: encoders.encode_hierarchy({"a": (1, 2)}),
    "hierarchy/int-passthrough": lambda: encoders.encode_hierarchy(1),
    "hierarchy/none-passthrough": lambda: encoders.encode_hierarchy(None),
    "hierarchy/array-passthrough": lambda: encoders.encode_hierarchy(backend_array()),
    # --- preprocess ---------------------------------------------------------------
    "preprocess/nested": lambda: encoders.preprocess(
        {"a": (1, [2, (3,)]), "b": [(), {"c": ((1, 2), "x")}], "d": None, 5: True}
    ),
    "preprocess/ordered-dict": lambda: encoders.preprocess(
        collections.OrderedDict([("z", (1,)), ("a", [()])])
    ),
    "preprocess/namedtuple": lambda: encoders.preprocess(Point(1, (2, 3))),
    "preprocess/top-level-list": lambda: encoders.preprocess([1, (2,), [3]]),
    "preprocess/top-level-tuple": lambda: encoders.preprocess((1, [2, (3,)])),
    "preprocess/scalars": lambda: [
        encoders.preprocess(v) for v in (None, 1, 1.5, "s", b"b", True, frozenset([1]))
    ],
    "preprocess/ndarray-untouched": lambda: encoders.preprocess({"a": np.array([1, 2])}),
    "preprocess/set-untouched": lambda: encoders.preprocess({"a": {(1, 2)}}),
    # --- through the public entry point ----------------------------------------------
    "encode/tree": lambda: caching.encode(tree()),
    "encode/variable": lambda: caching.encode(Variable("x", np.array([1.5]), {"t": (1,)})),
    "encode/plain-dict": lambda: caching.encode({"a": (1, 2)}),
    "encode/unserialisable": lambda: caching.encode(
        Variable("x", np.array([1 + 2j]), {})
    ),
    "encode/roundtrip-json": lambda: json.loads(caching.encode(tree()))["data"]["sub"]["data"][
        "d"
    ]["data"],
}


EXPECTED = {
    'array/int-list': (
        "dict: {'__type__': 'array', 'dtype': 'int64', 'data': [1, 2, 3], 'encoding': {}}"
    ),
    'array/float-2d': (
        "dict: {'__type__': 'array', 'dtype': 'float64', 'data': [[1.5, 2.0], [3.25, -4.0]], 'encoding': {}}"
    ),
    'array/float32': (
        "dict: {'__type__': 'array', 'dtype': 'float32', 'data': [0.5, 1.5], 'encoding': {}}"
    ),
    'array/bool': (
        "dict: {'__type__': 'array', 'dtype': 'bool', 'data': [True, False], 'encoding': {}}"
    ),
    'array/str': (
        "dict: {'__type__': 'array', 'dtype': '<U2', 'data': ['a', 'bc'], 'encoding': {}}"
    ),
    'array/bytes': (
        "dict: {'__type__': 'array', 'dtype': '|S2', 'data': [b'a', b'bc'], 'encoding': {}}"
    ),
    'array/complex': (
        "dict: {'__type__': 'array', 'dtype': 'complex64', 'data': [(1+2j)], 'encoding': {}}"
    ),
    'array/uint': (
        "dict: {'__type__': 'array', 'dtype': 'uint16', 'data': [1, 2], 'encoding': {}}"
    ),
    'array/object': (
        "dict: {'__type__': 'array', 'dtype': 'object', 'data': [None, 'a'], 'encoding': {}}"
    ),
    'array/empty': (
        "dict: {'__type__': 'array', 'dtype': 'float64', 'data': [], 'encoding': {}}"
    ),
    'array/0d-int': (
        "dict: {'__type__': 'array', 'dtype': 'int16', 'data': 7, 'encoding': {}}"
    ),
    'array/python-scalar': (
        "dict: {'__type__': 'array', 'dtype': 'float64', 'data': 3.5, 'encoding': {}}"
    ),
    'array/timedelta-s': (
        "dict: {'__type__': 'array', 'dtype': 'timedelta64[s]', 'data': [1, 5, -3], 'encoding': {'units': 's'}}"
    ),
    'array/timedelta-ns-2d': (
        "dict: {'__type__': 'array', 'dtype': 'timedelta64[ns]', 'data': [[1, 2], [3, 4]], 'encoding': {'units': 'ns'}}"
    ),
    'array/timedelta-0d': (
        "dict: {'__type__': 'array', 'dtype': 'timedelta64[ms]', 'data': 3, 'encoding': {'units': 'ms'}}"
    ),
    'array/timedelta-nat': (
        "dict: {'__type__': 'array', 'dtype': 'timedelta64[us]', 'data': [-9223372036854775808, 4], 'encoding': {'units': 'us'}}"
    ),
    'array/timedelta-generic': (
        "dict: {'__type__': 'array', 'dtype': 'timedelta64', 'data': [1], 'encoding': {'units': 'generic'}}"
    ),
    'array/datetime-s': (
        "dict: {'__type__': 'array', 'dtype': 'datetime64[s]', 'data': [0, 2], 'encoding': {'reference': '2020-01-01T00:00:01', 'units': 's'}}"
    ),
    'array/datetime-ns': (
        "dict: {'__type__': 'array', 'dtype': 'datetime64[ns]', 'data': [0, 1499999999], 'encoding': {'reference': '2019-12-31T23:59:59.000000001', 'units': 'ns'}}"
    ),
    'array/datetime-D-unsorted': (
        "dict: {'__type__': 'array', 'dtype': 'datetime64[D]', 'data': [0, -4], 'encoding': {'reference': '2020-01-05', 'units': 'D'}}"
    ),
    'array/datetime-empty': (
        'RAISES builtins.IndexError: index 0 is out of bounds for axis 0 with size 0'
    ),
    'array/datetime-0d': (
        'RAISES builtins.IndexError: too many indices for array: array is 0-dimensional, but 1 were indexed'
    ),
    'array/datetime-2d': (
        'dict: {\'__type__\': \'array\', \'dtype\': \'datetime64[D]\', \'data\': [[0, 0]], \'encoding\': {\'reference\': "[\'2020-01-01\' \'2020-01-02\']", \'units\': \'D\'}}'
    ),
    'array/backend': (
        "dict: {'__type__': 'backend_array', 'root': '/path/to', 'url': 'file', 'shape': (4, 3), 'dtype': 'int16', 'byte_ranges': [(5, 10), (15, 20), (25, 30), (35, 40)], 'type_code': 'IU2'}"
    ),
    'array/NoToList': (
        "dict: {'__type__': 'array', 'dtype': 'object', 'data': NoToList(), 'encoding': {}}"
    ),
    'variable/plain': (
        "dict: {'__type__': 'variable', 'dims': ['x'], 'data': {'__type__': 'array', 'dtype': 'int16', 'data': [1, 2], 'encoding': {}}, 'attrs': {'a': (1, 2)}}"
    ),
    'variable/not-a-variable': (
        "RAISES builtins.AttributeError: 'int' object has no attribute 'data'"
    ),
    'group/tree': (
        "dict: {'__type__': 'group', 'url': 's3://bucket/data', 'data': {'a': {'__type__': 'variable', 'dims': ['x'], 'data': {'__type__': 'array', 'dtype': 'int8', 'data': [1, 2, 3], 'encoding': {}}, 'attrs': {'u': (1, 2)}}, 't': {'__type__': 'variable', 'dims': ['t'], 'data': {'__type__': 'array', 'dtype': 'datetime64[s]', 'data': [0, 2], 'encoding': {'reference': '2020-01-01T00:00:01', 'units': 's'}}, 'attrs': {}}, 'sub': {'__type__': 'group', 'url': 's3://bucket/data', 'data': {'d': {'__type__': 'variable', 'dims': ['r', 'c'], 'data': {'__type__': 'backend_array', 'root': '/path/to', 'url': 'file', 'shape': (4, 3), 'dtype': 'int16', 'byte_ranges': [(5, 10), (15, 20), (25, 30), (35, 40)], 'type_code': 'IU2'}, 'attrs': {'k': [1, (2, 3)]}}, 'deeper': {'__type__': 'group', 'url': 'file:///elsewhere', 'data': {}, 'path': '/sub/deeper', 'attrs': {'n': None}}}, 'path': '/sub', 'attrs': {'g': 1}}}, 'path': '/', 'attrs': {'shape': (4, 3), 'nested': {'t': ((1,), [2])}}}"
    ),
    'group/empty': (
        "dict: {'__type__': 'group', 'url': None, 'data': {}, 'path': '/', 'attrs': {}}"
    ),
    'group/non-variable-entry': (
        "RAISES builtins.AttributeError: 'int' object has no attribute 'data'"
    ),
    'group/not-a-group': (
        "RAISES builtins.AttributeError: 'list' object has no attribute 'keys'"
    ),
    'hierarchy/group': (
        "dict: {'__type__': 'group', 'url': 's3://bucket/data', 'data': {'a': {'__type__': 'variable', 'dims': ['x'], 'data': {'__type__': 'array', 'dtype': 'int8', 'data': [1, 2, 3], 'encoding': {}}, 'attrs': {'u': (1, 2)}}, 't': {'__type__': 'variable', 'dims': ['t'], 'data': {'__type__': 'array', 'dtype': 'datetime64[s]', 'data': [0, 2], 'encoding': {'reference': '2020-01-01T00:00:01', 'units': 's'}}, 'attrs': {}}, 'sub': {'__type__': 'group', 'url': 's3://bucket/data', 'data': {'d': {'__type__': 'variable', 'dims': ['r', 'c'], 'data': {'__type__': 'backend_array', 'root': '/path/to', 'url': 'file', 'shape': (4, 3), 'dtype': 'int16', 'byte_ranges': [(5, 10), (15, 20), (25, 30), (35, 40)], 'type_code': 'IU2'}, 'attrs': {'k': [1, (2, 3)]}}, 'deeper': {'__type__': 'group', 'url': 'file:///elsewhere', 'data': {}, 'path': '/sub/deeper', 'attrs': {'n': None}}}, 'path': '/sub', 'attrs': {'g': 1}}}, 'path': '/', 'attrs': {'shape': (4, 3), 'nested': {'t': ((1,), [2])}}}"
    ),
    'hierarchy/variable': (
        "dict: {'__type__': 'variable', 'dims': ['x', 'y'], 'data': {'__type__': 'array', 'dtype': 'float64', 'data': [[1.0, 2.0]], 'encoding': {}}, 'attrs': {}}"
    ),
    'hierarchy/dict-passthrough': (
        "dict: {'a': (1, 2)}"
    ),
    'hierarchy/int-passthrough': (
        'int: 1'
    ),
    'hierarchy/none-passthrough': (
        'NoneType: None'
    ),
    'hierarchy/array-passthrough': (
        "Array: Array(url='file', shape=(4, 3), dtype='int16', records_per_chunk=2)"
    ),
    'preprocess/nested': (
        "dict: {'a': {'__type__': 'tuple', 'data': [1, [2, {'__type__': 'tuple', 'data': [3]}]]}, 'b': [{'__type__': 'tuple', 'data': []}, {'c': {'__type__': 'tuple', 'data': [{'__type__': 'tuple', 'data': [1, 2]}, 'x']}}], 'd': None, 5: True}"
    ),
    'preprocess/ordered-dict': (
        "dict: {'z': {'__type__': 'tuple', 'data': [1]}, 'a': [{'__type__': 'tuple', 'data': []}]}"
    ),
    'preprocess/namedtuple': (
        "dict: {'__type__': 'tuple', 'data': [1, {'__type__': 'tuple', 'data': [2, 3]}]}"
    ),
    'preprocess/top-level-list': (
        "list: [1, {'__type__': 'tuple', 'data': [2]}, [3]]"
    ),
    'preprocess/top-level-tuple': (
        "dict: {'__type__': 'tuple', 'data': [1, [2, {'__type__': 'tuple', 'data': [3]}]]}"
    ),
    'preprocess/scalars': (
        "list: [None, 1, 1.5, 's', b'b', True, frozenset({1})]"
    ),
    'preprocess/ndarray-untouched': (
        "dict: {'a': array([1, 2])}"
    ),
    'preprocess/set-untouched': (
        "dict: {'a': {(1, 2)}}"
    ),
    'encode/tree': (
        'str: \'{"__type__": "group", "url": "s3://bucket/data", "data": {"a": {"__type__": "variable", "dims": ["x"], "data": {"__type__": "array", "dtype": "int8", "data": [1, 2, 3], "encoding": {}}, "attrs": {"u": {"__type__": "tuple", "data": [1, 2]}}}, "t": {"__type__": "variable", "dims": ["t"], "data": {"__type__": "array", "dtype": "datetime64[s]", "data": [0, 2], "encoding": {"reference": "2020-01-01T00:00:01", "units": "s"}}, "attrs": {}}, "sub": {"__type__": "group", "url": "s3://bucket/data", "data": {"d": {"__type__": "variable", "dims": ["r", "c"], "data": {"__type__": "backend_array", "root": "/path/to", "url": "file", "shape": {"__type__": "tuple", "data": [4, 3]}, "dtype": "int16", "byte_ranges": [{"__type__": "tuple", "data": [5, 10]}, {"__type__": "tuple", "data": [15, 20]}, {"__type__": "tuple", "data": [25, 30]}, {"__type__": "tuple", "data": [35, 40]}], "type_code": "IU2"}, "attrs": {"k": [1, {"__type__": "tuple", "data": [2, 3]}]}}, "deeper": {"__type__": "group", "url": "file:///elsewhere", "data": {}, "path": "/sub/deeper", "attrs": {"n": null}}}, "path": "/sub", "attrs": {"g": 1}}}, "path": "/", "attrs": {"shape": {"__type__": "tuple", "data": [4, 3]}, "nested": {"t": {"__type__": "tuple", "data": [{"__type__": "tuple", "data": [1]}, [2]]}}}}\''
    ),
    'encode/variable': (
        'str: \'{"__type__": "variable", "dims": ["x"], "data": {"__type__": "array", "dtype": "float64", "data": [1.5], "encoding": {}}, "attrs": {"t": {"__type__": "tuple", "data": [1]}}}\''
    ),
    'encode/plain-dict': (
        'str: \'{"a": {"__type__": "tuple", "data": [1, 2]}}\''
    ),
    'encode/unserialisable': (
        'RAISES builtins.TypeError: Object of type complex is not JSON serializable'
    ),
    'encode/roundtrip-json': (
        "dict: {'__type__': 'backend_array', 'root': '/path/to', 'url': 'file', 'shape': {'__type__': 'tuple', 'data': [4, 3]}, 'dtype': 'int16', 'byte_ranges': [{'__type__': 'tuple', 'data': [5, 10]}, {'__type__': 'tuple', 'data': [15, 20]}, {'__type__': 'tuple', 'data': [25, 30]}, {'__type__': 'tuple', 'data': [35, 40]}], 'type_code': 'IU2'}"
    ),
}


def main():
    warnings.simplefilter("ignore", DeprecationWarning)
    observed = {name: observe(func) for name, func in CASES.items()}

    if "--print" in sys.argv[1:]:
        print("EXPECTED = {")
        for name, value in observed.items():
            print(f"    {name!r}: (\n        {value!r}\n    ),")
        print("}")
        return 0

    failures = 0
    assert set(observed) == set(EXPECTED), sorted(set(observed) ^ set(EXPECTED))
    for name, value in observed.items():
        if value != EXPECTED[name]:
            failures += 1
            print(f"MISMATCH {name}:\n  expected: {EXPECTED[name]}\n  observed: {value}")
    assert failures == 0, f"{failures} of {len(observed)} cases differ"
    print(f"OK: {len(observed)} cases identical to the recorded behaviour")
    return 0


if __name__ == "__main__":
    sys.exit(main())
