"""Equivalence check for refactoring 3 (`ceos_alos2.volume_directory.metadata`).

Run as a script (`python _eq/3/equiv.py`) or through pytest. `python _eq/3/equiv.py --record`
prints the table of expected outcomes; the table below was recorded from the UNCHANGED code.
"""

import collections
import copy
import struct
import sys
import types

import fsspec
from construct import Container

from ceos_alos2.hierarchy import Group
from ceos_alos2.volume_directory import io, metadata, open_volume_directory


def describe_exception(exc):
    chain = []
    while exc is not None:
        chain.append((type(exc).__name__, str(exc), exc.__suppress_context__))
        exc = exc.__cause__
    return chain


def describe(result):
    if isinstance(result, Group):
        return (
            "Group",
            result.path,
            result.url,
            describe(result.data),
            describe(result.attrs),
        )
    if isinstance(result, dict):
        return (type(result).__name__, [(repr(k), describe(v)) for k, v in result.items()])
    return (type(result).__name__, repr(result))


def outcome(func, *args, check_args=True):
    if check_args:
        try:
            before = describe_args(copy.deepcopy(args))
        except TypeError:
            # cannot be copied (and cannot be modified, either)
            before = describe_args(args)

    try:
        result = func(*args)
    except Exception as e:
        described = ("raise", describe_exception(e))
    else:
        described = ("ok", describe(result))
        assert all(result is not arg for arg in args)

    # the arguments are never modified
    if check_args:
        assert before == describe_args(args)
    return described


def describe_args(args):
    return [describe(a) if isinstance(a, dict) else repr(a) for a in args]


FULL_VOLUME_DESCRIPTOR = {
    "preamble": {
        "record_sequence_number": 1,
        "first_record_subtype": 192,
        "record_type": 192,
        "second_record_subtype": 18,
        "third_record_subtype": 18,
        "record_length": 360,
    },
    "ascii_ebcdic_flag": "A",
    "blanks": "",
    "superstructure_format_control_document_id": "CEOS-SAR",
    "superstructure_format_control_document_revision_level": "A",
    "superstructure_record_format_revision_level": "A",
    "software_release_and_revision_level": "001.001",
    "physical_volume_id": "",
    "logical_volume_id": "ALOS2225333200",
    "volume_set_id": "",
    "total_number_of_physical_volumes_in_logical_volume": 1,
    "physical_volume_sequence_number_of_the_first_tape": 1,
    "physical_volume_sequence_number_of_the_last_tape": 1,
    "physical_volume_sequence_number_of_the_current_tape": 1,
    "file_number_in_the_logical_volume": 1,
    "logical_volume_within_a_volume_set": 1,
    "logical_volume_number_within_physical_volume": 1,
    "logical_volume_creation_datetime": "2018080312450000",
    "logical_volume_generation_country": "JAPAN",
    "logical_volume_generating_agency": "JAXA",
    "logical_volume_generating_facility": "SCMO",
    "number_of_file_pointer_records": 4,
    "number_of_text_records_in_volume_directory": 1,
    "spare": "",
    "local_use_segment": "",
}

FULL_TEXT_RECORD = {
    "preamble": {"record_sequence_number": 6},
    "ascii_ebcdic_flag": "A",
    "blanks": "",
    "product_id": "PRODUCT:WWDR1.1__D",
    "location_and_datetime_of_product_creation": "PROCESS:JAPAN-JAXA-ALOS2-SCMO  20180803 124500",
    "physical_tape_id": "TAPE_ID:",
    "scene_id": "ORBIT:ALOS2225333200-180726",
    "scene_location_id": "FRAME:",
}

VOLUME_DESCRIPTORS = [
    {},
    FULL_VOLUME_DESCRIPTOR,
    dict(reversed(FULL_VOLUME_DESCRIPTOR.items())),
    collections.OrderedDict(FULL_VOLUME_DESCRIPTOR),
    Container(FULL_VOLUME_DESCRIPTOR),
    {"preamble": {"a": 1}},
    {"number_of_file_pointer_records": 4, "volume_set_id": "abc"},
    {"volume_set_id": "abc", "physical_volume_id": "", "logical_volume_id": None},
    {"logical_volume_creation_datetime": "2020101117233798"},
    {"creation_datetime": "2020101117233798"},
    {"logical_volume_creation_datetime": "20201011172337"},
    {"logical_volume_creation_datetime": "2020101117233798123"},
    # both the original and the translated name
    {"logical_volume_creation_datetime": "2020101117233798", "creation_datetime": "19990101000000"},
    {"creation_datetime": "19990101000000", "logical_volume_creation_datetime": "2020101117233798"},
    {"software_version": "a", "x": 1, "software_release_and_revision_level": "b", "y": 2},
    {"software_release_and_revision_level": "b", "x": 1, "software_version": "a", "y": 2},
    # names of the translated keys are not ignored
    {"control_document_id": "a", "creation_country": "b", "creation_agency": "c"},
    {"Preamble": 1, "SPARE": 2, "spare1": 3, "blanks1": 4, " blanks": 5, "blank": 6},
    # invalid datetimes
    {"logical_volume_creation_datetime": ""},
    {"logical_volume_creation_datetime": "2020-10-11T17:23:37"},
    {"logical_volume_creation_datetime": "2020101117233798123456"},
    {"a": 1, "logical_volume_creation_datetime": "20201341172337", "b": 2},
    {"creation_datetime": None},
    {"creation_datetime": 2020101117233798},
    {"creation_datetime": b"2020101117233798"},
    {"creation_datetime": ["2020101117233798"]},
    # keys that are not strings
    {1: "a", None: "b", ("preamble",): "c", 2.5: "d", b"spare": "e", frozenset(["blanks"]): "f"},
    {0: 0, "preamble": 1, 1: 1, "spare": 2, 2: 2},
    # values of any kind are passed through
    {"volume_set_id": ["a", {"b": 1}], "physical_volume_id": {"nested": {"preamble": 1}}},
    # not a mapping
    None,
    [],
    [("preamble", 1)],
    "preamble",
    0,
    types.MappingProxyType({"preamble": 1, "volume_set_id": "a"}),
]

TEXT_RECORDS = [
    {},
    FULL_TEXT_RECORD,
    dict(reversed(FULL_TEXT_RECORD.items())),
    collections.OrderedDict(FULL_TEXT_RECORD),
    Container(FULL_TEXT_RECORD),
    {"preamble": {}, "ascii_ebcdic_flag": "a", "blanks": "", "physical_tape_id": 1},
    {"blanks": "", "product_id": "PRODUCT:WWDR1.5RUA"},
    {"product_id": "b", "location_and_datetime_of_product_creation": "a"},
    {"location_and_datetime_of_product_creation": "a", "product_creation": "b"},
    {"product_creation": "b", "location_and_datetime_of_product_creation": "a"},
    {"product_creation": "b", "x": 1, "location_and_datetime_of_product_creation": "a", "y": 2},
    # ignored for volume descriptors only
    {"spare": 1, "local_use_segment": 2, "number_of_file_pointer_records": 3},
    # translated for volume descriptors only
    {"logical_volume_creation_datetime": "x", "creation_datetime": "y"},
    {"Preamble": 1, "BLANKS": 2, "blanks1": 3, "physical_tape_id ": 4},
    {1: "a", None: "b", ("preamble",): "c", 2.5: "d", b"blanks": "e"},
    {"scene_id": None, "scene_location_id": [1, 2], "product_id": {"preamble": 1}},
    None,
    [],
    [("preamble", 1)],
    "blanks",
    0,
    types.MappingProxyType({"preamble": 1, "scene_id": "a"}),
]

RECORDS = [
    {},
    {"volume_descriptor": {}, "text_record": {}},
    {"volume_descriptor": {}, "file_descriptors": [], "text_record": {}},
    {
        "volume_descriptor": FULL_VOLUME_DESCRIPTOR,
        "file_descriptors": [{"preamble": {}, "referenced_file_number": 1}] * 4,
        "text_record": FULL_TEXT_RECORD,
    },
    {
        "text_record": FULL_TEXT_RECORD,
        "file_descriptors": [],
        "volume_descriptor": FULL_VOLUME_DESCRIPTOR,
    },
    {
        "volume_descriptor": {"a": 1},
        "file_descriptors": [{"b": 2}, {"c": 3}],
        "text_record": {"d": 4},
    },
    {
        "volume_descriptor": {"preamble": "a", "logical_volume_generation_country": "a"},
        "text_record": {"blanks": "", "location_and_datetime_of_product_creation": "b"},
    },
    {"volume_descriptor": {"a": 1, "b": 2}, "text_record": {"c": 3, "d": 4}},
    # the same key in both records and next to them
    {"volume_descriptor": {"a": 1, "b": 2}, "text_record": {"b": 3, "a": 4}},
    {"a": 0, "volume_descriptor": {"a": 1, "b": 2}, "b": 5, "text_record": {"c": 3}, "c": 6},
    # the text record does not know about the keys of the volume descriptor
    {
        "volume_descriptor": {"spare": 1, "logical_volume_creation_datetime": "2020101117233798"},
        "text_record": {"spare": 2, "logical_volume_creation_datetime": "2020101117233798"},
    },
    {"volume_descriptor": {"physical_tape_id": 1}, "text_record": {"physical_tape_id": 2}},
    # unknown entries are kept, nested ones are flattened
    {"other": {"preamble": 1, "x": 2}, "scalar": 1, "text_record": {"preamble": 1, "x": 3}},
    # failures of the nested transformers
    {"volume_descriptor": {"logical_volume_creation_datetime": "invalid"}, "text_record": {}},
    {"volume_descriptor": {"creation_datetime": 1}, "text_record": {}},
    {"volume_descriptor": None, "text_record": {}},
    {"volume_descriptor": {}, "text_record": None},
    {"volume_descriptor": [], "text_record": "abc"},
    {"volume_descriptor": None, "text_record": None},
    None,
    [],
]


# --- a synthetic volume directory file ---------------------------------------------


def preamble(number, length=360):
    return struct.pack(">IBBBBI", number, 192, 192, 18, 18, length)


def text(value, width):
    encoded = value.encode("ascii")
    assert len(encoded) <= width
    return encoded.ljust(width, b" ")


def integer(value, width):
    if value is None:
        return b" " * width
    return text(str(value).rjust(width), width)


def volume_descriptor(n_files, creation="2018080312450000"):
    parts = [
        preamble(1),
        text("A", 2),
        text("", 2),
        text("CEOS-SAR", 12),
        text(" A", 2),
        text(" A", 2),
        text("001.001", 12),
        text("", 16),
        text("ALOS2225333200  ", 16),
        text("", 16),
        integer(1, 2),
        integer(1, 2),
        integer(1, 2),
        integer(1, 2),
        integer(1, 4),
        integer(1, 4),
        integer(1, 4),
        text(creation, 16),
        text("JAPAN", 12),
        text("JAXA", 8),
        text("SCMO", 12),
        integer(n_files, 4),
        integer(1, 4),
        text("", 92),
        text("", 100),
    ]
    data = b"".join(parts)
    assert len(data) == 360
    return data


def file_descriptor(number, name):
    parts = [
        preamble(1 + number),
        text("A", 2),
        text("", 2),
        integer(number, 4),
        text(name, 16),
        text("SARLEADER FILE", 28),
        text("SARL", 4),
        text("MIXED BINARY AND ASCII", 28),
        text("MBAA", 4),
        integer(17, 8),
        integer(720, 8),
        integer(4680, 8),
        text("VARIABLE LEN", 12),
        text("VARE", 4),
        integer(1, 2),
        integer(1, 2),
        integer(1, 8),
        integer(17, 8),
        text("", 100),
        text("", 100),
    ]
    data = b"".join(parts)
    assert len(data) == 360
    return data


def text_record(number, product="PRODUCT:WWDR1.1__D"):
    parts = [
        preamble(number),
        text("A", 2),
        text("", 2),
        text(product, 40),
        text("PROCESS:JAPAN-JAXA-ALOS2-SCMO  20180803 124500", 60),
        text("TAPE_ID:", 40),
        text("ORBIT:ALOS2225333200-180726", 40),
        text("FRAME:", 40),
        text("", 124),
    ]
    data = b"".join(parts)
    assert len(data) == 360
    return data


def volume_directory(n_files, **kwargs):
    names = ["LED", "IMG-HH", "IMG-HV", "TRL", "IMG-VV", "IMG-VH"]
    return b"".join(
        [
            volume_descriptor(n_files, **kwargs),
            *(file_descriptor(index + 1, names[index % 6]) for index in range(n_files)),
            text_record(n_files + 2),
        ]
    )


FILES = {
    "VOL-ALOS2225333200-180726-WWDR1.1__D": volume_directory(4),
    "no-files": volume_directory(0),
    "one-file": volume_directory(1),
    "many-files": volume_directory(11),
    "blank-datetime": volume_directory(2, creation=""),
    "short-datetime": volume_directory(2, creation="20180803124500"),
    "invalid-datetime": volume_directory(2, creation="2018080312450x"),
    "truncated": volume_directory(4)[:-1],
    "truncated-descriptor": volume_directory(4)[:300],
    "empty": b"",
    "trailing": volume_directory(3) + b"\x00" * 100,
}
PATHS = [*FILES, "missing", "VOL", ""]


class RecordingMapper(dict):
    """dict based mapper that keeps track of the requests"""

    root = "memory"

    def __init__(self, *args, **kwargs):
        super().__init__(*args, **kwargs)
        self.requests = []

    def __getitem__(self, key):
        self.requests.append(key)
        return super().__getitem__(key)


EXPECTED = [
    ('ok', ('dict', [])),
    ('ok', ('dict', [("'control_document_id'", ('str', "'CEOS-SAR'")), ("'control_document_revision_level'", ('str', "'A'")), ("'record_format_revision_level'", ('str', "'A'")), ("'software_version'", ('str', "'001.001'")), ("'physical_volume_id'", ('str', "''")), ("'logical_volume_id'", ('str', "'ALOS2225333200'")), ("'volume_set_id'", ('str', "''")), ("'creation_datetime'", ('str', "'2018-08-03T12:45:00'")), ("'creation_country'", ('str', "'JAPAN'")), ("'creation_agency'", ('str', "'JAXA'")), ("'creation_facility'", ('str', "'SCMO'"))])),
    ('ok', ('dict', [("'creation_facility'", ('str', "'SCMO'")), ("'creation_agency'", ('str', "'JAXA'")), ("'creation_country'", ('str', "'JAPAN'")), ("'creation_datetime'", ('str', "'2018-08-03T12:45:00'")), ("'volume_set_id'", ('str', "''")), ("'logical_volume_id'", ('str', "'ALOS2225333200'")), ("'physical_volume_id'", ('str', "''")), ("'software_version'", ('str', "'001.001'")), ("'record_format_revision_level'", ('str', "'A'")), ("'control_document_revision_level'", ('str', "'A'")), ("'control_document_id'", ('str', "'CEOS-SAR'"))])),
    ('ok', ('dict', [("'control_document_id'", ('str', "'CEOS-SAR'")), ("'control_document_revision_level'", ('str', "'A'")), ("'record_format_revision_level'", ('str', "'A'")), ("'software_version'", ('str', "'001.001'")), ("'physical_volume_id'", ('str', "''")), ("'logical_volume_id'", ('str', "'ALOS2225333200'")), ("'volume_set_id'", ('str', "''")), ("'creation_datetime'", ('str', "'2018-08-03T12:45:00'")), ("'creation_country'", ('str', "'JAPAN'")), ("'creation_agency'", ('str', "'JAXA'")), ("'creation_facility'", ('str', "'SCMO'"))])),
    ('ok', ('dict', [("'control_document_id'", ('str', "'CEOS-SAR'")), ("'control_document_revision_level'", ('str', "'A'")), ("'record_format_revision_level'", ('str', "'A'")), ("'software_version'", ('str', "'001.001'")), ("'physical_volume_id'", ('str', "''")), ("'logical_volume_id'", ('str', "'ALOS2225333200'")), ("'volume_set_id'", ('str', "''")), ("'creation_datetime'", ('str', "'2018-08-03T12:45:00'")), ("'creation_country'", ('str', "'JAPAN'")), ("'creation_agency'", ('str', "'JAXA'")), ("'creation_facility'", ('str', "'SCMO'"))])),
    ('ok', ('dict', [])),
    ('ok', ('dict', [("'volume_set_id'", ('str', "'abc'"))])),
    ('ok', ('dict', [("'volume_set_id'", ('str', "'abc'")), ("'physical_volume_id'", ('str', "''")), ("'logical_volume_id'", ('NoneType', 'None'))])),
    ('ok', ('dict', [("'creation_datetime'", ('str', "'2020-10-11T17:23:37.980000'"))])),
    ('ok', ('dict', [("'creation_datetime'", ('str', "'2020-10-11T17:23:37.980000'"))])),
    ('ok', ('dict', [("'creation_datetime'", ('str', "'2020-10-11T17:23:03.700000'"))])),
    ('ok', ('dict', [("'creation_datetime'", ('str', "'2020-10-11T17:23:37.981230'"))])),
    ('ok', ('dict', [("'creation_datetime'", ('str', "'1999-01-01T00:00:00'"))])),
    ('ok', ('dict', [("'creation_datetime'", ('str', "'2020-10-11T17:23:37.980000'"))])),
    ('ok', ('dict', [("'software_version'", ('str', "'b'")), ("'x'", ('int', '1')), ("'y'", ('int', '2'))])),
    ('ok', ('dict', [("'software_version'", ('str', "'a'")), ("'x'", ('int', '1')), ("'y'", ('int', '2'))])),
    ('ok', ('dict', [("'control_document_id'", ('str', "'a'")), ("'creation_country'", ('str', "'b'")), ("'creation_agency'", ('str', "'c'"))])),
    ('ok', ('dict', [("'Preamble'", ('int', '1')), ("'SPARE'", ('int', '2')), ("'spare1'", ('int', '3')), ("'blanks1'", ('int', '4')), ("' blanks'", ('int', '5')), ("'blank'", ('int', '6'))])),
    ('raise', [('ValueError', "time data '' does not match format '%Y%m%d%H%M%S%f'", False)]),
    ('raise', [('ValueError', "time data '2020-10-11T17:23:37' does not match format '%Y%m%d%H%M%S%f'", False)]),
    ('raise', [('ValueError', 'unconverted data remains: 56', False)]),
    ('ok', ('dict', [("'a'", ('int', '1')), ("'creation_datetime'", ('str', "'2020-01-03T04:11:07.233700'")), ("'b'", ('int', '2'))])),
    ('raise', [('TypeError', 'strptime() argument 1 must be str, not None', False)]),
    ('raise', [('TypeError', 'strptime() argument 1 must be str, not int', False)]),
    ('raise', [('TypeError', 'strptime() argument 1 must be str, not bytes', False)]),
    ('raise', [('TypeError', 'strptime() argument 1 must be str, not list', False)]),
    ('ok', ('dict', [('1', ('str', "'a'")), ('None', ('str', "'b'")), ("('preamble',)", ('str', "'c'")), ('2.5', ('str', "'d'")), ("b'spare'", ('str', "'e'")), ("frozenset({'blanks'})", ('str', "'f'"))])),
    ('ok', ('dict', [('0', ('int', '0')), ('1', ('int', '1')), ('2', ('int', '2'))])),
    ('ok', ('dict', [("'volume_set_id'", ('list', "['a', {'b': 1}]")), ("'physical_volume_id'", ('dict', [("'nested'", ('dict', [("'preamble'", ('int', '1'))]))]))])),
    ('raise', [('AttributeError', "'NoneType' object has no attribute 'items'", False)]),
    ('raise', [('AttributeError', "'list' object has no attribute 'items'", False)]),
    ('raise', [('AttributeError', "'list' object has no attribute 'items'", False)]),
    ('raise', [('AttributeError', "'str' object has no attribute 'items'", False)]),
    ('raise', [('AttributeError', "'int' object has no attribute 'items'", False)]),
    ('ok', ('dict', [("'volume_set_id'", ('str', "'a'"))])),
    ('ok', ('dict', [])),
    ('ok', ('dict', [("'product_id'", ('str', "'PRODUCT:WWDR1.1__D'")), ("'product_creation'", ('str', "'PROCESS:JAPAN-JAXA-ALOS2-SCMO  20180803 124500'")), ("'scene_id'", ('str', "'ORBIT:ALOS2225333200-180726'")), ("'scene_location_id'", ('str', "'FRAME:'"))])),
    ('ok', ('dict', [("'scene_location_id'", ('str', "'FRAME:'")), ("'scene_id'", ('str', "'ORBIT:ALOS2225333200-180726'")), ("'product_creation'", ('str', "'PROCESS:JAPAN-JAXA-ALOS2-SCMO  20180803 124500'")), ("'product_id'", ('str', "'PRODUCT:WWDR1.1__D'"))])),
    ('ok', ('dict', [("'product_id'", ('str', "'PRODUCT:WWDR1.1__D'")), ("'product_creation'", ('str', "'PROCESS:JAPAN-JAXA-ALOS2-SCMO  20180803 124500'")), ("'scene_id'", ('str', "'ORBIT:ALOS2225333200-180726'")), ("'scene_location_id'", ('str', "'FRAME:'"))])),
    ('ok', ('dict', [("'product_id'", ('str', "'PRODUCT:WWDR1.1__D'")), ("'product_creation'", ('str', "'PROCESS:JAPAN-JAXA-ALOS2-SCMO  20180803 124500'")), ("'scene_id'", ('str', "'ORBIT:ALOS2225333200-180726'")), ("'scene_location_id'", ('str', "'FRAME:'"))])),
    ('ok', ('dict', [])),
    ('ok', ('dict', [("'product_id'", ('str', "'PRODUCT:WWDR1.5RUA'"))])),
    ('ok', ('dict', [("'product_id'", ('str', "'b'")), ("'product_creation'", ('str', "'a'"))])),
    ('ok', ('dict', [("'product_creation'", ('str', "'b'"))])),
    ('ok', ('dict', [("'product_creation'", ('str', "'a'"))])),
    ('ok', ('dict', [("'product_creation'", ('str', "'a'")), ("'x'", ('int', '1')), ("'y'", ('int', '2'))])),
    ('ok', ('dict', [("'spare'", ('int', '1')), ("'local_use_segment'", ('int', '2')), ("'number_of_file_pointer_records'", ('int', '3'))])),
    ('ok', ('dict', [("'logical_volume_creation_datetime'", ('str', "'x'")), ("'creation_datetime'", ('str', "'y'"))])),
    ('ok', ('dict', [("'Preamble'", ('int', '1')), ("'BLANKS'", ('int', '2')), ("'blanks1'", ('int', '3')), ("'physical_tape_id '", ('int', '4'))])),
    ('ok', ('dict', [('1', ('str', "'a'")), ('None', ('str', "'b'")), ("('preamble',)", ('str', "'c'")), ('2.5', ('str', "'d'")), ("b'blanks'", ('str', "'e'"))])),
    ('ok', ('dict', [("'scene_id'", ('NoneType', 'None')), ("'scene_location_id'", ('list', '[1, 2]')), ("'product_id'", ('dict', [("'preamble'", ('int', '1'))]))])),
    ('raise', [('AttributeError', "'NoneType' object has no attribute 'items'", False)]),
    ('raise', [('AttributeError', "'list' object has no attribute 'items'", False)]),
    ('raise', [('AttributeError', "'list' object has no attribute 'items'", False)]),
    ('raise', [('AttributeError', "'str' object has no attribute 'items'", False)]),
    ('raise', [('AttributeError', "'int' object has no attribute 'items'", False)]),
    ('ok', ('dict', [("'scene_id'", ('str', "'a'"))])),
    ('ok', ('Group', '/', None, ('dict', []), ('dict', []))),
    ('ok', ('Group', '/', None, ('dict', []), ('dict', []))),
    ('ok', ('Group', '/', None, ('dict', []), ('dict', []))),
    ('ok', ('Group', '/', None, ('dict', []), ('dict', [("'control_document_id'", ('str', "'CEOS-SAR'")), ("'control_document_revision_level'", ('str', "'A'")), ("'record_format_revision_level'", ('str', "'A'")), ("'software_version'", ('str', "'001.001'")), ("'physical_volume_id'", ('str', "''")), ("'logical_volume_id'", ('str', "'ALOS2225333200'")), ("'volume_set_id'", ('str', "''")), ("'creation_datetime'", ('str', "'2018-08-03T12:45:00'")), ("'creation_country'", ('str', "'JAPAN'")), ("'creation_agency'", ('str', "'JAXA'")), ("'creation_facility'", ('str', "'SCMO'")), ("'product_id'", ('str', "'PRODUCT:WWDR1.1__D'")), ("'product_creation'", ('str', "'PROCESS:JAPAN-JAXA-ALOS2-SCMO  20180803 124500'")), ("'scene_id'", ('str', "'ORBIT:ALOS2225333200-180726'")), ("'scene_location_id'", ('str', "'FRAME:'"))]))),
    ('ok', ('Group', '/', None, ('dict', []), ('dict', [("'product_id'", ('str', "'PRODUCT:WWDR1.1__D'")), ("'product_creation'", ('str', "'PROCESS:JAPAN-JAXA-ALOS2-SCMO  20180803 124500'")), ("'scene_id'", ('str', "'ORBIT:ALOS2225333200-180726'")), ("'scene_location_id'", ('str', "'FRAME:'")), ("'control_document_id'", ('str', "'CEOS-SAR'")), ("'control_document_revision_level'", ('str', "'A'")), ("'record_format_revision_level'", ('str', "'A'")), ("'software_version'", ('str', "'001.001'")), ("'physical_volume_id'", ('str', "''")), ("'logical_volume_id'", ('str', "'ALOS2225333200'")), ("'volume_set_id'", ('str', "''")), ("'creation_datetime'", ('str', "'2018-08-03T12:45:00'")), ("'creation_country'", ('str', "'JAPAN'")), ("'creation_agency'", ('str', "'JAXA'")), ("'creation_facility'", ('str', "'SCMO'"))]))),
    ('ok', ('Group', '/', None, ('dict', []), ('dict', [("'a'", ('int', '1')), ("'d'", ('int', '4'))]))),
    ('ok', ('Group', '/', None, ('dict', []), ('dict', [("'creation_country'", ('str', "'a'")), ("'product_creation'", ('str', "'b'"))]))),
    ('ok', ('Group', '/', None, ('dict', []), ('dict', [("'a'", ('int', '1')), ("'b'", ('int', '2')), ("'c'", ('int', '3')), ("'d'", ('int', '4'))]))),
    ('ok', ('Group', '/', None, ('dict', []), ('dict', [("'a'", ('int', '4')), ("'b'", ('int', '3'))]))),
    ('ok', ('Group', '/', None, ('dict', []), ('dict', [("'a'", ('int', '1')), ("'b'", ('int', '5')), ("'c'", ('int', '6'))]))),
    ('ok', ('Group', '/', None, ('dict', []), ('dict', [("'creation_datetime'", ('str', "'2020-10-11T17:23:37.980000'")), ("'spare'", ('int', '2')), ("'logical_volume_creation_datetime'", ('str', "'2020101117233798'"))]))),
    ('ok', ('Group', '/', None, ('dict', []), ('dict', [("'physical_tape_id'", ('int', '1'))]))),
    ('ok', ('Group', '/', None, ('dict', []), ('dict', [("'preamble'", ('int', '1')), ("'x'", ('int', '3')), ("'scalar'", ('int', '1'))]))),
    ('raise', [('ValueError', "time data 'invalid' does not match format '%Y%m%d%H%M%S%f'", False)]),
    ('raise', [('TypeError', 'strptime() argument 1 must be str, not int', False)]),
    ('raise', [('AttributeError', "'NoneType' object has no attribute 'items'", False)]),
    ('raise', [('AttributeError', "'NoneType' object has no attribute 'items'", False)]),
    ('raise', [('AttributeError', "'list' object has no attribute 'items'", False)]),
    ('raise', [('AttributeError', "'NoneType' object has no attribute 'items'", False)]),
    ('raise', [('AttributeError', "'NoneType' object has no attribute 'items'", False)]),
    ('raise', [('AttributeError', "'list' object has no attribute 'items'", False)]),
    (('ok', ('Group', '/', None, ('dict', []), ('dict', [("'control_document_id'", ('str', "'CEOS-SAR'")), ("'control_document_revision_level'", ('str', "'A'")), ("'record_format_revision_level'", ('str', "'A'")), ("'software_version'", ('str', "'001.001'")), ("'physical_volume_id'", ('str', "''")), ("'logical_volume_id'", ('str', "'ALOS2225333200'")), ("'volume_set_id'", ('str', "''")), ("'creation_datetime'", ('str', "'2018-08-03T12:45:00'")), ("'creation_country'", ('str', "'JAPAN'")), ("'creation_agency'", ('str', "'JAXA'")), ("'creation_facility'", ('str', "'SCMO'")), ("'product_id'", ('str', "'PRODUCT:WWDR1.1__D'")), ("'product_creation'", ('str', "'PROCESS:JAPAN-JAXA-ALOS2-SCMO  20180803 124500'")), ("'scene_id'", ('str', "'ORBIT:ALOS2225333200-180726'")), ("'scene_location_id'", ('str', "'FRAME:'"))]))), ['VOL-ALOS2225333200-180726-WWDR1.1__D']),
    (('ok', ('Group', '/', None, ('dict', []), ('dict', [("'control_document_id'", ('str', "'CEOS-SAR'")), ("'control_document_revision_level'", ('str', "'A'")), ("'record_format_revision_level'", ('str', "'A'")), ("'software_version'", ('str', "'001.001'")), ("'physical_volume_id'", ('str', "''")), ("'logical_volume_id'", ('str', "'ALOS2225333200'")), ("'volume_set_id'", ('str', "''")), ("'creation_datetime'", ('str', "'2018-08-03T12:45:00'")), ("'creation_country'", ('str', "'JAPAN'")), ("'creation_agency'", ('str', "'JAXA'")), ("'creation_facility'", ('str', "'SCMO'")), ("'product_id'", ('str', "'PRODUCT:WWDR1.1__D'")), ("'product_creation'", ('str', "'PROCESS:JAPAN-JAXA-ALOS2-SCMO  20180803 124500'")), ("'scene_id'", ('str', "'ORBIT:ALOS2225333200-180726'")), ("'scene_location_id'", ('str', "'FRAME:'"))]))), ['no-files']),
    (('ok', ('Group', '/', None, ('dict', []), ('dict', [("'control_document_id'", ('str', "'CEOS-SAR'")), ("'control_document_revision_level'", ('str', "'A'")), ("'record_format_revision_level'", ('str', "'A'")), ("'software_version'", ('str', "'001.001'")), ("'physical_volume_id'", ('str', "''")), ("'logical_volume_id'", ('str', "'ALOS2225333200'")), ("'volume_set_id'", ('str', "''")), ("'creation_datetime'", ('str', "'2018-08-03T12:45:00'")), ("'creation_country'", ('str', "'JAPAN'")), ("'creation_agency'", ('str', "'JAXA'")), ("'creation_facility'", ('str', "'SCMO'")), ("'product_id'", ('str', "'PRODUCT:WWDR1.1__D'")), ("'product_creation'", ('str', "'PROCESS:JAPAN-JAXA-ALOS2-SCMO  20180803 124500'")), ("'scene_id'", ('str', "'ORBIT:ALOS2225333200-180726'")), ("'scene_location_id'", ('str', "'FRAME:'"))]))), ['one-file']),
    (('ok', ('Group', '/', None, ('dict', []), ('dict', [("'control_document_id'", ('str', "'CEOS-SAR'")), ("'control_document_revision_level'", ('str', "'A'")), ("'record_format_revision_level'", ('str', "'A'")), ("'software_version'", ('str', "'001.001'")), ("'physical_volume_id'", ('str', "''")), ("'logical_volume_id'", ('str', "'ALOS2225333200'")), ("'volume_set_id'", ('str', "''")), ("'creation_datetime'", ('str', "'2018-08-03T12:45:00'")), ("'creation_country'", ('str', "'JAPAN'")), ("'creation_agency'", ('str', "'JAXA'")), ("'creation_facility'", ('str', "'SCMO'")), ("'product_id'", ('str', "'PRODUCT:WWDR1.1__D'")), ("'product_creation'", ('str', "'PROCESS:JAPAN-JAXA-ALOS2-SCMO  20180803 124500'")), ("'scene_id'", ('str', "'ORBIT:ALOS2225333200-180726'")), ("'scene_location_id'", ('str', "'FRAME:'"))]))), ['many-files']),
    (('raise', [('ValueError', "time data '' does not match format '%Y%m%d%H%M%S%f'", False)]), ['blank-datetime']),
    (('ok', ('Group', '/', None, ('dict', []), ('dict', [("'control_document_id'", ('str', "'CEOS-SAR'")), ("'control_document_revision_level'", ('str', "'A'")), ("'record_format_revision_level'", ('str', "'A'")), ("'software_version'", ('str', "'001.001'")), ("'physical_volume_id'", ('str', "''")), ("'logical_volume_id'", ('str', "'ALOS2225333200'")), ("'volume_set_id'", ('str', "''")), ("'creation_datetime'", ('str', "'2018-08-03T12:45:00'")), ("'creation_country'", ('str', "'JAPAN'")), ("'creation_agency'", ('str', "'JAXA'")), ("'creation_facility'", ('str', "'SCMO'")), ("'product_id'", ('str', "'PRODUCT:WWDR1.1__D'")), ("'product_creation'", ('str', "'PROCESS:JAPAN-JAXA-ALOS2-SCMO  20180803 124500'")), ("'scene_id'", ('str', "'ORBIT:ALOS2225333200-180726'")), ("'scene_location_id'", ('str', "'FRAME:'"))]))), ['short-datetime']),
    (('raise', [('ValueError', 'unconverted data remains: x', False)]), ['invalid-datetime']),
    (('raise', [('StreamError', 'Error in path (parsing) -> text_record -> blanks\nstream read less than specified amount, expected 124, found 123', False)]), ['truncated']),
    (('raise', [('StreamError', 'Error in path (parsing) -> volume_descriptor -> local_use_segment\nstream read less than specified amount, expected 100, found 40', False)]), ['truncated-descriptor']),
    (('raise', [('StreamError', 'Error in path (parsing) -> volume_descriptor -> preamble -> record_sequence_number\nstream read less than specified amount, expected 4, found 0', False)]), ['empty']),
    (('ok', ('Group', '/', None, ('dict', []), ('dict', [("'control_document_id'", ('str', "'CEOS-SAR'")), ("'control_document_revision_level'", ('str', "'A'")), ("'record_format_revision_level'", ('str', "'A'")), ("'software_version'", ('str', "'001.001'")), ("'physical_volume_id'", ('str', "''")), ("'logical_volume_id'", ('str', "'ALOS2225333200'")), ("'volume_set_id'", ('str', "''")), ("'creation_datetime'", ('str', "'2018-08-03T12:45:00'")), ("'creation_country'", ('str', "'JAPAN'")), ("'creation_agency'", ('str', "'JAXA'")), ("'creation_facility'", ('str', "'SCMO'")), ("'product_id'", ('str', "'PRODUCT:WWDR1.1__D'")), ("'product_creation'", ('str', "'PROCESS:JAPAN-JAXA-ALOS2-SCMO  20180803 124500'")), ("'scene_id'", ('str', "'ORBIT:ALOS2225333200-180726'")), ("'scene_location_id'", ('str', "'FRAME:'"))]))), ['trailing']),
    (('raise', [('FileNotFoundError', 'Cannot open missing', True), ('KeyError', "'missing'", False)]), ['missing']),
    (('raise', [('FileNotFoundError', 'Cannot open VOL', True), ('KeyError', "'VOL'", False)]), ['VOL']),
    (('raise', [('FileNotFoundError', 'Cannot open ', True), ('KeyError', "''", False)]), ['']),
    ('ok', ('Group', '/', None, ('dict', []), ('dict', [("'control_document_id'", ('str', "'CEOS-SAR'")), ("'control_document_revision_level'", ('str', "'A'")), ("'record_format_revision_level'", ('str', "'A'")), ("'software_version'", ('str', "'001.001'")), ("'physical_volume_id'", ('str', "''")), ("'logical_volume_id'", ('str', "'ALOS2225333200'")), ("'volume_set_id'", ('str', "''")), ("'creation_datetime'", ('str', "'2018-08-03T12:45:00'")), ("'creation_country'", ('str', "'JAPAN'")), ("'creation_agency'", ('str', "'JAXA'")), ("'creation_facility'", ('str', "'SCMO'")), ("'product_id'", ('str', "'PRODUCT:WWDR1.1__D'")), ("'product_creation'", ('str', "'PROCESS:JAPAN-JAXA-ALOS2-SCMO  20180803 124500'")), ("'scene_id'", ('str', "'ORBIT:ALOS2225333200-180726'")), ("'scene_location_id'", ('str', "'FRAME:'"))]))),
    ('ok', ('Group', '/', None, ('dict', []), ('dict', [("'control_document_id'", ('str', "'CEOS-SAR'")), ("'control_document_revision_level'", ('str', "'A'")), ("'record_format_revision_level'", ('str', "'A'")), ("'software_version'", ('str', "'001.001'")), ("'physical_volume_id'", ('str', "''")), ("'logical_volume_id'", ('str', "'ALOS2225333200'")), ("'volume_set_id'", ('str', "''")), ("'creation_datetime'", ('str', "'2018-08-03T12:45:00'")), ("'creation_country'", ('str', "'JAPAN'")), ("'creation_agency'", ('str', "'JAXA'")), ("'creation_facility'", ('str', "'SCMO'")), ("'product_id'", ('str', "'PRODUCT:WWDR1.1__D'")), ("'product_creation'", ('str', "'PROCESS:JAPAN-JAXA-ALOS2-SCMO  20180803 124500'")), ("'scene_id'", ('str', "'ORBIT:ALOS2225333200-180726'")), ("'scene_location_id'", ('str', "'FRAME:'"))]))),
    ('ok', ('Group', '/', None, ('dict', []), ('dict', [("'control_document_id'", ('str', "'CEOS-SAR'")), ("'control_document_revision_level'", ('str', "'A'")), ("'record_format_revision_level'", ('str', "'A'")), ("'software_version'", ('str', "'001.001'")), ("'physical_volume_id'", ('str', "''")), ("'logical_volume_id'", ('str', "'ALOS2225333200'")), ("'volume_set_id'", ('str', "''")), ("'creation_datetime'", ('str', "'2018-08-03T12:45:00'")), ("'creation_country'", ('str', "'JAPAN'")), ("'creation_agency'", ('str', "'JAXA'")), ("'creation_facility'", ('str', "'SCMO'")), ("'product_id'", ('str', "'PRODUCT:WWDR1.1__D'")), ("'product_creation'", ('str', "'PROCESS:JAPAN-JAXA-ALOS2-SCMO  20180803 124500'")), ("'scene_id'", ('str', "'ORBIT:ALOS2225333200-180726'")), ("'scene_location_id'", ('str', "'FRAME:'"))]))),
    ('ok', ('Group', '/', None, ('dict', []), ('dict', [("'control_document_id'", ('str', "'CEOS-SAR'")), ("'control_document_revision_level'", ('str', "'A'")), ("'record_format_revision_level'", ('str', "'A'")), ("'software_version'", ('str', "'001.001'")), ("'physical_volume_id'", ('str', "''")), ("'logical_volume_id'", ('str', "'ALOS2225333200'")), ("'volume_set_id'", ('str', "''")), ("'creation_datetime'", ('str', "'2018-08-03T12:45:00'")), ("'creation_country'", ('str', "'JAPAN'")), ("'creation_agency'", ('str', "'JAXA'")), ("'creation_facility'", ('str', "'SCMO'")), ("'product_id'", ('str', "'PRODUCT:WWDR1.1__D'")), ("'product_creation'", ('str', "'PROCESS:JAPAN-JAXA-ALOS2-SCMO  20180803 124500'")), ("'scene_id'", ('str', "'ORBIT:ALOS2225333200-180726'")), ("'scene_location_id'", ('str', "'FRAME:'"))]))),
    ('raise', [('ValueError', "time data '' does not match format '%Y%m%d%H%M%S%f'", False)]),
    ('ok', ('Group', '/', None, ('dict', []), ('dict', [("'control_document_id'", ('str', "'CEOS-SAR'")), ("'control_document_revision_level'", ('str', "'A'")), ("'record_format_revision_level'", ('str', "'A'")), ("'software_version'", ('str', "'001.001'")), ("'physical_volume_id'", ('str', "''")), ("'logical_volume_id'", ('str', "'ALOS2225333200'")), ("'volume_set_id'", ('str', "''")), ("'creation_datetime'", ('str', "'2018-08-03T12:45:00'")), ("'creation_country'", ('str', "'JAPAN'")), ("'creation_agency'", ('str', "'JAXA'")), ("'creation_facility'", ('str', "'SCMO'")), ("'product_id'", ('str', "'PRODUCT:WWDR1.1__D'")), ("'product_creation'", ('str', "'PROCESS:JAPAN-JAXA-ALOS2-SCMO  20180803 124500'")), ("'scene_id'", ('str', "'ORBIT:ALOS2225333200-180726'")), ("'scene_location_id'", ('str', "'FRAME:'"))]))),
    ('raise', [('ValueError', 'unconverted data remains: x', False)]),
    ('raise', [('StreamError', 'Error in path (parsing) -> text_record -> blanks\nstream read less than specified amount, expected 124, found 123', False)]),
    ('raise', [('StreamError', 'Error in path (parsing) -> volume_descriptor -> local_use_segment\nstream read less than specified amount, expected 100, found 40', False)]),
    ('raise', [('StreamError', 'Error in path (parsing) -> volume_descriptor -> preamble -> record_sequence_number\nstream read less than specified amount, expected 4, found 0', False)]),
    ('ok', ('Group', '/', None, ('dict', []), ('dict', [("'control_document_id'", ('str', "'CEOS-SAR'")), ("'control_document_revision_level'", ('str', "'A'")), ("'record_format_revision_level'", ('str', "'A'")), ("'software_version'", ('str', "'001.001'")), ("'physical_volume_id'", ('str', "''")), ("'logical_volume_id'", ('str', "'ALOS2225333200'")), ("'volume_set_id'", ('str', "''")), ("'creation_datetime'", ('str', "'2018-08-03T12:45:00'")), ("'creation_country'", ('str', "'JAPAN'")), ("'creation_agency'", ('str', "'JAXA'")), ("'creation_facility'", ('str', "'SCMO'")), ("'product_id'", ('str', "'PRODUCT:WWDR1.1__D'")), ("'product_creation'", ('str', "'PROCESS:JAPAN-JAXA-ALOS2-SCMO  20180803 124500'")), ("'scene_id'", ('str', "'ORBIT:ALOS2225333200-180726'")), ("'scene_location_id'", ('str', "'FRAME:'"))]))),
    ('raise', [('FileNotFoundError', 'Cannot open missing', True), ('KeyError', "'missing'", True), ('FileNotFoundError', '/eq3-volume-directory/missing', True), ('KeyError', "'/eq3-volume-directory/missing'", False)]),
    ('raise', [('FileNotFoundError', 'Cannot open VOL', True), ('KeyError', "'VOL'", True), ('FileNotFoundError', '/eq3-volume-directory/VOL', True), ('KeyError', "'/eq3-volume-directory/VOL'", False)]),
    ('raise', [('FileNotFoundError', 'Cannot open ', True), ('KeyError', "''", True), ('FileNotFoundError', '/eq3-volume-directory', True), ('KeyError', "'/eq3-volume-directory'", False)]),
    ('ok', ('Group', '/', None, ('dict', []), ('dict', [("'control_document_id'", ('str', "'CEOS-SAR'")), ("'control_document_revision_level'", ('str', "'A'")), ("'record_format_revision_level'", ('str', "'A'")), ("'software_version'", ('str', "'001.001'")), ("'physical_volume_id'", ('str', "''")), ("'logical_volume_id'", ('str', "'ALOS2225333200'")), ("'volume_set_id'", ('str', "''")), ("'creation_datetime'", ('str', "'2018-08-03T12:45:00'")), ("'creation_country'", ('str', "'JAPAN'")), ("'creation_agency'", ('str', "'JAXA'")), ("'creation_facility'", ('str', "'SCMO'")), ("'product_id'", ('str', "'PRODUCT:WWDR1.1__D'")), ("'product_creation'", ('str', "'PROCESS:JAPAN-JAXA-ALOS2-SCMO  20180803 124500'")), ("'scene_id'", ('str', "'ORBIT:ALOS2225333200-180726'")), ("'scene_location_id'", ('str', "'FRAME:'"))]))),
    ('ok', ('Group', '/', None, ('dict', []), ('dict', [("'control_document_id'", ('str', "'CEOS-SAR'")), ("'control_document_revision_level'", ('str', "'A'")), ("'record_format_revision_level'", ('str', "'A'")), ("'software_version'", ('str', "'001.001'")), ("'physical_volume_id'", ('str', "''")), ("'logical_volume_id'", ('str', "'ALOS2225333200'")), ("'volume_set_id'", ('str', "''")), ("'creation_datetime'", ('str', "'2018-08-03T12:45:00'")), ("'creation_country'", ('str', "'JAPAN'")), ("'creation_agency'", ('str', "'JAXA'")), ("'creation_facility'", ('str', "'SCMO'")), ("'product_id'", ('str', "'PRODUCT:WWDR1.1__D'")), ("'product_creation'", ('str', "'PROCESS:JAPAN-JAXA-ALOS2-SCMO  20180803 124500'")), ("'scene_id'", ('str', "'ORBIT:ALOS2225333200-180726'")), ("'scene_location_id'", ('str', "'FRAME:'"))]))),
    ('raise', [('ValueError', "time data '' does not match format '%Y%m%d%H%M%S%f'", False)]),
]


def compute():
    outcomes = []
    for mapping in VOLUME_DESCRIPTORS:
        outcomes.append(outcome(metadata.transform_volume_descriptor, mapping))
    for mapping in TEXT_RECORDS:
        outcomes.append(outcome(metadata.transform_text, mapping))
    for mapping in RECORDS:
        outcomes.append(outcome(metadata.transform_record, mapping))

    for path in PATHS:
        mapper = RecordingMapper(FILES)
        outcomes.append(
            (outcome(open_volume_directory, mapper, path, check_args=False), list(mapper.requests))
        )

    fs = fsspec.filesystem("memory")
    root = "/eq3-volume-directory"
    for name, content in FILES.items():
        fs.pipe(f"{root}/{name}", content)
    try:
        mapper = fsspec.get_mapper(f"memory://{root}")
        for path in PATHS:
            outcomes.append(outcome(open_volume_directory, mapper, path, check_args=False))
    finally:
        fs.rm(root, recursive=True)

    for name in ["VOL-ALOS2225333200-180726-WWDR1.1__D", "no-files", "blank-datetime"]:
        outcomes.append(outcome(metadata.transform_record, io.parse_data(FILES[name])))

    return outcomes


def labels():
    return (
        [f"transform_volume_descriptor({m!r})" for m in VOLUME_DESCRIPTORS]
        + [f"transform_text({m!r})" for m in TEXT_RECORDS]
        + [f"transform_record({m!r})" for m in RECORDS]
        + [f"open_volume_directory(dict, {p!r})" for p in PATHS]
        + [f"open_volume_directory(fsspec, {p!r})" for p in PATHS]
        + ["parse_data + transform_record"] * 3
    )


def test_outcomes():
    actual = compute()
    names = labels()
    assert len(actual) == len(EXPECTED) == len(names)
    for label, a, e in zip(names, actual, EXPECTED):
        assert a == e, f"{label[:200]}:\n  actual   {a}\n  expected {e}"


def test_results_are_independent():
    # changing a result does not affect later calls
    for func, mapping in [
        (metadata.transform_volume_descriptor, FULL_VOLUME_DESCRIPTOR),
        (metadata.transform_text, FULL_TEXT_RECORD),
    ]:
        first = func(mapping)
        assert type(first) is dict
        snapshot = copy.deepcopy(first)
        first.clear()
        first["preamble"] = "changed"
        second = func(mapping)
        assert second is not first
        assert second == snapshot and list(second) == list(snapshot)
        third = func(dict(mapping, extra=1))
        assert third == {**snapshot, "extra": 1}

    record = {"volume_descriptor": FULL_VOLUME_DESCRIPTOR, "text_record": FULL_TEXT_RECORD}
    first = metadata.transform_record(record)
    snapshot = copy.deepcopy(first.attrs)
    first.attrs.clear()
    first.attrs["creation_datetime"] = None
    second = metadata.transform_record(record)
    assert second.attrs == snapshot and list(second.attrs) == list(snapshot)
    assert second.attrs["creation_datetime"] == "2018-08-03T12:45:00"


def test_public_names():
    for name in [
        "transform_volume_descriptor",
        "transform_text",
        "transform_record",
        "curry",
        "pipe",
        "apply_to_items",
        "dissoc",
        "Group",
        "normalize_datetime",
        "remove_nesting_layer",
        "rename",
    ]:
        assert hasattr(metadata, name), name


if __name__ == "__main__":
    if "--record" in sys.argv:
        print("[\n" + "".join(f"    {item!r},\n" for item in compute()) + "]")
        sys.exit(0)

    test_outcomes()
    test_results_are_independent()
    test_public_names()
    print("ok")
