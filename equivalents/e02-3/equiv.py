"""Equivalence check for refactoring 3 (ceos_alos2/sar_image/signal_data.py).

Run as:  cd <worktree> && PYTHONPATH=<worktree> python _eq/3/equiv.py
Passes on clean HEAD and with patch.diff applied; the expected values were
recorded from the unchanged code.
"""

import datetime
import hashlib
import struct
from collections import Counter

import construct

from ceos_alos2.sar_image import io
from ceos_alos2.sar_image.signal_data import signal_data_record
from ceos_alos2.utils import to_dict

RECORD_PREFIX = 544  # bytes before the pixel data


def digest(obj):
    return hashlib.sha256(repr(obj).encode()).hexdigest()


def outcome(func, *args, **kwargs):
    try:
        return ("ok", func(*args, **kwargs))
    except Exception as e:  # noqa: BLE001
        return ("raised", type(e).__name__)


# ------------------------------------------------------------ structure dumps
def children_of(c):
    # `Renamed` forwards unknown attributes to the wrapped construct, so look at the
    # instance dictionary instead of using `hasattr`
    if "subcons" in vars(c):
        return list(c.subcons)
    if "subcon" in vars(c):
        return [c.subcon]
    return []


def describe(c):
    """nested, id-free description of a construct tree"""
    extras = []
    for attr in ("name", "fmtstr", "length", "factor", "attrs", "encmapping", "at", "func"):
        if attr in vars(c):
            value = vars(c)[attr]
            extras.append((attr, value if isinstance(value, (str, int, float)) else repr(value)))
    if "reference_date" in vars(c):
        extras.append(("reference_date", repr(c.reference_date)))
    children = [describe(child) for child in children_of(c)]
    return (type(c).__name__, tuple(extras), tuple(children))


def nodes(c):
    yield c
    for child in children_of(c):
        yield from nodes(child)


def count_types(c):
    return dict(sorted(Counter(type(n).__name__ for n in nodes(c)).items()))


def check_structure():
    assert digest(describe(signal_data_record)) == EXPECTED_TREE_DIGEST, digest(
        describe(signal_data_record)
    )
    assert count_types(signal_data_record) == EXPECTED_TYPE_COUNTS, count_types(signal_data_record)

    # every field has its own adapter / struct / wrapper instances: nothing is shared
    # apart from the primitive singletons of construct and the module level enums
    # and structs that were shared before (record_preamble, pulse_polarization)
    composite = [
        n
        for n in nodes(signal_data_record)
        if type(n).__name__
        in ("Metadata", "Factor", "Struct", "Renamed", "StripNullBytes", "Flag", "Bytes")
    ]
    assert len(composite) == len({id(n) for n in composite}) == EXPECTED_COMPOSITE_COUNT, len(
        composite
    )
    attrs = [n.attrs for n in nodes(signal_data_record) if type(n).__name__ == "Metadata"]
    assert len(attrs) == len({id(a) for a in attrs}) == 33, len(attrs)

    assert [sc.name for sc in signal_data_record.subcons] == EXPECTED_FIELD_NAMES
    for name, expected in EXPECTED_SUBFIELDS.items():
        assert [sc.name for sc in signal_data_record._subcons[name].subcon.subcons] == expected
    assert isinstance(signal_data_record, construct.Struct)


# -------------------------------------------------------------------- parsing
def make_record(k, record_size, fill=None):
    if fill is None:
        buf = bytearray((i * 31 + k * 17 + 5) % 251 for i in range(record_size))
    else:
        buf = bytearray([fill]) * record_size
    buf[0:12] = struct.pack(">IBBBBI", k + 2, 50, 10, 18, 20, record_size)
    buf[36:48] = struct.pack(">III", 2020, 100 + k, 1000 * k + 5)
    buf[84:92] = struct.pack(">Q", 3_600_000_000 + k)
    return bytes(buf)


def other_records():
    return {
        "zeros": make_record(0, 560, fill=0),
        "ones": make_record(1, 600, fill=0xFF),
        "no_data": make_record(2, RECORD_PREFIX),
    }


def check_parse():
    parsed = signal_data_record.parse(make_record(3, 560))
    actual = to_dict(parsed)
    assert actual == EXPECTED_RECORD, actual
    assert list(actual) == list(EXPECTED_RECORD)
    assert repr(actual) == repr(EXPECTED_RECORD)  # also compares types and nested order

    for name, record in other_records().items():
        actual = digest(to_dict(signal_data_record.parse(record)))
        assert actual == EXPECTED_DIGESTS[name], (name, actual)

    # the attrs of different fields are distinct objects ...
    assert parsed.platform_velocity.x[1] == parsed.platform_velocity.y[1] == {"units": "cm/s"}
    assert parsed.platform_velocity.x[1] is not parsed.platform_velocity.y[1]
    assert parsed.platform_velocity.x[1] is not parsed.platform_acceleration.x[1]
    assert parsed.platform_latitude[1] is not parsed.platform_longitude[1]
    assert parsed.platform_attitude.pitch[1] is not parsed.platform_attitude.roll[1]
    assert (
        parsed.elevation_angle_at_nadir_of_antenna.electronic[1]
        is not parsed.antenna_squint_angle.electronic[1]
    )
    # ... but shared between the records for the same field
    again = signal_data_record.parse(make_record(4, 560))
    assert parsed.platform_latitude[1] is again.platform_latitude[1]

    # truncated / empty / too short record lengths
    assert outcome(signal_data_record.parse, make_record(3, 560)[:200]) == ("raised", "StreamError")
    assert outcome(signal_data_record.parse, b"") == ("raised", "StreamError")
    short = bytearray(make_record(3, 560))
    short[8:12] = struct.pack(">I", 100)  # record length smaller than the prefix
    parsed = signal_data_record.parse(bytes(short))
    assert dict(to_dict(parsed)["data"]) == {"start": 544, "size": -444, "stop": 100}
    invalid_year = bytearray(make_record(3, 560))
    invalid_year[36:40] = struct.pack(">I", 0)
    assert outcome(signal_data_record.parse, bytes(invalid_year)) == ("raised", "ValueError")


def check_parse_chunk():
    content = b"".join(make_record(k, 560) for k in range(3))
    records = io.parse_chunk(content, 560)
    assert [(r.record_start, r.data.start, r.data.size, r.data.stop) for r in records] == [
        (0, 544, 16, 560),
        (560, 1104, 16, 1120),
        (1120, 1664, 16, 1680),
    ]
    assert digest(to_dict(records)) == EXPECTED_CHUNK_DIGEST, digest(to_dict(records))


EXPECTED_TREE_DIGEST = '323c6401fb73e820fc2dbe24e1d7deae89cb43813b04667995564fb151ec66bc'
EXPECTED_TYPE_COUNTS = {'Bytes': 2,
 'Computed': 1,
 'DatetimeYdms': 1,
 'DatetimeYdus': 1,
 'Enum': 6,
 'Factor': 13,
 'Flag': 2,
 'FormatField': 62,
 'Metadata': 33,
 'Renamed': 76,
 'Seek': 1,
 'StripNullBytes': 2,
 'Struct': 9,
 'Tell': 2}
EXPECTED_COMPOSITE_COUNT = 137
EXPECTED_CHUNK_DIGEST = 'ba080412f0ae41a668b69b50cf5f1984ccc389c3f8871f004991adfa2c1bdc9a'
EXPECTED_DIGESTS = {'zeros': 'c763b9778cd9e7cbb75b87fb09f9a0a1802d80035e865b7c5230df8822b8e341',
 'ones': 'a6695b413dba77aec8b5943f793ad66c3c1cea7bcf58b9b732b0d3f8d058e154',
 'no_data': '0ffdc063185642e3b9ce4b18eebd58eddfe8c6eadabd50412d3b37d514f4e384'}
EXPECTED_FIELD_NAMES = ['record_start',
 'preamble',
 'sar_image_data_line_number',
 'sar_image_data_record_index',
 'actual_count_of_left_fill_pixels',
 'actual_count_of_data_pixels',
 'actual_count_of_right_fill_pixels',
 'sensor_parameters_update_flag',
 'sensor_acquisition_date',
 'sar_channel_id',
 'sar_channel_code',
 'transmitted_pulse_polarization',
 'received_pulse_polarization',
 'prf',
 'scan_id',
 'onboard_range_compressed_flag',
 'chirp_type_designator',
 'chirp_length',
 'chirp_constant_coefficient',
 'chirp_linear_coefficient',
 'chirp_quadratic_coefficient',
 'sensor_acquisition_date_microseconds',
 'receiver_gain',
 'invalid_line_flag',
 'elevation_angle_at_nadir_of_antenna',
 'antenna_squint_angle',
 'slant_range_to_first_data_sample',
 'data_record_window_position',
 'blanks1',
 'platform_position_parameters_update_flag',
 'platform_latitude',
 'platform_longitude',
 'platform_altitude',
 'platform_ground_speed',
 'platform_velocity',
 'platform_acceleration',
 'platform_track_angle',
 'platform_true_track_angle',
 'platform_attitude',
 'latitude_of_first_pixel',
 'latitude_of_center_pixel',
 'latitude_of_last_pixel',
 'longitude_of_first_pixel',
 'longitude_of_center_pixel',
 'longitude_of_last_pixel',
 'burst_number',
 'line_number_in_this_burst',
 'blanks2',
 'alos2_frame_number',
 'palsar_auxiliary_data',
 'data']
EXPECTED_SUBFIELDS = {'elevation_angle_at_nadir_of_antenna': ['electronic', 'mechanic'],
 'antenna_squint_angle': ['electronic', 'mechanic'],
 'platform_velocity': ['x', 'y', 'z'],
 'platform_acceleration': ['x', 'y', 'z'],
 'platform_attitude': ['pitch', 'roll', 'yaw']}
EXPECTED_RECORD = {'record_start': 0,
 'preamble': {'record_sequence_number': 5,
              'first_record_subtype': 50,
              'record_type': 10,
              'second_record_subtype': 18,
              'third_record_subtype': 20,
              'record_length': 560},
 'sar_image_data_line_number': 2983259923,
 'sar_image_data_record_index': 844198031,
 'actual_count_of_left_fill_pixels': 2932730896,
 'actual_count_of_data_pixels': 793669004,
 'actual_count_of_right_fill_pixels': 2882201869,
 'sensor_parameters_update_flag': 743139977,
 'sensor_acquisition_date': datetime.datetime(2020, 4, 12, 0, 0, 3, 5000),
 'sar_channel_id': 9797,
 'sar_channel_code': 25731,
 'transmitted_pulse_polarization': 41665,
 'received_pulse_polarization': 57348,
 'prf': (591552896, {'units': 'mHz'}),
 'scan_id': 2680085761,
 'onboard_range_compressed_flag': True,
 'chirp_type_designator': 24189,
 'chirp_length': (2629556985, {'units': 'ns'}),
 'chirp_constant_coefficient': (490494842, {'units': 'Hz'}),
 'chirp_linear_coefficient': (2579027958, {'units': 'Hz/µs'}),
 'chirp_quadratic_coefficient': (439965815, {'units': 'Hz/µs^2'}),
 'sensor_acquisition_date_microseconds': datetime.datetime(2020, 4, 12, 1, 0, 0, 3),
 'receiver_gain': (2477969904, {'units': 'dB'}),
 'invalid_line_flag': True,
 'elevation_angle_at_nadir_of_antenna': {'electronic': (2427440877, {'units': 'deg'}),
                                         'mechanic': (288378734, {'units': 'deg'})},
 'antenna_squint_angle': {'electronic': (2376911850, {'units': 'deg'}),
                          'mechanic': (237849707, {'units': 'deg'})},
 'slant_range_to_first_data_sample': (2326382823, {'units': 'm'}),
 'data_record_window_position': (187320680, {'units': 'ns'}),
 'blanks1': 2275853796,
 'platform_position_parameters_update_flag': 136791653,
 'platform_latitude': (2225.324769, {'units': 'deg'}),
 'platform_longitude': (86.262626, {'units': 'deg'}),
 'platform_altitude': (2174795742, {'units': 'deg'}),
 'platform_ground_speed': (35733599, {'units': 'cm/s'}),
 'platform_velocity': {'x': (2124266715, {'units': 'cm/s'}),
                       'y': (4196285788, {'units': 'cm/s'}),
                       'z': (2073737688, {'units': 'cm/s'})},
 'platform_acceleration': {'x': (4145756761, {'units': 'cm/s^2'}),
                           'y': (2023208661, {'units': 'cm/s^2'}),
                           'z': (4095227734, {'units': 'cm/s^2'})},
 'platform_track_angle': (1972.6796339999999, {'units': 'deg'}),
 'platform_true_track_angle': (4044.698707, {'units': 'deg'}),
 'platform_attitude': {'pitch': (1922.1506069999998, {'units': 'deg'}),
                       'roll': (3994.16968, {'units': 'deg'}),
                       'yaw': (1871.62158, {'units': 'deg'})},
 'latitude_of_first_pixel': (3943.640653, {'units': 'deg'}),
 'latitude_of_center_pixel': (1821.092553, {'units': 'deg'}),
 'latitude_of_last_pixel': (3893.111626, {'units': 'deg'}),
 'longitude_of_first_pixel': (1770.563526, {'units': 'deg'}),
 'longitude_of_center_pixel': (3842.582599, {'units': 'deg'}),
 'longitude_of_last_pixel': (1720.0344989999999, {'units': 'deg'}),
 'burst_number': 3792053572,
 'line_number_in_this_burst': 1669505472,
 'blanks2': b'\xdf\x03"A`\x7f\x9e\xbd\xdc\x00\x1f>]|\x9b\xba\xd9\xf8\x1c;Zy\x98\xb7'
            b'\xd6\xf5\x198Wv\x95\xb4\xd3\xf2\x165Ts\x92\xb1\xd0\xef\x132Qp\x8f\xae'
            b'\xcd\xec\x10/Nm\x8c\xab\xca\xe9\r,',
 'alos2_frame_number': 1265273256,
 'palsar_auxiliary_data': b'\xc7\xe6\n)Hg\x86\xa5\xc4\xe3\x07&Ed\x83\xa2\xc1\xe0\x04#'
                          b'Ba\x80\x9f\xbe\xdd\x01 ?^}\x9c\xbb\xda\xf9\x1d<[z\x99'
                          b'\xb8\xd7\xf6\x1a9Xw\x96\xb5\xd4\xf3\x176Ut\x93\xb2\xd1\xf0\x14'
                          b'3Rq\x90\xaf\xce\xed\x110On\x8d\xac\xcb\xea\x0e-Lk\x8a'
                          b"\xa9\xc8\xe7\x0b*Ih\x87\xa6\xc5\xe4\x08'Fe\x84\xa3\xc2\xe1\x05"
                          b'$Cb\x81\xa0\xbf\xde\x02!@_~\x9d\xbc\xdb\xfa\x1e=\\{'
                          b'\x9a\xb9\xd8\xf7\x1b:Yx\x97\xb6\xd5\xf4\x187Vu\x94\xb3\xd2\xf1'
                          b'\x154Sr\x91\xb0\xcf\xee\x121Po\x8e\xad\xcc\xeb\x0f.Ml'
                          b'\x8b\xaa\xc9\xe8\x0c+Ji\x88\xa7\xc6\xe5\t(Gf\x85\xa4\xc3\xe2'
                          b'\x06%Dc\x82\xa1\xc0\xdf\x03"A`\x7f\x9e\xbd\xdc\x00\x1f>]'
                          b'|\x9b\xba\xd9\xf8\x1c;Zy\x98\xb7\xd6\xf5\x198Wv\x95\xb4\xd3'
                          b'\xf2\x165Ts\x92\xb1\xd0\xef\x132Qp\x8f\xae\xcd\xec\x10/N'
                          b'm\x8c\xab\xca\xe9\r,Kj\x89\xa8\xc7\xe6\n)H',
 'data': {'start': 544, 'size': 16, 'stop': 560}}


if __name__ == "__main__":
    check_structure()
    check_parse()
    check_parse_chunk()
    print("equiv 3: OK")
