"""Equivalence check for refactoring 1 (``ceos_alos2.io.open``).

The readers called by ``io.open`` are replaced by recording stubs, so the
script checks exactly what ``io.open`` itself does: which readers it calls,
in which order, with which arguments, and what tree it assembles from their
results.  The expected values were produced with the UNCHANGED code.

Run:  cd /tmp/wt2/e07 && PYTHONPATH=/tmp/wt2/e07 /venv/bin/python _eq/1/equiv.py
"""

import fsspec

from ceos_alos2 import io, sar_image
from ceos_alos2.hierarchy import Group, Variable

calls = []


def describe(obj):
    if isinstance(obj, Group):
        return {
            "path": obj.path,
            "url": obj.url,
            "attrs": obj.attrs,
            "data": {name: describe(item) for name, item in obj.data.items()},
        }
    if isinstance(obj, Variable):
        return ["var", list(obj.dims), list(obj.data), obj.attrs]
    raise TypeError(type(obj))


def install(imagery_names, failing=None, group_names=None):
    calls.clear()
    group_names = group_names or {}

    def fake_open_summary(mapper, path):
        calls.append(("summary", type(mapper).__name__, mapper.root, path))
        data_files = Group(
            path=None,
            url=None,
            data={},
            attrs={"volume_directory": "VOL-X", "sar_leader": "LED-X", "sar_imagery": imagery_names},
        )
        info = Group(path=None, url=None, data={"data_files": data_files}, attrs={"k": 1})
        return Group(path="summary", url=None, data={"product_information": info}, attrs={})

    def fake_open_volume_directory(mapper, path):
        calls.append(("volume_directory", mapper.root, path))
        return Group(path=None, url=None, data={}, attrs={"agency": "JAXA", "reference_document": "x"})

    def fake_open_sar_leader(mapper, path):
        calls.append(("sar_leader", mapper.root, path))
        return Group(
            path=None, url=None, data={"v": Variable("x", [1, 2], {"u": "m"})}, attrs={"led": True}
        )

    def fake_open_image(mapper, path, *, use_cache=True, create_cache=False, records_per_chunk=None):
        calls.append(("image", mapper.root, path, use_cache, create_cache, records_per_chunk))
        if failing is not None and path == failing[0]:
            raise failing[1]
        return Group(
            path=group_names.get(path, path[4:6]),
            url=None,
            data={"data": Variable(["rows", "columns"], [path], {})},
            attrs={"file": path},
        )

    io.open_summary = fake_open_summary
    io.open_volume_directory = fake_open_volume_directory
    io.open_sar_leader = fake_open_sar_leader
    sar_image.open_image = fake_open_image


def run(path, imagery_names, failing=None, group_names=None, **kwargs):
    install(imagery_names, failing=failing, group_names=group_names)
    try:
        result = describe(io.open(path, **kwargs))
    except Exception as e:  # noqa: BLE001
        result = ["raised", type(e).__name__, e.args, type(e.__cause__).__name__]
    return {"calls": list(calls), "result": result}


REF = "https://www.eorc.jaxa.jp/ALOS-2/en/doc/fdata/PALSAR-2_xx_Format_CEOS_E_f.pdf"


def image(name, path, url="/a/b"):
    return {
        "path": path,
        "url": url,
        "attrs": {"file": name},
        "data": {"data": ["var", ["rows", "columns"], [name], {}]},
    }


def tree(imagery, url="/a/b"):
    return {
        "path": "/",
        "url": url,
        "attrs": {"agency": "JAXA", "reference_document": REF},
        "data": {
            "summary": {
                "path": "/summary",
                "url": url,
                "attrs": {},
                "data": {
                    "product_information": {
                        "path": "/summary/product_information",
                        "url": url,
                        "attrs": {"k": 1},
                        "data": {
                            "data_files": {
                                "path": "/summary/product_information/data_files",
                                "url": url,
                                "attrs": {
                                    "volume_directory": "VOL-X",
                                    "sar_leader": "LED-X",
                                    "sar_imagery": None,  # filled in by the caller
                                },
                                "data": {},
                            }
                        },
                    }
                },
            },
            "metadata": {
                "path": "/metadata",
                "url": url,
                "attrs": {"led": True},
                "data": {"v": ["var", ["x"], [1, 2], {"u": "m"}]},
            },
            "imagery": {"path": "/imagery", "url": url, "attrs": {}, "data": imagery},
        },
    }


def with_names(expected_tree, names):
    files = expected_tree["data"]["summary"]["data"]["product_information"]["data"]["data_files"]
    files["attrs"]["sar_imagery"] = names
    return expected_tree


def head(url="/a/b"):
    return [
        ("summary", "FSMap", url, "summary.txt"),
        ("volume_directory", url, "VOL-X"),
        ("sar_leader", url, "LED-X"),
    ]


# --- case 1: defaults, two images -------------------------------------------------
names = ["IMG-HH-X", "IMG-HV-X"]
actual = run("memory://a/b", names)
expected = {
    "calls": head()
    + [
        ("image", "/a/b", "IMG-HH-X", True, False, 1024),
        ("image", "/a/b", "IMG-HV-X", True, False, 1024),
    ],
    "result": with_names(
        tree(
            {
                "HH": image("IMG-HH-X", "/imagery/HH"),
                "HV": image("IMG-HV-X", "/imagery/HV"),
            }
        ),
        names,
    ),
}
assert actual == expected, actual
assert list(actual["result"]["data"]) == ["summary", "metadata", "imagery"]
assert list(actual["result"]["data"]["imagery"]["data"]) == ["HH", "HV"]

# --- case 2: all options given, three images, a tuple of names, storage options ----
names = ("IMG-VV-X", "IMG-HH-X", "IMG-VH-X")
actual = run(
    "memory://a/b",
    names,
    storage_options={"check": False},
    create_cache=True,
    use_cache=False,
    records_per_chunk=7,
)
expected = {
    "calls": head()
    + [
        ("image", "/a/b", "IMG-VV-X", False, True, 7),
        ("image", "/a/b", "IMG-HH-X", False, True, 7),
        ("image", "/a/b", "IMG-VH-X", False, True, 7),
    ],
    "result": with_names(
        tree(
            {
                "VV": image("IMG-VV-X", "/imagery/VV"),
                "HH": image("IMG-HH-X", "/imagery/HH"),
                "VH": image("IMG-VH-X", "/imagery/VH"),
            }
        ),
        names,
    ),
}
assert actual == expected, actual
assert list(actual["result"]["data"]["imagery"]["data"]) == ["VV", "HH", "VH"]

# --- case 3: no images at all -------------------------------------------------------
actual = run("memory://a/b", [])
expected = {"calls": head(), "result": with_names(tree({}), [])}
assert actual == expected, actual

# --- case 4: two images mapping to the same group name: the later one wins,
#             at the position of the first ----------------------------------------
names = ["IMG-HH-1", "IMG-HV-2", "IMG-HH-3"]
actual = run("memory://a/b", names)
expected = {
    "calls": head()
    + [
        ("image", "/a/b", "IMG-HH-1", True, False, 1024),
        ("image", "/a/b", "IMG-HV-2", True, False, 1024),
        ("image", "/a/b", "IMG-HH-3", True, False, 1024),
    ],
    "result": with_names(
        tree(
            {
                "HH": image("IMG-HH-3", "/imagery/HH"),
                "HV": image("IMG-HV-2", "/imagery/HV"),
            }
        ),
        names,
    ),
}
assert actual == expected, actual
assert list(actual["result"]["data"]["imagery"]["data"]) == ["HH", "HV"]

# --- case 5: group names that are nested paths: the name is the last component ------
names = ["IMG-HH-1"]
actual = run("memory://a/b", names, group_names={"IMG-HH-1": "x/HH_scan1"})
expected = {
    "calls": head() + [("image", "/a/b", "IMG-HH-1", True, False, 1024)],
    "result": with_names(tree({"HH_scan1": image("IMG-HH-1", "/imagery/HH_scan1")}), names),
}
assert actual == expected, actual

# --- case 6: an image reader that fails: the error propagates unchanged, and the
#             remaining images are not read (FileNotFoundError and TypeError) --------
names = ["IMG-HH-X", "IMG-HV-X", "IMG-VV-X"]
for exc, name in [(FileNotFoundError("gone"), "FileNotFoundError"), (TypeError("bad"), "TypeError")]:
    actual = run("memory://a/b", names, failing=("IMG-HV-X", exc))
    expected = {
        "calls": head()
        + [
            ("image", "/a/b", "IMG-HH-X", True, False, 1024),
            ("image", "/a/b", "IMG-HV-X", True, False, 1024),
        ],
        "result": ["raised", name, exc.args, "NoneType"],
    }
    assert actual == expected, actual

# --- case 7: a missing "sar_imagery" entry is a KeyError after the leader was read ---
install([])


def summary_without_imagery(mapper, path):
    calls.append(("summary", type(mapper).__name__, mapper.root, path))
    data_files = Group(
        path=None, url=None, data={}, attrs={"volume_directory": "VOL-X", "sar_leader": "LED-X"}
    )
    info = Group(path=None, url=None, data={"data_files": data_files}, attrs={})
    return Group(path="summary", url=None, data={"product_information": info}, attrs={})


io.open_summary = summary_without_imagery
try:
    io.open("memory://a/b")
except KeyError as e:
    assert e.args == ("sar_imagery",)
else:
    raise AssertionError("no KeyError")
assert calls == head(), calls

# --- case 8: unknown / wrongly passed options still fail the same way ----------------
install([])
for args, kwargs in [((), {"chunks": 1}), (("x",), {}), ((), {"storage_options": None})]:
    try:
        io.open("memory://a/b", *args, **kwargs)
    except TypeError:
        pass
    else:
        raise AssertionError("no TypeError")
assert calls == [], calls

# --- case 9: the mapper is created with the given storage options --------------------
seen = []
original_get_mapper = fsspec.get_mapper


def recording_get_mapper(*args, **kwargs):
    seen.append((args, kwargs))
    return original_get_mapper(*args, **kwargs)


fsspec.get_mapper = recording_get_mapper
try:
    run("memory://c", ["IMG-HH-X"], storage_options={"check": True, "create": False})
    run("memory://c", ["IMG-HH-X"])
finally:
    fsspec.get_mapper = original_get_mapper
assert seen == [(("memory://c",), {"check": True, "create": False}), (("memory://c",), {})], seen

print("refactoring 1: all equivalence checks passed")
