"""Equivalence check for refactoring 3 (io.open).

Run as

    cd /tmp/wt9/e74 && PYTHONPATH=/tmp/wt9/e74 /venv/bin/python _eq/3/equiv.py

(or through pytest). ``EXPECTED`` was recorded from the unchanged code with
``equiv.py --record``; the script has to pass with and without ``patch.diff``.

There are no real products in the sandbox, so the readers of the binary files
(`open_volume_directory`, `open_sar_leader`, `sar_image.open_image`) are replaced
by recording stand-ins *with the signatures of the real functions*; the summary
is read by the real `open_summary` from a recording `fsspec` mapper on top of the
memory file system. That way every request to the store and every call to a
reader is logged in order.
"""

import contextlib
import inspect
import pprint
import sys

import fsspec
from fsspec.mapping import FSMap

import ceos_alos2.io as alos2_io
from ceos_alos2 import sar_image
from ceos_alos2.hierarchy import Group, Variable

try:
    ExceptionGroup
except NameError:  # pragma: no cover
    from exceptiongroup import ExceptionGroup


def describe_exc(e, depth=0):
    """a compact text form of an exception: type, arguments and how it is chained"""
    if e is None:
        return None

    parts = [f"{type(e).__module__}.{type(e).__qualname__}{e.args!r}"]
    if isinstance(e, OSError):
        parts.append(f"errno={e.errno!r} filename={e.filename!r}")
    if isinstance(e, ExceptionGroup):
        members = ", ".join(describe_exc(sub, depth + 1) for sub in e.exceptions)
        parts.append(f"message={e.message!r} exceptions=[{members}]")
    parts.append(f"suppress_context={e.__suppress_context__}")
    if depth < 4:
        parts.append(f"cause=({describe_exc(e.__cause__, depth + 1)})")
        parts.append(f"context=({describe_exc(e.__context__, depth + 1)})")
    # the name of this module depends on how it is run (script or pytest)
    return " ".join(parts).replace(f"{__name__}.", "local.")


def describe(value):
    """a compact, deterministic text form of results (keeps the types and the order of items)"""
    if isinstance(value, Group):
        fields = ", ".join(
            f"{name}={describe(getattr(value, name))}" for name in ("path", "url", "attrs", "data")
        )
        return f"Group({fields})"
    if isinstance(value, Variable):
        return f"Variable({describe(value.dims)}, {describe(value.data)}, {describe(value.attrs)})"
    if type(value) is dict:
        return "{" + ", ".join(f"{describe(k)}: {describe(v)}" for k, v in value.items()) + "}"
    if type(value) is list:
        return "[" + ", ".join(describe(v) for v in value) + "]"
    if type(value) is tuple:
        return "(" + "".join(f"{describe(v)}, " for v in value) + ")"
    if type(value) in (str, bytes, int, float, bool, type(None)):
        return repr(value)
    if isinstance(value, FSMap):
        return f"<{type(value).__name__} {value._root if hasattr(value, '_root') else value.root}>"
    text = repr(value)
    if " at 0x" in text:
        return f"<{type(value).__name__}>"
    return f"<{type(value).__name__} {text}>"


summary_lines = [
    'Scs_SceneID="ALOS2290760600-191011"',
    'Pds_ProductID="WWDR1.1__D"',
    'Pdi_ProductFormat="CEOS"',
    'Pdi_CntOfL11ProductFileName="{count}"',
    "{files}",
    'Pdi_NoOfPixels_1=" 9196"',
    'Pdi_NoOfLines_1="60568"',
    'Lbi_ObservationDate="20191011"',
]


def make_summary(filenames):
    files = "\n".join(
        f'Pdi_L11ProductFileName{index:02d}="{name}"' for index, name in enumerate(filenames, 1)
    )
    return "\n".join(summary_lines).format(count=len(filenames), files=files).encode()


suffix = "ALOS2290760600-191011-WWDR1.1__D"
products = {
    "dual": [f"VOL-{suffix}", f"LED-{suffix}", f"IMG-HH-{suffix}", f"IMG-HV-{suffix}", f"TRL-{suffix}"],
    "single": [f"VOL-{suffix}", f"LED-{suffix}", f"IMG-HH-{suffix}", f"TRL-{suffix}"],
    "no-imagery": [f"VOL-{suffix}", f"LED-{suffix}", f"TRL-{suffix}"],
    "scansar": [f"VOL-{suffix}", f"LED-{suffix}"]
    + [f"IMG-{pol}-{suffix}-F{scan}" for pol in ("HH", "HV") for scan in range(1, 6)]
    + [f"TRL-{suffix}"],
    "duplicates": [f"VOL-{suffix}", f"LED-{suffix}", "same", "other", "same", f"TRL-{suffix}"],
    "too-few": [f"VOL-{suffix}", f"LED-{suffix}"],
}


class RecordingMap(FSMap):
    events = None

    @property
    def root(self):
        self.events.append(("mapper.root",))
        return self._root

    @root.setter
    def root(self, value):
        self._root = value

    def __getitem__(self, key, default=None):
        self.events.append(("mapper.__getitem__", key))
        return super().__getitem__(key, default)

    def getitems(self, keys, on_error="raise"):
        self.events.append(("mapper.getitems", list(keys)))
        return super().getitems(keys, on_error=on_error)


class Harness(contextlib.ExitStack):
    """patch the readers used by `io.open` with recording stand-ins"""

    def __init__(
        self,
        failures=None,
        volume_attrs=None,
        group_names=None,
        summary=None,
        real_summary=True,
    ):
        super().__init__()
        self.events = []
        self.failures = failures or {}
        self.volume_attrs = {"volume_id": "vol", "n": 1} if volume_attrs is None else volume_attrs
        self.group_names = group_names or {}
        self.summary = summary
        self.real_summary = real_summary
        self.mappers = []

    def maybe_fail(self, key):
        error = self.failures.get(key)
        if error is not None:
            raise error

    def mapper_id(self, mapper):
        for index, known in enumerate(self.mappers):
            if known is mapper:
                return f"mapper#{index}"
        return describe(mapper)

    # stand-ins (same signatures as the real functions)
    def get_mapper(self, url="", check=False, create=False, missing_exceptions=None, **kwargs):
        self.events.append(("get_mapper", url, check, create, missing_exceptions, dict(kwargs)))
        self.maybe_fail("get_mapper")
        fs, urlpath = fsspec.core.url_to_fs(url, **kwargs)
        mapper = RecordingMap(urlpath, fs, check, create, missing_exceptions=missing_exceptions)
        mapper.events = self.events
        self.mappers.append(mapper)
        return mapper

    def open_summary(self, mapper, path):
        self.events.append(("open_summary", self.mapper_id(mapper), path))
        self.maybe_fail("open_summary")
        if self.summary is not None:
            return self.summary
        return self.original_open_summary(mapper, path)

    def open_volume_directory(self, mapper, path):
        self.events.append(("open_volume_directory", self.mapper_id(mapper), path))
        self.maybe_fail("open_volume_directory")
        return Group(path=None, url=None, data={}, attrs=self.volume_attrs)

    def open_sar_leader(self, mapper, path):
        self.events.append(("open_sar_leader", self.mapper_id(mapper), path))
        self.maybe_fail("open_sar_leader")
        return Group(
            path=None,
            url=None,
            data={"orbit": Group(None, None, {"x": Variable("t", [1, 2], {"u": "m"})}, {"a": 1})},
            attrs={"leader": path},
        )

    def open_image(
        self, mapper, path, *, use_cache=True, create_cache=False, records_per_chunk=None
    ):
        self.events.append(
            (
                "open_image",
                self.mapper_id(mapper),
                path,
                ("use_cache", describe(use_cache)),
                ("create_cache", describe(create_cache)),
                ("records_per_chunk", describe(records_per_chunk)),
            )
        )
        self.maybe_fail(("open_image", path))
        name = self.group_names.get(path, path.removeprefix("IMG-").replace(f"-{suffix}", ""))
        return Group(
            path=name,
            url=None,
            data={"data": Variable(["rows", "columns"], [[1, 2]], {})},
            attrs={"file": path, "rpc": records_per_chunk},
        )

    def __enter__(self):
        super().__enter__()
        self.original_open_summary = alos2_io.open_summary

        def patch(obj, name, new):
            old = getattr(obj, name)
            setattr(obj, name, new)
            self.callback(setattr, obj, name, old)

        patch(fsspec, "get_mapper", self.get_mapper)
        if not self.real_summary or self.summary is not None or "open_summary" in self.failures:
            patch(alos2_io, "open_summary", self.open_summary)
        patch(alos2_io, "open_volume_directory", self.open_volume_directory)
        patch(alos2_io, "open_sar_leader", self.open_sar_leader)
        patch(sar_image, "open_image", self.open_image)
        return self


def store(root, files):
    fs = fsspec.filesystem("memory")
    if fs.exists(root):
        fs.rm(root, recursive=True)
    for name, data in files.items():
        fs.pipe_file(f"{root}/{name}", data)
    return f"memory://{root}"


def run_open(harness, *args, **kwargs):
    with harness:
        try:
            result = {"returned": describe(alos2_io.open(*args, **kwargs))}
        except BaseException as e:  # noqa: B036
            result = {"raised": describe_exc(e)}
    result["events"] = [describe(event) for event in harness.events]
    return result


class OrOnly:
    """`attrs` of the volume directory that only support `|`"""

    def __or__(self, other):
        return {"or-only": True, **other}


def cases_products():
    results = {}
    for name, filenames in products.items():
        url = store(f"/eq3/{name}", {"summary.txt": make_summary(filenames)})
        results[name] = run_open(Harness(), url)

    url = store("/eq3/options", {"summary.txt": make_summary(products["dual"])})
    option_sets = {
        "defaults": {},
        "create-cache": {"create_cache": True},
        "no-cache": {"use_cache": False},
        "rpc": {"records_per_chunk": 7},
        "rpc-none": {"records_per_chunk": None},
        "rpc-str": {"records_per_chunk": "1MB"},
        "all": {"create_cache": 1, "use_cache": 0, "records_per_chunk": 2.5},
        "storage-options-empty": {"storage_options": {}},
        "storage-options-unknown": {"storage_options": {"some_option": 1}},
        "storage-options-none": {"storage_options": None},
        "unknown-keyword": {"chunks": 3},
    }
    for name, options in option_sets.items():
        results[f"options:{name}"] = run_open(Harness(), url, **options)
    results["positional-options"] = run_open(Harness(), url, {})
    results["no-arguments"] = run_open(Harness())
    results["path-keyword"] = run_open(Harness(), path=url)
    results["missing-product"] = run_open(Harness(), "memory:///eq3/does-not-exist")
    results["plain-path"] = run_open(Harness(), "/eq3/does-not-exist-either/")
    results["trailing-slash"] = run_open(Harness(), url + "/")

    # the default of `storage_options` is never modified
    results["signature"] = str(inspect.signature(alos2_io.open))
    results["default-storage-options"] = describe(
        inspect.signature(alos2_io.open).parameters["storage_options"].default
    )
    return results


def cases_failures():
    url = store("/eq3/failures", {"summary.txt": make_summary(products["scansar"])})
    third = products["scansar"][4]
    errors = {
        "os-error": OSError("boom"),
        "type-error": TypeError("wrong type"),
        "key-error": KeyError("missing"),
        "stop-iteration": StopIteration("stop"),
        "keyboard-interrupt": KeyboardInterrupt(),
    }
    results = {}
    for stage in ["get_mapper", "open_summary", "open_volume_directory", "open_sar_leader"]:
        for name, error in errors.items():
            results[f"{stage}:{name}"] = run_open(Harness(failures={stage: error}), url)
    for position, path in {"first": products["scansar"][2], "third": third}.items():
        for name, error in errors.items():
            failures = {("open_image", path): error}
            results[f"open_image-{position}:{name}"] = run_open(Harness(failures=failures), url)
    failures = {
        "open_volume_directory": OSError("volume directory"),
        "open_sar_leader": OSError("leader"),
        ("open_image", third): OSError("image"),
    }
    results["several"] = run_open(Harness(failures=failures), url)

    results["invalid-summary"] = run_open(
        Harness(), store("/eq3/invalid", {"summary.txt": b'garbage\nScs_SceneShift="0"\nmore'})
    )
    results["no-product-information"] = run_open(
        Harness(), store("/eq3/no-pdi", {"summary.txt": b'Scs_SceneShift="0"\n'})
    )
    results["no-data-files"] = run_open(
        Harness(), store("/eq3/no-files", {"summary.txt": b'Pdi_ProductFormat="CEOS"\n'})
    )
    return results


def cases_fake_summaries():
    def summary(attrs, url=None):
        data_files = Group(path="data_files", url=url, data={}, attrs=attrs)
        product_info = Group(path="product_info", url=url, data={"data_files": data_files}, attrs={})
        return Group(
            path="summary", url=url, data={"product_information": product_info}, attrs={"s": 1}
        )

    complete = {
        "volume_directory": "VOL",
        "sar_leader": "LED",
        "sar_imagery": ["IMG-HH", "IMG-HV"],
        "sar_trailer": "TRL",
    }

    def without(key):
        return {k: v for k, v in complete.items() if k != key}

    url = store("/eq3/fake", {"unrelated": b""})
    results = {}
    variants = {
        "complete": complete,
        "no-volume-directory": without("volume_directory"),
        "no-leader": without("sar_leader"),
        "no-imagery": without("sar_imagery"),
        "no-trailer": without("sar_trailer"),
        "empty": {},
        "imagery-tuple": complete | {"sar_imagery": ("IMG-HH",)},
        "imagery-string": complete | {"sar_imagery": "AB"},
        "imagery-iterator": complete | {"sar_imagery": iter(["IMG-VV", "IMG-VH"])},
        "imagery-dict": complete | {"sar_imagery": {"IMG-HH": 1, "IMG-VV": 2}},
        "imagery-none": complete | {"sar_imagery": None},
        "imagery-int": complete | {"sar_imagery": 3},
        "reordered": dict(reversed(list(complete.items()))),
    }
    for name, attrs in variants.items():
        results[name] = run_open(Harness(summary=summary(attrs)), url)

    results["summary-with-url"] = run_open(Harness(summary=summary(complete, url="elsewhere")), url)
    results["summary-dict"] = run_open(
        Harness(summary={"product_information": {"data_files": summary(complete)}}), url
    )
    results["summary-none"] = run_open(Harness(summary=False), url)

    # attributes of the volume directory
    volume_attrs = {
        "empty": {},
        "overlapping": {"reference_document": "mine", "z": 1},
        "ordered": {"z": 1, "a": 2, "m": {"nested": [1, 2]}},
        "or-only": OrOnly(),
        "list": [1, 2],
        "items": (("a", 1),),
    }
    for name, attrs in volume_attrs.items():
        harness = Harness(summary=summary(complete), volume_attrs=attrs)
        results[f"volume-attrs:{name}"] = run_open(harness, url)

    # the attributes of the volume directory are not modified / shared
    attrs = {"a": 1}
    harness = Harness(summary=summary(complete), volume_attrs=attrs)
    with harness:
        first = alos2_io.open(url)
        second = alos2_io.open(url)
    first.attrs["extra"] = 1
    results["attrs-independent"] = [describe(attrs), describe(second.attrs), describe(first.attrs)]

    # names of the image groups
    names = {
        "duplicates": {"IMG-HH": "same", "IMG-HV": "same"},
        "nested-name": {"IMG-HH": "a/b", "IMG-HV": "/c"},
        "root-name": {"IMG-HH": "/", "IMG-HV": ""},
    }
    for name, group_names in names.items():
        harness = Harness(summary=summary(complete), group_names=group_names)
        results[f"group-names:{name}"] = run_open(harness, url)

    return results


def run():
    return {
        "products": cases_products(),
        "failures": cases_failures(),
        "fake-summaries": cases_fake_summaries(),
        "public-names": sorted(
            name
            for name in (
                "open",
                "open_summary",
                "open_volume_directory",
                "open_sar_leader",
                "sar_image",
                "Group",
                "fsspec",
            )
            if hasattr(alos2_io, name)
        ),
    }


# @@EXPECTED-BEGIN@@
EXPECTED = {
    'products': {
        'dual': (
            {'returned': "Group(path='/', url='/eq3/dual', attrs={'volume_id': 'vol', 'n': 1, "
                         "'reference_document': "
                         "'https://www.eorc.jaxa.jp/ALOS-2/en/doc/fdata/PALSAR-2_xx_Format_CEOS_E_f.pdf'}, "
                         "data={'summary': Group(path='/summary', url='/eq3/dual', attrs={}, "
                         "data={'scene_specification': Group(path='/summary/scene_specification', "
                         "url='/eq3/dual', attrs={'mission_name': 'ALOS2', 'orbit_accumulation': 29076, "
                         "'scene_frame': 600, 'date': '2019-10-11'}, data={}), 'product_specification': "
                         "Group(path='/summary/product_specification', url='/eq3/dual', "
                         "attrs={'observation_mode': 'ScanSAR nominal 28MHz mode dual polarization', "
                         "'observation_direction': 'right looking', 'processing_level': 'level 1.1', "
                         "'processing_option': 'not specified', 'map_projection': 'not specified', "
                         "'orbit_direction': 'descending'}, data={}), 'product_information': "
                         "Group(path='/summary/product_information', url='/eq3/dual', attrs={'ProductFormat': "
                         "'CEOS'}, data={'data_files': Group(path='/summary/product_information/data_files', "
                         "url='/eq3/dual', attrs={'volume_directory': 'VOL-ALOS2290760600-191011-WWDR1.1__D', "
                         "'sar_leader': 'LED-ALOS2290760600-191011-WWDR1.1__D', 'sar_imagery': "
                         "['IMG-HH-ALOS2290760600-191011-WWDR1.1__D', "
                         "'IMG-HV-ALOS2290760600-191011-WWDR1.1__D'], 'sar_trailer': "
                         "'TRL-ALOS2290760600-191011-WWDR1.1__D'}, data={}), 'shapes': "
                         "Group(path='/summary/product_information/shapes', url='/eq3/dual', attrs={'1': "
                         "(9196, 60568, )}, data={})}), 'label_information': "
                         "Group(path='/summary/label_information', url='/eq3/dual', attrs={'ObservationDate': "
                         "'2019-10-11'}, data={})}), 'metadata': Group(path='/metadata', url='/eq3/dual', "
                         "attrs={'leader': 'LED-ALOS2290760600-191011-WWDR1.1__D'}, data={'orbit': "
                         "Group(path='/metadata/orbit', url='/eq3/dual', attrs={'a': 1}, data={'x': "
                         "Variable(['t'], [1, 2], {'u': 'm'})})}), 'imagery': Group(path='/imagery', "
                         "url='/eq3/dual', attrs={}, data={'HH': Group(path='/imagery/HH', url='/eq3/dual', "
                         "attrs={'file': 'IMG-HH-ALOS2290760600-191011-WWDR1.1__D', 'rpc': 1024}, "
                         "data={'data': Variable(['rows', 'columns'], [[1, 2]], {})}), 'HV': "
                         "Group(path='/imagery/HV', url='/eq3/dual', attrs={'file': "
                         "'IMG-HV-ALOS2290760600-191011-WWDR1.1__D', 'rpc': 1024}, data={'data': "
                         "Variable(['rows', 'columns'], [[1, 2]], {})})})})",
             'events': ["('get_mapper', 'memory:///eq3/dual', False, False, None, {}, )",
                        "('mapper.__getitem__', 'summary.txt', )",
                        "('open_volume_directory', 'mapper#0', 'VOL-ALOS2290760600-191011-WWDR1.1__D', )",
                        "('open_sar_leader', 'mapper#0', 'LED-ALOS2290760600-191011-WWDR1.1__D', )",
                        "('open_image', 'mapper#0', 'IMG-HH-ALOS2290760600-191011-WWDR1.1__D', ('use_cache', "
                        "'True', ), ('create_cache', 'False', ), ('records_per_chunk', '1024', ), )",
                        "('open_image', 'mapper#0', 'IMG-HV-ALOS2290760600-191011-WWDR1.1__D', ('use_cache', "
                        "'True', ), ('create_cache', 'False', ), ('records_per_chunk', '1024', ), )",
                        "('mapper.root', )",
                        "('mapper.root', )"]}
        ),
        'single': (
            {'returned': "Group(path='/', url='/eq3/single', attrs={'volume_id': 'vol', 'n': 1, "
                         "'reference_document': "
                         "'https://www.eorc.jaxa.jp/ALOS-2/en/doc/fdata/PALSAR-2_xx_Format_CEOS_E_f.pdf'}, "
                         "data={'summary': Group(path='/summary', url='/eq3/single', attrs={}, "
                         "data={'scene_specification': Group(path='/summary/scene_specification', "
                         "url='/eq3/single', attrs={'mission_name': 'ALOS2', 'orbit_accumulation': 29076, "
                         "'scene_frame': 600, 'date': '2019-10-11'}, data={}), 'product_specification': "
                         "Group(path='/summary/product_specification', url='/eq3/single', "
                         "attrs={'observation_mode': 'ScanSAR nominal 28MHz mode dual polarization', "
                         "'observation_direction': 'right looking', 'processing_level': 'level 1.1', "
                         "'processing_option': 'not specified', 'map_projection': 'not specified', "
                         "'orbit_direction': 'descending'}, data={}), 'product_information': "
                         "Group(path='/summary/product_information', url='/eq3/single', "
                         "attrs={'ProductFormat': 'CEOS'}, data={'data_files': "
                         "Group(path='/summary/product_information/data_files', url='/eq3/single', "
                         "attrs={'volume_directory': 'VOL-ALOS2290760600-191011-WWDR1.1__D', 'sar_leader': "
                         "'LED-ALOS2290760600-191011-WWDR1.1__D', 'sar_imagery': "
                         "['IMG-HH-ALOS2290760600-191011-WWDR1.1__D'], 'sar_trailer': "
                         "'TRL-ALOS2290760600-191011-WWDR1.1__D'}, data={}), 'shapes': "
                         "Group(path='/summary/product_information/shapes', url='/eq3/single', attrs={'1': "
                         "(9196, 60568, )}, data={})}), 'label_information': "
                         "Group(path='/summary/label_information', url='/eq3/single', "
                         "attrs={'ObservationDate': '2019-10-11'}, data={})}), 'metadata': "
                         "Group(path='/metadata', url='/eq3/single', attrs={'leader': "
                         "'LED-ALOS2290760600-191011-WWDR1.1__D'}, data={'orbit': "
                         "Group(path='/metadata/orbit', url='/eq3/single', attrs={'a': 1}, data={'x': "
                         "Variable(['t'], [1, 2], {'u': 'm'})})}), 'imagery': Group(path='/imagery', "
                         "url='/eq3/single', attrs={}, data={'HH': Group(path='/imagery/HH', "
                         "url='/eq3/single', attrs={'file': 'IMG-HH-ALOS2290760600-191011-WWDR1.1__D', 'rpc': "
                         "1024}, data={'data': Variable(['rows', 'columns'], [[1, 2]], {})})})})",
             'events': ["('get_mapper', 'memory:///eq3/single', False, False, None, {}, )",
                        "('mapper.__getitem__', 'summary.txt', )",
                        "('open_volume_directory', 'mapper#0', 'VOL-ALOS2290760600-191011-WWDR1.1__D', )",
                        "('open_sar_leader', 'mapper#0', 'LED-ALOS2290760600-191011-WWDR1.1__D', )",
                        "('open_image', 'mapper#0', 'IMG-HH-ALOS2290760600-191011-WWDR1.1__D', ('use_cache', "
                        "'True', ), ('create_cache', 'False', ), ('records_per_chunk', '1024', ), )",
                        "('mapper.root', )",
                        "('mapper.root', )"]}
        ),
        'no-imagery': (
            {'returned': "Group(path='/', url='/eq3/no-imagery', attrs={'volume_id': 'vol', 'n': 1, "
                         "'reference_document': "
                         "'https://www.eorc.jaxa.jp/ALOS-2/en/doc/fdata/PALSAR-2_xx_Format_CEOS_E_f.pdf'}, "
                         "data={'summary': Group(path='/summary', url='/eq3/no-imagery', attrs={}, "
                         "data={'scene_specification': Group(path='/summary/scene_specification', "
                         "url='/eq3/no-imagery', attrs={'mission_name': 'ALOS2', 'orbit_accumulation': 29076, "
                         "'scene_frame': 600, 'date': '2019-10-11'}, data={}), 'product_specification': "
                         "Group(path='/summary/product_specification', url='/eq3/no-imagery', "
                         "attrs={'observation_mode': 'ScanSAR nominal 28MHz mode dual polarization', "
                         "'observation_direction': 'right looking', 'processing_level': 'level 1.1', "
                         "'processing_option': 'not specified', 'map_projection': 'not specified', "
                         "'orbit_direction': 'descending'}, data={}), 'product_information': "
                         "Group(path='/summary/product_information', url='/eq3/no-imagery', "
                         "attrs={'ProductFormat': 'CEOS'}, data={'data_files': "
                         "Group(path='/summary/product_information/data_files', url='/eq3/no-imagery', "
                         "attrs={'volume_directory': 'VOL-ALOS2290760600-191011-WWDR1.1__D', 'sar_leader': "
                         "'LED-ALOS2290760600-191011-WWDR1.1__D', 'sar_imagery': [], 'sar_trailer': "
                         "'TRL-ALOS2290760600-191011-WWDR1.1__D'}, data={}), 'shapes': "
                         "Group(path='/summary/product_information/shapes', url='/eq3/no-imagery', attrs={'1': "
                         "(9196, 60568, )}, data={})}), 'label_information': "
                         "Group(path='/summary/label_information', url='/eq3/no-imagery', "
                         "attrs={'ObservationDate': '2019-10-11'}, data={})}), 'metadata': "
                         "Group(path='/metadata', url='/eq3/no-imagery', attrs={'leader': "
                         "'LED-ALOS2290760600-191011-WWDR1.1__D'}, data={'orbit': "
                         "Group(path='/metadata/orbit', url='/eq3/no-imagery', attrs={'a': 1}, data={'x': "
                         "Variable(['t'], [1, 2], {'u': 'm'})})}), 'imagery': Group(path='/imagery', "
                         "url='/eq3/no-imagery', attrs={}, data={})})",
             'events': ["('get_mapper', 'memory:///eq3/no-imagery', False, False, None, {}, )",
                        "('mapper.__getitem__', 'summary.txt', )",
                        "('open_volume_directory', 'mapper#0', 'VOL-ALOS2290760600-191011-WWDR1.1__D', )",
                        "('open_sar_leader', 'mapper#0', 'LED-ALOS2290760600-191011-WWDR1.1__D', )",
                        "('mapper.root', )",
                        "('mapper.root', )"]}
        ),
        'scansar': (
            {'returned': "Group(path='/', url='/eq3/scansar', attrs={'volume_id': 'vol', 'n': 1, "
                         "'reference_document': "
                         "'https://www.eorc.jaxa.jp/ALOS-2/en/doc/fdata/PALSAR-2_xx_Format_CEOS_E_f.pdf'}, "
                         "data={'summary': Group(path='/summary', url='/eq3/scansar', attrs={}, "
                         "data={'scene_specification': Group(path='/summary/scene_specification', "
                         "url='/eq3/scansar', attrs={'mission_name': 'ALOS2', 'orbit_accumulation': 29076, "
                         "'scene_frame': 600, 'date': '2019-10-11'}, data={}), 'product_specification': "
                         "Group(path='/summary/product_specification', url='/eq3/scansar', "
                         "attrs={'observation_mode': 'ScanSAR nominal 28MHz mode dual polarization', "
                         "'observation_direction': 'right looking', 'processing_level': 'level 1.1', "
                         "'processing_option': 'not specified', 'map_projection': 'not specified', "
                         "'orbit_direction': 'descending'}, data={}), 'product_information': "
                         "Group(path='/summary/product_information', url='/eq3/scansar', "
                         "attrs={'ProductFormat': 'CEOS'}, data={'data_files': "
                         "Group(path='/summary/product_information/data_files', url='/eq3/scansar', "
                         "attrs={'volume_directory': 'VOL-ALOS2290760600-191011-WWDR1.1__D', 'sar_leader': "
                         "'LED-ALOS2290760600-191011-WWDR1.1__D', 'sar_imagery': "
                         "['IMG-HH-ALOS2290760600-191011-WWDR1.1__D-F1', "
                         "'IMG-HH-ALOS2290760600-191011-WWDR1.1__D-F2', "
                         "'IMG-HH-ALOS2290760600-191011-WWDR1.1__D-F3', "
                         "'IMG-HH-ALOS2290760600-191011-WWDR1.1__D-F4', "
                         "'IMG-HH-ALOS2290760600-191011-WWDR1.1__D-F5', "
                         "'IMG-HV-ALOS2290760600-191011-WWDR1.1__D-F1', "
                         "'IMG-HV-ALOS2290760600-191011-WWDR1.1__D-F2', "
                         "'IMG-HV-ALOS2290760600-191011-WWDR1.1__D-F3', "
                         "'IMG-HV-ALOS2290760600-191011-WWDR1.1__D-F4', "
                         "'IMG-HV-ALOS2290760600-191011-WWDR1.1__D-F5'], 'sar_trailer': "
                         "'TRL-ALOS2290760600-191011-WWDR1.1__D'}, data={}), 'shapes': "
                         "Group(path='/summary/product_information/shapes', url='/eq3/scansar', attrs={'1': "
                         "(9196, 60568, )}, data={})}), 'label_information': "
                         "Group(path='/summary/label_information', url='/eq3/scansar', "
                         "attrs={'ObservationDate': '2019-10-11'}, data={})}), 'metadata': "
                         "Group(path='/metadata', url='/eq3/scansar', attrs={'leader': "
                         "'LED-ALOS2290760600-191011-WWDR1.1__D'}, data={'orbit': "
                         "Group(path='/metadata/orbit', url='/eq3/scansar', attrs={'a': 1}, data={'x': "
                         "Variable(['t'], [1, 2], {'u': 'm'})})}), 'imagery': Group(path='/imagery', "
                         "url='/eq3/scansar', attrs={}, data={'HH-F1': Group(path='/imagery/HH-F1', "
                         "url='/eq3/scansar', attrs={'file': 'IMG-HH-ALOS2290760600-191011-WWDR1.1__D-F1', "
                         "'rpc': 1024}, data={'data': Variable(['rows', 'columns'], [[1, 2]], {})}), 'HH-F2': "
                         "Group(path='/imagery/HH-F2', url='/eq3/scansar', attrs={'file': "
                         "'IMG-HH-ALOS2290760600-191011-WWDR1.1__D-F2', 'rpc': 1024}, data={'data': "
                         "Variable(['rows', 'columns'], [[1, 2]], {})}), 'HH-F3': Group(path='/imagery/HH-F3', "
                         "url='/eq3/scansar', attrs={'file': 'IMG-HH-ALOS2290760600-191011-WWDR1.1__D-F3', "
                         "'rpc': 1024}, data={'data': Variable(['rows', 'columns'], [[1, 2]], {})}), 'HH-F4': "
                         "Group(path='/imagery/HH-F4', url='/eq3/scansar', attrs={'file': "
                         "'IMG-HH-ALOS2290760600-191011-WWDR1.1__D-F4', 'rpc': 1024}, data={'data': "
                         "Variable(['rows', 'columns'], [[1, 2]], {})}), 'HH-F5': Group(path='/imagery/HH-F5', "
                         "url='/eq3/scansar', attrs={'file': 'IMG-HH-ALOS2290760600-191011-WWDR1.1__D-F5', "
                         "'rpc': 1024}, data={'data': Variable(['rows', 'columns'], [[1, 2]], {})}), 'HV-F1': "
                         "Group(path='/imagery/HV-F1', url='/eq3/scansar', attrs={'file': "
                         "'IMG-HV-ALOS2290760600-191011-WWDR1.1__D-F1', 'rpc': 1024}, data={'data': "
                         "Variable(['rows', 'columns'], [[1, 2]], {})}), 'HV-F2': Group(path='/imagery/HV-F2', "
                         "url='/eq3/scansar', attrs={'file': 'IMG-HV-ALOS2290760600-191011-WWDR1.1__D-F2', "
                         "'rpc': 1024}, data={'data': Variable(['rows', 'columns'], [[1, 2]], {})}), 'HV-F3': "
                         "Group(path='/imagery/HV-F3', url='/eq3/scansar', attrs={'file': "
                         "'IMG-HV-ALOS2290760600-191011-WWDR1.1__D-F3', 'rpc': 1024}, data={'data': "
                         "Variable(['rows', 'columns'], [[1, 2]], {})}), 'HV-F4': Group(path='/imagery/HV-F4', "
                         "url='/eq3/scansar', attrs={'file': 'IMG-HV-ALOS2290760600-191011-WWDR1.1__D-F4', "
                         "'rpc': 1024}, data={'data': Variable(['rows', 'columns'], [[1, 2]], {})}), 'HV-F5': "
                         "Group(path='/imagery/HV-F5', url='/eq3/scansar', attrs={'file': "
                         "'IMG-HV-ALOS2290760600-191011-WWDR1.1__D-F5', 'rpc': 1024}, data={'data': "
                         "Variable(['rows', 'columns'], [[1, 2]], {})})})})",
             'events': ["('get_mapper', 'memory:///eq3/scansar', False, False, None, {}, )",
                        "('mapper.__getitem__', 'summary.txt', )",
                        "('open_volume_directory', 'mapper#0', 'VOL-ALOS2290760600-191011-WWDR1.1__D', )",
                        "('open_sar_leader', 'mapper#0', 'LED-ALOS2290760600-191011-WWDR1.1__D', )",
                        "('open_image', 'mapper#0', 'IMG-HH-ALOS2290760600-191011-WWDR1.1__D-F1', "
                        "('use_cache', 'True', ), ('create_cache', 'False', ), ('records_per_chunk', '1024', "
                        '), )',
                        "('open_image', 'mapper#0', 'IMG-HH-ALOS2290760600-191011-WWDR1.1__D-F2', "
                        "('use_cache', 'True', ), ('create_cache', 'False', ), ('records_per_chunk', '1024', "
                        '), )',
                        "('open_image', 'mapper#0', 'IMG-HH-ALOS2290760600-191011-WWDR1.1__D-F3', "
                        "('use_cache', 'True', ), ('create_cache', 'False', ), ('records_per_chunk', '1024', "
                        '), )',
                        "('open_image', 'mapper#0', 'IMG-HH-ALOS2290760600-191011-WWDR1.1__D-F4', "
                        "('use_cache', 'True', ), ('create_cache', 'False', ), ('records_per_chunk', '1024', "
                        '), )',
                        "('open_image', 'mapper#0', 'IMG-HH-ALOS2290760600-191011-WWDR1.1__D-F5', "
                        "('use_cache', 'True', ), ('create_cache', 'False', ), ('records_per_chunk', '1024', "
                        '), )',
                        "('open_image', 'mapper#0', 'IMG-HV-ALOS2290760600-191011-WWDR1.1__D-F1', "
                        "('use_cache', 'True', ), ('create_cache', 'False', ), ('records_per_chunk', '1024', "
                        '), )',
                        "('open_image', 'mapper#0', 'IMG-HV-ALOS2290760600-191011-WWDR1.1__D-F2', "
                        "('use_cache', 'True', ), ('create_cache', 'False', ), ('records_per_chunk', '1024', "
                        '), )',
                        "('open_image', 'mapper#0', 'IMG-HV-ALOS2290760600-191011-WWDR1.1__D-F3', "
                        "('use_cache', 'True', ), ('create_cache', 'False', ), ('records_per_chunk', '1024', "
                        '), )',
                        "('open_image', 'mapper#0', 'IMG-HV-ALOS2290760600-191011-WWDR1.1__D-F4', "
                        "('use_cache', 'True', ), ('create_cache', 'False', ), ('records_per_chunk', '1024', "
                        '), )',
                        "('open_image', 'mapper#0', 'IMG-HV-ALOS2290760600-191011-WWDR1.1__D-F5', "
                        "('use_cache', 'True', ), ('create_cache', 'False', ), ('records_per_chunk', '1024', "
                        '), )',
                        "('mapper.root', )",
                        "('mapper.root', )"]}
        ),
        'duplicates': (
            {'returned': "Group(path='/', url='/eq3/duplicates', attrs={'volume_id': 'vol', 'n': 1, "
                         "'reference_document': "
                         "'https://www.eorc.jaxa.jp/ALOS-2/en/doc/fdata/PALSAR-2_xx_Format_CEOS_E_f.pdf'}, "
                         "data={'summary': Group(path='/summary', url='/eq3/duplicates', attrs={}, "
                         "data={'scene_specification': Group(path='/summary/scene_specification', "
                         "url='/eq3/duplicates', attrs={'mission_name': 'ALOS2', 'orbit_accumulation': 29076, "
                         "'scene_frame': 600, 'date': '2019-10-11'}, data={}), 'product_specification': "
                         "Group(path='/summary/product_specification', url='/eq3/duplicates', "
                         "attrs={'observation_mode': 'ScanSAR nominal 28MHz mode dual polarization', "
                         "'observation_direction': 'right looking', 'processing_level': 'level 1.1', "
                         "'processing_option': 'not specified', 'map_projection': 'not specified', "
                         "'orbit_direction': 'descending'}, data={}), 'product_information': "
                         "Group(path='/summary/product_information', url='/eq3/duplicates', "
                         "attrs={'ProductFormat': 'CEOS'}, data={'data_files': "
                         "Group(path='/summary/product_information/data_files', url='/eq3/duplicates', "
                         "attrs={'volume_directory': 'VOL-ALOS2290760600-191011-WWDR1.1__D', 'sar_leader': "
                         "'LED-ALOS2290760600-191011-WWDR1.1__D', 'sar_imagery': ['same', 'other', 'same'], "
                         "'sar_trailer': 'TRL-ALOS2290760600-191011-WWDR1.1__D'}, data={}), 'shapes': "
                         "Group(path='/summary/product_information/shapes', url='/eq3/duplicates', attrs={'1': "
                         "(9196, 60568, )}, data={})}), 'label_information': "
                         "Group(path='/summary/label_information', url='/eq3/duplicates', "
                         "attrs={'ObservationDate': '2019-10-11'}, data={})}), 'metadata': "
                         "Group(path='/metadata', url='/eq3/duplicates', attrs={'leader': "
                         "'LED-ALOS2290760600-191011-WWDR1.1__D'}, data={'orbit': "
                         "Group(path='/metadata/orbit', url='/eq3/duplicates', attrs={'a': 1}, data={'x': "
                         "Variable(['t'], [1, 2], {'u': 'm'})})}), 'imagery': Group(path='/imagery', "
                         "url='/eq3/duplicates', attrs={}, data={'same': Group(path='/imagery/same', "
                         "url='/eq3/duplicates', attrs={'file': 'same', 'rpc': 1024}, data={'data': "
                         "Variable(['rows', 'columns'], [[1, 2]], {})}), 'other': Group(path='/imagery/other', "
                         "url='/eq3/duplicates', attrs={'file': 'other', 'rpc': 1024}, data={'data': "
                         "Variable(['rows', 'columns'], [[1, 2]], {})})})})",
             'events': ["('get_mapper', 'memory:///eq3/duplicates', False, False, None, {}, )",
                        "('mapper.__getitem__', 'summary.txt', )",
                        "('open_volume_directory', 'mapper#0', 'VOL-ALOS2290760600-191011-WWDR1.1__D', )",
                        "('open_sar_leader', 'mapper#0', 'LED-ALOS2290760600-191011-WWDR1.1__D', )",
                        "('open_image', 'mapper#0', 'same', ('use_cache', 'True', ), ('create_cache', 'False', "
                        "), ('records_per_chunk', '1024', ), )",
                        "('open_image', 'mapper#0', 'other', ('use_cache', 'True', ), ('create_cache', "
                        "'False', ), ('records_per_chunk', '1024', ), )",
                        "('open_image', 'mapper#0', 'same', ('use_cache', 'True', ), ('create_cache', 'False', "
                        "), ('records_per_chunk', '1024', ), )",
                        "('mapper.root', )",
                        "('mapper.root', )"]}
        ),
        'too-few': (
            {'raised': "builtins.ValueError('not enough values to unpack (expected at least 3, got 2)',) "
                       'suppress_context=False cause=(None) context=(None)',
             'events': ["('get_mapper', 'memory:///eq3/too-few', False, False, None, {}, )",
                        "('mapper.__getitem__', 'summary.txt', )"]}
        ),
        'options:defaults': (
            {'returned': "Group(path='/', url='/eq3/options', attrs={'volume_id': 'vol', 'n': 1, "
                         "'reference_document': "
                         "'https://www.eorc.jaxa.jp/ALOS-2/en/doc/fdata/PALSAR-2_xx_Format_CEOS_E_f.pdf'}, "
                         "data={'summary': Group(path='/summary', url='/eq3/options', attrs={}, "
                         "data={'scene_specification': Group(path='/summary/scene_specification', "
                         "url='/eq3/options', attrs={'mission_name': 'ALOS2', 'orbit_accumulation': 29076, "
                         "'scene_frame': 600, 'date': '2019-10-11'}, data={}), 'product_specification': "
                         "Group(path='/summary/product_specification', url='/eq3/options', "
                         "attrs={'observation_mode': 'ScanSAR nominal 28MHz mode dual polarization', "
                         "'observation_direction': 'right looking', 'processing_level': 'level 1.1', "
                         "'processing_option': 'not specified', 'map_projection': 'not specified', "
                         "'orbit_direction': 'descending'}, data={}), 'product_information': "
                         "Group(path='/summary/product_information', url='/eq3/options', "
                         "attrs={'ProductFormat': 'CEOS'}, data={'data_files': "
                         "Group(path='/summary/product_information/data_files', url='/eq3/options', "
                         "attrs={'volume_directory': 'VOL-ALOS2290760600-191011-WWDR1.1__D', 'sar_leader': "
                         "'LED-ALOS2290760600-191011-WWDR1.1__D', 'sar_imagery': "
                         "['IMG-HH-ALOS2290760600-191011-WWDR1.1__D', "
                         "'IMG-HV-ALOS2290760600-191011-WWDR1.1__D'], 'sar_trailer': "
                         "'TRL-ALOS2290760600-191011-WWDR1.1__D'}, data={}), 'shapes': "
                         "Group(path='/summary/product_information/shapes', url='/eq3/options', attrs={'1': "
                         "(9196, 60568, )}, data={})}), 'label_information': "
                         "Group(path='/summary/label_information', url='/eq3/options', "
                         "attrs={'ObservationDate': '2019-10-11'}, data={})}), 'metadata': "
                         "Group(path='/metadata', url='/eq3/options', attrs={'leader': "
                         "'LED-ALOS2290760600-191011-WWDR1.1__D'}, data={'orbit': "
                         "Group(path='/metadata/orbit', url='/eq3/options', attrs={'a': 1}, data={'x': "
                         "Variable(['t'], [1, 2], {'u': 'm'})})}), 'imagery': Group(path='/imagery', "
                         "url='/eq3/options', attrs={}, data={'HH': Group(path='/imagery/HH', "
                         "url='/eq3/options', attrs={'file': 'IMG-HH-ALOS2290760600-191011-WWDR1.1__D', 'rpc': "
                         "1024}, data={'data': Variable(['rows', 'columns'], [[1, 2]], {})}), 'HV': "
                         "Group(path='/imagery/HV', url='/eq3/options', attrs={'file': "
                         "'IMG-HV-ALOS2290760600-191011-WWDR1.1__D', 'rpc': 1024}, data={'data': "
                         "Variable(['rows', 'columns'], [[1, 2]], {})})})})",
             'events': ["('get_mapper', 'memory:///eq3/options', False, False, None, {}, )",
                        "('mapper.__getitem__', 'summary.txt', )",
                        "('open_volume_directory', 'mapper#0', 'VOL-ALOS2290760600-191011-WWDR1.1__D', )",
                        "('open_sar_leader', 'mapper#0', 'LED-ALOS2290760600-191011-WWDR1.1__D', )",
                        "('open_image', 'mapper#0', 'IMG-HH-ALOS2290760600-191011-WWDR1.1__D', ('use_cache', "
                        "'True', ), ('create_cache', 'False', ), ('records_per_chunk', '1024', ), )",
                        "('open_image', 'mapper#0', 'IMG-HV-ALOS2290760600-191011-WWDR1.1__D', ('use_cache', "
                        "'True', ), ('create_cache', 'False', ), ('records_per_chunk', '1024', ), )",
                        "('mapper.root', )",
                        "('mapper.root', )"]}
        ),
        'options:create-cache': (
            {'returned': "Group(path='/', url='/eq3/options', attrs={'volume_id': 'vol', 'n': 1, "
                         "'reference_document': "
                         "'https://www.eorc.jaxa.jp/ALOS-2/en/doc/fdata/PALSAR-2_xx_Format_CEOS_E_f.pdf'}, "
                         "data={'summary': Group(path='/summary', url='/eq3/options', attrs={}, "
                         "data={'scene_specification': Group(path='/summary/scene_specification', "
                         "url='/eq3/options', attrs={'mission_name': 'ALOS2', 'orbit_accumulation': 29076, "
                         "'scene_frame': 600, 'date': '2019-10-11'}, data={}), 'product_specification': "
                         "Group(path='/summary/product_specification', url='/eq3/options', "
                         "attrs={'observation_mode': 'ScanSAR nominal 28MHz mode dual polarization', "
                         "'observation_direction': 'right looking', 'processing_level': 'level 1.1', "
                         "'processing_option': 'not specified', 'map_projection': 'not specified', "
                         "'orbit_direction': 'descending'}, data={}), 'product_information': "
                         "Group(path='/summary/product_information', url='/eq3/options', "
                         "attrs={'ProductFormat': 'CEOS'}, data={'data_files': "
                         "Group(path='/summary/product_information/data_files', url='/eq3/options', "
                         "attrs={'volume_directory': 'VOL-ALOS2290760600-191011-WWDR1.1__D', 'sar_leader': "
                         "'LED-ALOS2290760600-191011-WWDR1.1__D', 'sar_imagery': "
                         "['IMG-HH-ALOS2290760600-191011-WWDR1.1__D', "
                         "'IMG-HV-ALOS2290760600-191011-WWDR1.1__D'], 'sar_trailer': "
                         "'TRL-ALOS2290760600-191011-WWDR1.1__D'}, data={}), 'shapes': "
                         "Group(path='/summary/product_information/shapes', url='/eq3/options', attrs={'1': "
                         "(9196, 60568, )}, data={})}), 'label_information': "
                         "Group(path='/summary/label_information', url='/eq3/options', "
                         "attrs={'ObservationDate': '2019-10-11'}, data={})}), 'metadata': "
                         "Group(path='/metadata', url='/eq3/options', attrs={'leader': "
                         "'LED-ALOS2290760600-191011-WWDR1.1__D'}, data={'orbit': "
                         "Group(path='/metadata/orbit', url='/eq3/options', attrs={'a': 1}, data={'x': "
                         "Variable(['t'], [1, 2], {'u': 'm'})})}), 'imagery': Group(path='/imagery', "
                         "url='/eq3/options', attrs={}, data={'HH': Group(path='/imagery/HH', "
                         "url='/eq3/options', attrs={'file': 'IMG-HH-ALOS2290760600-191011-WWDR1.1__D', 'rpc': "
                         "1024}, data={'data': Variable(['rows', 'columns'], [[1, 2]], {})}), 'HV': "
                         "Group(path='/imagery/HV', url='/eq3/options', attrs={'file': "
                         "'IMG-HV-ALOS2290760600-191011-WWDR1.1__D', 'rpc': 1024}, data={'data': "
                         "Variable(['rows', 'columns'], [[1, 2]], {})})})})",
             'events': ["('get_mapper', 'memory:///eq3/options', False, False, None, {}, )",
                        "('mapper.__getitem__', 'summary.txt', )",
                        "('open_volume_directory', 'mapper#0', 'VOL-ALOS2290760600-191011-WWDR1.1__D', )",
                        "('open_sar_leader', 'mapper#0', 'LED-ALOS2290760600-191011-WWDR1.1__D', )",
                        "('open_image', 'mapper#0', 'IMG-HH-ALOS2290760600-191011-WWDR1.1__D', ('use_cache', "
                        "'True', ), ('create_cache', 'True', ), ('records_per_chunk', '1024', ), )",
                        "('open_image', 'mapper#0', 'IMG-HV-ALOS2290760600-191011-WWDR1.1__D', ('use_cache', "
                        "'True', ), ('create_cache', 'True', ), ('records_per_chunk', '1024', ), )",
                        "('mapper.root', )",
                        "('mapper.root', )"]}
        ),
        'options:no-cache': (
            {'returned': "Group(path='/', url='/eq3/options', attrs={'volume_id': 'vol', 'n': 1, "
                         "'reference_document': "
                         "'https://www.eorc.jaxa.jp/ALOS-2/en/doc/fdata/PALSAR-2_xx_Format_CEOS_E_f.pdf'}, "
                         "data={'summary': Group(path='/summary', url='/eq3/options', attrs={}, "
                         "data={'scene_specification': Group(path='/summary/scene_specification', "
                         "url='/eq3/options', attrs={'mission_name': 'ALOS2', 'orbit_accumulation': 29076, "
                         "'scene_frame': 600, 'date': '2019-10-11'}, data={}), 'product_specification': "
                         "Group(path='/summary/product_specification', url='/eq3/options', "
                         "attrs={'observation_mode': 'ScanSAR nominal 28MHz mode dual polarization', "
                         "'observation_direction': 'right looking', 'processing_level': 'level 1.1', "
                         "'processing_option': 'not specified', 'map_projection': 'not specified', "
                         "'orbit_direction': 'descending'}, data={}), 'product_information': "
                         "Group(path='/summary/product_information', url='/eq3/options', "
                         "attrs={'ProductFormat': 'CEOS'}, data={'data_files': "
                         "Group(path='/summary/product_information/data_files', url='/eq3/options', "
                         "attrs={'volume_directory': 'VOL-ALOS2290760600-191011-WWDR1.1__D', 'sar_leader': "
                         "'LED-ALOS2290760600-191011-WWDR1.1__D', 'sar_imagery': "
                         "['IMG-HH-ALOS2290760600-191011-WWDR1.1__D', "
                         "'IMG-HV-ALOS2290760600-191011-WWDR1.1__D'], 'sar_trailer': "
                         "'TRL-ALOS2290760600-191011-WWDR1.1__D'}, data={}), 'shapes': "
                         "Group(path='/summary/product_information/shapes', url='/eq3/options', attrs={'1': "
                         "(9196, 60568, )}, data={})}), 'label_information': "
                         "Group(path='/summary/label_information', url='/eq3/options', "
                         "attrs={'ObservationDate': '2019-10-11'}, data={})}), 'metadata': "
                         "Group(path='/metadata', url='/eq3/options', attrs={'leader': "
                         "'LED-ALOS2290760600-191011-WWDR1.1__D'}, data={'orbit': "
                         "Group(path='/metadata/orbit', url='/eq3/options', attrs={'a': 1}, data={'x': "
                         "Variable(['t'], [1, 2], {'u': 'm'})})}), 'imagery': Group(path='/imagery', "
                         "url='/eq3/options', attrs={}, data={'HH': Group(path='/imagery/HH', "
                         "url='/eq3/options', attrs={'file': 'IMG-HH-ALOS2290760600-191011-WWDR1.1__D', 'rpc': "
                         "1024}, data={'data': Variable(['rows', 'columns'], [[1, 2]], {})}), 'HV': "
                         "Group(path='/imagery/HV', url='/eq3/options', attrs={'file': "
                         "'IMG-HV-ALOS2290760600-191011-WWDR1.1__D', 'rpc': 1024}, data={'data': "
                         "Variable(['rows', 'columns'], [[1, 2]], {})})})})",
             'events': ["('get_mapper', 'memory:///eq3/options', False, False, None, {}, )",
                        "('mapper.__getitem__', 'summary.txt', )",
                        "('open_volume_directory', 'mapper#0', 'VOL-ALOS2290760600-191011-WWDR1.1__D', )",
                        "('open_sar_leader', 'mapper#0', 'LED-ALOS2290760600-191011-WWDR1.1__D', )",
                        "('open_image', 'mapper#0', 'IMG-HH-ALOS2290760600-191011-WWDR1.1__D', ('use_cache', "
                        "'False', ), ('create_cache', 'False', ), ('records_per_chunk', '1024', ), )",
                        "('open_image', 'mapper#0', 'IMG-HV-ALOS2290760600-191011-WWDR1.1__D', ('use_cache', "
                        "'False', ), ('create_cache', 'False', ), ('records_per_chunk', '1024', ), )",
                        "('mapper.root', )",
                        "('mapper.root', )"]}
        ),
        'options:rpc': (
            {'returned': "Group(path='/', url='/eq3/options', attrs={'volume_id': 'vol', 'n': 1, "
                         "'reference_document': "
                         "'https://www.eorc.jaxa.jp/ALOS-2/en/doc/fdata/PALSAR-2_xx_Format_CEOS_E_f.pdf'}, "
                         "data={'summary': Group(path='/summary', url='/eq3/options', attrs={}, "
                         "data={'scene_specification': Group(path='/summary/scene_specification', "
                         "url='/eq3/options', attrs={'mission_name': 'ALOS2', 'orbit_accumulation': 29076, "
                         "'scene_frame': 600, 'date': '2019-10-11'}, data={}), 'product_specification': "
                         "Group(path='/summary/product_specification', url='/eq3/options', "
                         "attrs={'observation_mode': 'ScanSAR nominal 28MHz mode dual polarization', "
                         "'observation_direction': 'right looking', 'processing_level': 'level 1.1', "
                         "'processing_option': 'not specified', 'map_projection': 'not specified', "
                         "'orbit_direction': 'descending'}, data={}), 'product_information': "
                         "Group(path='/summary/product_information', url='/eq3/options', "
                         "attrs={'ProductFormat': 'CEOS'}, data={'data_files': "
                         "Group(path='/summary/product_information/data_files', url='/eq3/options', "
                         "attrs={'volume_directory': 'VOL-ALOS2290760600-191011-WWDR1.1__D', 'sar_leader': "
                         "'LED-ALOS2290760600-191011-WWDR1.1__D', 'sar_imagery': "
                         "['IMG-HH-ALOS2290760600-191011-WWDR1.1__D', "
                         "'IMG-HV-ALOS2290760600-191011-WWDR1.1__D'], 'sar_trailer': "
                         "'TRL-ALOS2290760600-191011-WWDR1.1__D'}, data={}), 'shapes': "
                         "Group(path='/summary/product_information/shapes', url='/eq3/options', attrs={'1': "
                         "(9196, 60568, )}, data={})}), 'label_information': "
                         "Group(path='/summary/label_information', url='/eq3/options', "
                         "attrs={'ObservationDate': '2019-10-11'}, data={})}), 'metadata': "
                         "Group(path='/metadata', url='/eq3/options', attrs={'leader': "
                         "'LED-ALOS2290760600-191011-WWDR1.1__D'}, data={'orbit': "
                         "Group(path='/metadata/orbit', url='/eq3/options', attrs={'a': 1}, data={'x': "
                         "Variable(['t'], [1, 2], {'u': 'm'})})}), 'imagery': Group(path='/imagery', "
                         "url='/eq3/options', attrs={}, data={'HH': Group(path='/imagery/HH', "
                         "url='/eq3/options', attrs={'file': 'IMG-HH-ALOS2290760600-191011-WWDR1.1__D', 'rpc': "
                         "7}, data={'data': Variable(['rows', 'columns'], [[1, 2]], {})}), 'HV': "
                         "Group(path='/imagery/HV', url='/eq3/options', attrs={'file': "
                         "'IMG-HV-ALOS2290760600-191011-WWDR1.1__D', 'rpc': 7}, data={'data': "
                         "Variable(['rows', 'columns'], [[1, 2]], {})})})})",
             'events': ["('get_mapper', 'memory:///eq3/options', False, False, None, {}, )",
                        "('mapper.__getitem__', 'summary.txt', )",
                        "('open_volume_directory', 'mapper#0', 'VOL-ALOS2290760600-191011-WWDR1.1__D', )",
                        "('open_sar_leader', 'mapper#0', 'LED-ALOS2290760600-191011-WWDR1.1__D', )",
                        "('open_image', 'mapper#0', 'IMG-HH-ALOS2290760600-191011-WWDR1.1__D', ('use_cache', "
                        "'True', ), ('create_cache', 'False', ), ('records_per_chunk', '7', ), )",
                        "('open_image', 'mapper#0', 'IMG-HV-ALOS2290760600-191011-WWDR1.1__D', ('use_cache', "
                        "'True', ), ('create_cache', 'False', ), ('records_per_chunk', '7', ), )",
                        "('mapper.root', )",
                        "('mapper.root', )"]}
        ),
        'options:rpc-none': (
            {'returned': "Group(path='/', url='/eq3/options', attrs={'volume_id': 'vol', 'n': 1, "
                         "'reference_document': "
                         "'https://www.eorc.jaxa.jp/ALOS-2/en/doc/fdata/PALSAR-2_xx_Format_CEOS_E_f.pdf'}, "
                         "data={'summary': Group(path='/summary', url='/eq3/options', attrs={}, "
                         "data={'scene_specification': Group(path='/summary/scene_specification', "
                         "url='/eq3/options', attrs={'mission_name': 'ALOS2', 'orbit_accumulation': 29076, "
                         "'scene_frame': 600, 'date': '2019-10-11'}, data={}), 'product_specification': "
                         "Group(path='/summary/product_specification', url='/eq3/options', "
                         "attrs={'observation_mode': 'ScanSAR nominal 28MHz mode dual polarization', "
                         "'observation_direction': 'right looking', 'processing_level': 'level 1.1', "
                         "'processing_option': 'not specified', 'map_projection': 'not specified', "
                         "'orbit_direction': 'descending'}, data={}), 'product_information': "
                         "Group(path='/summary/product_information', url='/eq3/options', "
                         "attrs={'ProductFormat': 'CEOS'}, data={'data_files': "
                         "Group(path='/summary/product_information/data_files', url='/eq3/options', "
                         "attrs={'volume_directory': 'VOL-ALOS2290760600-191011-WWDR1.1__D', 'sar_leader': "
                         "'LED-ALOS2290760600-191011-WWDR1.1__D', 'sar_imagery': "
                         "['IMG-HH-ALOS2290760600-191011-WWDR1.1__D', "
                         "'IMG-HV-ALOS2290760600-191011-WWDR1.1__D'], 'sar_trailer': "
                         "'TRL-ALOS2290760600-191011-WWDR1.1__D'}, data={}), 'shapes': "
                         "Group(path='/summary/product_information/shapes', url='/eq3/options', attrs={'1': "
                         "(9196, 60568, )}, data={})}), 'label_information': "
                         "Group(path='/summary/label_information', url='/eq3/options', "
                         "attrs={'ObservationDate': '2019-10-11'}, data={})}), 'metadata': "
                         "Group(path='/metadata', url='/eq3/options', attrs={'leader': "
                         "'LED-ALOS2290760600-191011-WWDR1.1__D'}, data={'orbit': "
                         "Group(path='/metadata/orbit', url='/eq3/options', attrs={'a': 1}, data={'x': "
                         "Variable(['t'], [1, 2], {'u': 'm'})})}), 'imagery': Group(path='/imagery', "
                         "url='/eq3/options', attrs={}, data={'HH': Group(path='/imagery/HH', "
                         "url='/eq3/options', attrs={'file': 'IMG-HH-ALOS2290760600-191011-WWDR1.1__D', 'rpc': "
                         "None}, data={'data': Variable(['rows', 'columns'], [[1, 2]], {})}), 'HV': "
                         "Group(path='/imagery/HV', url='/eq3/options', attrs={'file': "
                         "'IMG-HV-ALOS2290760600-191011-WWDR1.1__D', 'rpc': None}, data={'data': "
                         "Variable(['rows', 'columns'], [[1, 2]], {})})})})",
             'events': ["('get_mapper', 'memory:///eq3/options', False, False, None, {}, )",
                        "('mapper.__getitem__', 'summary.txt', )",
                        "('open_volume_directory', 'mapper#0', 'VOL-ALOS2290760600-191011-WWDR1.1__D', )",
                        "('open_sar_leader', 'mapper#0', 'LED-ALOS2290760600-191011-WWDR1.1__D', )",
                        "('open_image', 'mapper#0', 'IMG-HH-ALOS2290760600-191011-WWDR1.1__D', ('use_cache', "
                        "'True', ), ('create_cache', 'False', ), ('records_per_chunk', 'None', ), )",
                        "('open_image', 'mapper#0', 'IMG-HV-ALOS2290760600-191011-WWDR1.1__D', ('use_cache', "
                        "'True', ), ('create_cache', 'False', ), ('records_per_chunk', 'None', ), )",
                        "('mapper.root', )",
                        "('mapper.root', )"]}
        ),
        'options:rpc-str': (
            {'returned': "Group(path='/', url='/eq3/options', attrs={'volume_id': 'vol', 'n': 1, "
                         "'reference_document': "
                         "'https://www.eorc.jaxa.jp/ALOS-2/en/doc/fdata/PALSAR-2_xx_Format_CEOS_E_f.pdf'}, "
                         "data={'summary': Group(path='/summary', url='/eq3/options', attrs={}, "
                         "data={'scene_specification': Group(path='/summary/scene_specification', "
                         "url='/eq3/options', attrs={'mission_name': 'ALOS2', 'orbit_accumulation': 29076, "
                         "'scene_frame': 600, 'date': '2019-10-11'}, data={}), 'product_specification': "
                         "Group(path='/summary/product_specification', url='/eq3/options', "
                         "attrs={'observation_mode': 'ScanSAR nominal 28MHz mode dual polarization', "
                         "'observation_direction': 'right looking', 'processing_level': 'level 1.1', "
                         "'processing_option': 'not specified', 'map_projection': 'not specified', "
                         "'orbit_direction': 'descending'}, data={}), 'product_information': "
                         "Group(path='/summary/product_information', url='/eq3/options', "
                         "attrs={'ProductFormat': 'CEOS'}, data={'data_files': "
                         "Group(path='/summary/product_information/data_files', url='/eq3/options', "
                         "attrs={'volume_directory': 'VOL-ALOS2290760600-191011-WWDR1.1__D', 'sar_leader': "
                         "'LED-ALOS2290760600-191011-WWDR1.1__D', 'sar_imagery': "
                         "['IMG-HH-ALOS2290760600-191011-WWDR1.1__D', "
                         "'IMG-HV-ALOS2290760600-191011-WWDR1.1__D'], 'sar_trailer': "
                         "'TRL-ALOS2290760600-191011-WWDR1.1__D'}, data={}), 'shapes': "
                         "Group(path='/summary/product_information/shapes', url='/eq3/options', attrs={'1': "
                         "(9196, 60568, )}, data={})}), 'label_information': "
                         "Group(path='/summary/label_information', url='/eq3/options', "
                         "attrs={'ObservationDate': '2019-10-11'}, data={})}), 'metadata': "
                         "Group(path='/metadata', url='/eq3/options', attrs={'leader': "
                         "'LED-ALOS2290760600-191011-WWDR1.1__D'}, data={'orbit': "
                         "Group(path='/metadata/orbit', url='/eq3/options', attrs={'a': 1}, data={'x': "
                         "Variable(['t'], [1, 2], {'u': 'm'})})}), 'imagery': Group(path='/imagery', "
                         "url='/eq3/options', attrs={}, data={'HH': Group(path='/imagery/HH', "
                         "url='/eq3/options', attrs={'file': 'IMG-HH-ALOS2290760600-191011-WWDR1.1__D', 'rpc': "
                         "'1MB'}, data={'data': Variable(['rows', 'columns'], [[1, 2]], {})}), 'HV': "
                         "Group(path='/imagery/HV', url='/eq3/options', attrs={'file': "
                         "'IMG-HV-ALOS2290760600-191011-WWDR1.1__D', 'rpc': '1MB'}, data={'data': "
                         "Variable(['rows', 'columns'], [[1, 2]], {})})})})",
             'events': ["('get_mapper', 'memory:///eq3/options', False, False, None, {}, )",
                        "('mapper.__getitem__', 'summary.txt', )",
                        "('open_volume_directory', 'mapper#0', 'VOL-ALOS2290760600-191011-WWDR1.1__D', )",
                        "('open_sar_leader', 'mapper#0', 'LED-ALOS2290760600-191011-WWDR1.1__D', )",
                        "('open_image', 'mapper#0', 'IMG-HH-ALOS2290760600-191011-WWDR1.1__D', ('use_cache', "
                        '\'True\', ), (\'create_cache\', \'False\', ), (\'records_per_chunk\', "\'1MB\'", ), )',
                        "('open_image', 'mapper#0', 'IMG-HV-ALOS2290760600-191011-WWDR1.1__D', ('use_cache', "
                        '\'True\', ), (\'create_cache\', \'False\', ), (\'records_per_chunk\', "\'1MB\'", ), )',
                        "('mapper.root', )",
                        "('mapper.root', )"]}
        ),
        'options:all': (
            {'returned': "Group(path='/', url='/eq3/options', attrs={'volume_id': 'vol', 'n': 1, "
                         "'reference_document': "
                         "'https://www.eorc.jaxa.jp/ALOS-2/en/doc/fdata/PALSAR-2_xx_Format_CEOS_E_f.pdf'}, "
                         "data={'summary': Group(path='/summary', url='/eq3/options', attrs={}, "
                         "data={'scene_specification': Group(path='/summary/scene_specification', "
                         "url='/eq3/options', attrs={'mission_name': 'ALOS2', 'orbit_accumulation': 29076, "
                         "'scene_frame': 600, 'date': '2019-10-11'}, data={}), 'product_specification': "
                         "Group(path='/summary/product_specification', url='/eq3/options', "
                         "attrs={'observation_mode': 'ScanSAR nominal 28MHz mode dual polarization', "
                         "'observation_direction': 'right looking', 'processing_level': 'level 1.1', "
                         "'processing_option': 'not specified', 'map_projection': 'not specified', "
                         "'orbit_direction': 'descending'}, data={}), 'product_information': "
                         "Group(path='/summary/product_information', url='/eq3/options', "
                         "attrs={'ProductFormat': 'CEOS'}, data={'data_files': "
                         "Group(path='/summary/product_information/data_files', url='/eq3/options', "
                         "attrs={'volume_directory': 'VOL-ALOS2290760600-191011-WWDR1.1__D', 'sar_leader': "
                         "'LED-ALOS2290760600-191011-WWDR1.1__D', 'sar_imagery': "
                         "['IMG-HH-ALOS2290760600-191011-WWDR1.1__D', "
                         "'IMG-HV-ALOS2290760600-191011-WWDR1.1__D'], 'sar_trailer': "
                         "'TRL-ALOS2290760600-191011-WWDR1.1__D'}, data={}), 'shapes': "
                         "Group(path='/summary/product_information/shapes', url='/eq3/options', attrs={'1': "
                         "(9196, 60568, )}, data={})}), 'label_information': "
                         "Group(path='/summary/label_information', url='/eq3/options', "
                         "attrs={'ObservationDate': '2019-10-11'}, data={})}), 'metadata': "
                         "Group(path='/metadata', url='/eq3/options', attrs={'leader': "
                         "'LED-ALOS2290760600-191011-WWDR1.1__D'}, data={'orbit': "
                         "Group(path='/metadata/orbit', url='/eq3/options', attrs={'a': 1}, data={'x': "
                         "Variable(['t'], [1, 2], {'u': 'm'})})}), 'imagery': Group(path='/imagery', "
                         "url='/eq3/options', attrs={}, data={'HH': Group(path='/imagery/HH', "
                         "url='/eq3/options', attrs={'file': 'IMG-HH-ALOS2290760600-191011-WWDR1.1__D', 'rpc': "
                         "2.5}, data={'data': Variable(['rows', 'columns'], [[1, 2]], {})}), 'HV': "
                         "Group(path='/imagery/HV', url='/eq3/options', attrs={'file': "
                         "'IMG-HV-ALOS2290760600-191011-WWDR1.1__D', 'rpc': 2.5}, data={'data': "
                         "Variable(['rows', 'columns'], [[1, 2]], {})})})})",
             'events': ["('get_mapper', 'memory:///eq3/options', False, False, None, {}, )",
                        "('mapper.__getitem__', 'summary.txt', )",
                        "('open_volume_directory', 'mapper#0', 'VOL-ALOS2290760600-191011-WWDR1.1__D', )",
                        "('open_sar_leader', 'mapper#0', 'LED-ALOS2290760600-191011-WWDR1.1__D', )",
                        "('open_image', 'mapper#0', 'IMG-HH-ALOS2290760600-191011-WWDR1.1__D', ('use_cache', "
                        "'0', ), ('create_cache', '1', ), ('records_per_chunk', '2.5', ), )",
                        "('open_image', 'mapper#0', 'IMG-HV-ALOS2290760600-191011-WWDR1.1__D', ('use_cache', "
                        "'0', ), ('create_cache', '1', ), ('records_per_chunk', '2.5', ), )",
                        "('mapper.root', )",
                        "('mapper.root', )"]}
        ),
        'options:storage-options-empty': (
            {'returned': "Group(path='/', url='/eq3/options', attrs={'volume_id': 'vol', 'n': 1, "
                         "'reference_document': "
                         "'https://www.eorc.jaxa.jp/ALOS-2/en/doc/fdata/PALSAR-2_xx_Format_CEOS_E_f.pdf'}, "
                         "data={'summary': Group(path='/summary', url='/eq3/options', attrs={}, "
                         "data={'scene_specification': Group(path='/summary/scene_specification', "
                         "url='/eq3/options', attrs={'mission_name': 'ALOS2', 'orbit_accumulation': 29076, "
                         "'scene_frame': 600, 'date': '2019-10-11'}, data={}), 'product_specification': "
                         "Group(path='/summary/product_specification', url='/eq3/options', "
                         "attrs={'observation_mode': 'ScanSAR nominal 28MHz mode dual polarization', "
                         "'observation_direction': 'right looking', 'processing_level': 'level 1.1', "
                         "'processing_option': 'not specified', 'map_projection': 'not specified', "
                         "'orbit_direction': 'descending'}, data={}), 'product_information': "
                         "Group(path='/summary/product_information', url='/eq3/options', "
                         "attrs={'ProductFormat': 'CEOS'}, data={'data_files': "
                         "Group(path='/summary/product_information/data_files', url='/eq3/options', "
                         "attrs={'volume_directory': 'VOL-ALOS2290760600-191011-WWDR1.1__D', 'sar_leader': "
                         "'LED-ALOS2290760600-191011-WWDR1.1__D', 'sar_imagery': "
                         "['IMG-HH-ALOS2290760600-191011-WWDR1.1__D', "
                         "'IMG-HV-ALOS2290760600-191011-WWDR1.1__D'], 'sar_trailer': "
                         "'TRL-ALOS2290760600-191011-WWDR1.1__D'}, data={}), 'shapes': "
                         "Group(path='/summary/product_information/shapes', url='/eq3/options', attrs={'1': "
                         "(9196, 60568, )}, data={})}), 'label_information': "
                         "Group(path='/summary/label_information', url='/eq3/options', "
                         "attrs={'ObservationDate': '2019-10-11'}, data={})}), 'metadata': "
                         "Group(path='/metadata', url='/eq3/options', attrs={'leader': "
                         "'LED-ALOS2290760600-191011-WWDR1.1__D'}, data={'orbit': "
                         "Group(path='/metadata/orbit', url='/eq3/options', attrs={'a': 1}, data={'x': "
                         "Variable(['t'], [1, 2], {'u': 'm'})})}), 'imagery': Group(path='/imagery', "
                         "url='/eq3/options', attrs={}, data={'HH': Group(path='/imagery/HH', "
                         "url='/eq3/options', attrs={'file': 'IMG-HH-ALOS2290760600-191011-WWDR1.1__D', 'rpc': "
                         "1024}, data={'data': Variable(['rows', 'columns'], [[1, 2]], {})}), 'HV': "
                         "Group(path='/imagery/HV', url='/eq3/options', attrs={'file': "
                         "'IMG-HV-ALOS2290760600-191011-WWDR1.1__D', 'rpc': 1024}, data={'data': "
                         "Variable(['rows', 'columns'], [[1, 2]], {})})})})",
             'events': ["('get_mapper', 'memory:///eq3/options', False, False, None, {}, )",
                        "('mapper.__getitem__', 'summary.txt', )",
                        "('open_volume_directory', 'mapper#0', 'VOL-ALOS2290760600-191011-WWDR1.1__D', )",
                        "('open_sar_leader', 'mapper#0', 'LED-ALOS2290760600-191011-WWDR1.1__D', )",
                        "('open_image', 'mapper#0', 'IMG-HH-ALOS2290760600-191011-WWDR1.1__D', ('use_cache', "
                        "'True', ), ('create_cache', 'False', ), ('records_per_chunk', '1024', ), )",
                        "('open_image', 'mapper#0', 'IMG-HV-ALOS2290760600-191011-WWDR1.1__D', ('use_cache', "
                        "'True', ), ('create_cache', 'False', ), ('records_per_chunk', '1024', ), )",
                        "('mapper.root', )",
                        "('mapper.root', )"]}
        ),
        'options:storage-options-unknown': (
            {'returned': "Group(path='/', url='/eq3/options', attrs={'volume_id': 'vol', 'n': 1, "
                         "'reference_document': "
                         "'https://www.eorc.jaxa.jp/ALOS-2/en/doc/fdata/PALSAR-2_xx_Format_CEOS_E_f.pdf'}, "
                         "data={'summary': Group(path='/summary', url='/eq3/options', attrs={}, "
                         "data={'scene_specification': Group(path='/summary/scene_specification', "
                         "url='/eq3/options', attrs={'mission_name': 'ALOS2', 'orbit_accumulation': 29076, "
                         "'scene_frame': 600, 'date': '2019-10-11'}, data={}), 'product_specification': "
                         "Group(path='/summary/product_specification', url='/eq3/options', "
                         "attrs={'observation_mode': 'ScanSAR nominal 28MHz mode dual polarization', "
                         "'observation_direction': 'right looking', 'processing_level': 'level 1.1', "
                         "'processing_option': 'not specified', 'map_projection': 'not specified', "
                         "'orbit_direction': 'descending'}, data={}), 'product_information': "
                         "Group(path='/summary/product_information', url='/eq3/options', "
                         "attrs={'ProductFormat': 'CEOS'}, data={'data_files': "
                         "Group(path='/summary/product_information/data_files', url='/eq3/options', "
                         "attrs={'volume_directory': 'VOL-ALOS2290760600-191011-WWDR1.1__D', 'sar_leader': "
                         "'LED-ALOS2290760600-191011-WWDR1.1__D', 'sar_imagery': "
                         "['IMG-HH-ALOS2290760600-191011-WWDR1.1__D', "
                         "'IMG-HV-ALOS2290760600-191011-WWDR1.1__D'], 'sar_trailer': "
                         "'TRL-ALOS2290760600-191011-WWDR1.1__D'}, data={}), 'shapes': "
                         "Group(path='/summary/product_information/shapes', url='/eq3/options', attrs={'1': "
                         "(9196, 60568, )}, data={})}), 'label_information': "
                         "Group(path='/summary/label_information', url='/eq3/options', "
                         "attrs={'ObservationDate': '2019-10-11'}, data={})}), 'metadata': "
                         "Group(path='/metadata', url='/eq3/options', attrs={'leader': "
                         "'LED-ALOS2290760600-191011-WWDR1.1__D'}, data={'orbit': "
                         "Group(path='/metadata/orbit', url='/eq3/options', attrs={'a': 1}, data={'x': "
                         "Variable(['t'], [1, 2], {'u': 'm'})})}), 'imagery': Group(path='/imagery', "
                         "url='/eq3/options', attrs={}, data={'HH': Group(path='/imagery/HH', "
                         "url='/eq3/options', attrs={'file': 'IMG-HH-ALOS2290760600-191011-WWDR1.1__D', 'rpc': "
                         "1024}, data={'data': Variable(['rows', 'columns'], [[1, 2]], {})}), 'HV': "
                         "Group(path='/imagery/HV', url='/eq3/options', attrs={'file': "
                         "'IMG-HV-ALOS2290760600-191011-WWDR1.1__D', 'rpc': 1024}, data={'data': "
                         "Variable(['rows', 'columns'], [[1, 2]], {})})})})",
             'events': ["('get_mapper', 'memory:///eq3/options', False, False, None, {'some_option': 1}, )",
                        "('mapper.__getitem__', 'summary.txt', )",
                        "('open_volume_directory', 'mapper#0', 'VOL-ALOS2290760600-191011-WWDR1.1__D', )",
                        "('open_sar_leader', 'mapper#0', 'LED-ALOS2290760600-191011-WWDR1.1__D', )",
                        "('open_image', 'mapper#0', 'IMG-HH-ALOS2290760600-191011-WWDR1.1__D', ('use_cache', "
                        "'True', ), ('create_cache', 'False', ), ('records_per_chunk', '1024', ), )",
                        "('open_image', 'mapper#0', 'IMG-HV-ALOS2290760600-191011-WWDR1.1__D', ('use_cache', "
                        "'True', ), ('create_cache', 'False', ), ('records_per_chunk', '1024', ), )",
                        "('mapper.root', )",
                        "('mapper.root', )"]}
        ),
        'options:storage-options-none': (
            {'raised': "builtins.TypeError('local.Harness.get_mapper() argument after ** must be a mapping, "
                       "not NoneType',) suppress_context=False cause=(None) context=(None)",
             'events': []}
        ),
        'options:unknown-keyword': (
            {'raised': 'builtins.TypeError("open() got an unexpected keyword argument \'chunks\'",) '
                       'suppress_context=False cause=(None) context=(None)',
             'events': []}
        ),
        'positional-options': (
            {'raised': "builtins.TypeError('open() takes 1 positional argument but 2 were given',) "
                       'suppress_context=False cause=(None) context=(None)',
             'events': []}
        ),
        'no-arguments': (
            {'raised': 'builtins.TypeError("open() missing 1 required positional argument: \'path\'",) '
                       'suppress_context=False cause=(None) context=(None)',
             'events': []}
        ),
        'path-keyword': (
            {'returned': "Group(path='/', url='/eq3/options', attrs={'volume_id': 'vol', 'n': 1, "
                         "'reference_document': "
                         "'https://www.eorc.jaxa.jp/ALOS-2/en/doc/fdata/PALSAR-2_xx_Format_CEOS_E_f.pdf'}, "
                         "data={'summary': Group(path='/summary', url='/eq3/options', attrs={}, "
                         "data={'scene_specification': Group(path='/summary/scene_specification', "
                         "url='/eq3/options', attrs={'mission_name': 'ALOS2', 'orbit_accumulation': 29076, "
                         "'scene_frame': 600, 'date': '2019-10-11'}, data={}), 'product_specification': "
                         "Group(path='/summary/product_specification', url='/eq3/options', "
                         "attrs={'observation_mode': 'ScanSAR nominal 28MHz mode dual polarization', "
                         "'observation_direction': 'right looking', 'processing_level': 'level 1.1', "
                         "'processing_option': 'not specified', 'map_projection': 'not specified', "
                         "'orbit_direction': 'descending'}, data={}), 'product_information': "
                         "Group(path='/summary/product_information', url='/eq3/options', "
                         "attrs={'ProductFormat': 'CEOS'}, data={'data_files': "
                         "Group(path='/summary/product_information/data_files', url='/eq3/options', "
                         "attrs={'volume_directory': 'VOL-ALOS2290760600-191011-WWDR1.1__D', 'sar_leader': "
                         "'LED-ALOS2290760600-191011-WWDR1.1__D', 'sar_imagery': "
                         "['IMG-HH-ALOS2290760600-191011-WWDR1.1__D', "
                         "'IMG-HV-ALOS2290760600-191011-WWDR1.1__D'], 'sar_trailer': "
                         "'TRL-ALOS2290760600-191011-WWDR1.1__D'}, data={}), 'shapes': "
                         "Group(path='/summary/product_information/shapes', url='/eq3/options', attrs={'1': "
                         "(9196, 60568, )}, data={})}), 'label_information': "
                         "Group(path='/summary/label_information', url='/eq3/options', "
                         "attrs={'ObservationDate': '2019-10-11'}, data={})}), 'metadata': "
                         "Group(path='/metadata', url='/eq3/options', attrs={'leader': "
                         "'LED-ALOS2290760600-191011-WWDR1.1__D'}, data={'orbit': "
                         "Group(path='/metadata/orbit', url='/eq3/options', attrs={'a': 1}, data={'x': "
                         "Variable(['t'], [1, 2], {'u': 'm'})})}), 'imagery': Group(path='/imagery', "
                         "url='/eq3/options', attrs={}, data={'HH': Group(path='/imagery/HH', "
                         "url='/eq3/options', attrs={'file': 'IMG-HH-ALOS2290760600-191011-WWDR1.1__D', 'rpc': "
                         "1024}, data={'data': Variable(['rows', 'columns'], [[1, 2]], {})}), 'HV': "
                         "Group(path='/imagery/HV', url='/eq3/options', attrs={'file': "
                         "'IMG-HV-ALOS2290760600-191011-WWDR1.1__D', 'rpc': 1024}, data={'data': "
                         "Variable(['rows', 'columns'], [[1, 2]], {})})})})",
             'events': ["('get_mapper', 'memory:///eq3/options', False, False, None, {}, )",
                        "('mapper.__getitem__', 'summary.txt', )",
                        "('open_volume_directory', 'mapper#0', 'VOL-ALOS2290760600-191011-WWDR1.1__D', )",
                        "('open_sar_leader', 'mapper#0', 'LED-ALOS2290760600-191011-WWDR1.1__D', )",
                        "('open_image', 'mapper#0', 'IMG-HH-ALOS2290760600-191011-WWDR1.1__D', ('use_cache', "
                        "'True', ), ('create_cache', 'False', ), ('records_per_chunk', '1024', ), )",
                        "('open_image', 'mapper#0', 'IMG-HV-ALOS2290760600-191011-WWDR1.1__D', ('use_cache', "
                        "'True', ), ('create_cache', 'False', ), ('records_per_chunk', '1024', ), )",
                        "('mapper.root', )",
                        "('mapper.root', )"]}
        ),
        'missing-product': (
            {'raised': "builtins.OSError('Cannot find the summary file (`summary.txt`). Make sure the dataset "
                       "at /eq3/does-not-exist is complete and in the JAXA CEOS format.',) errno=None "
                       "filename=None suppress_context=True cause=(builtins.KeyError('summary.txt',) "
                       'suppress_context=True '
                       "cause=(builtins.FileNotFoundError('/eq3/does-not-exist/summary.txt',) errno=None "
                       'filename=None suppress_context=True '
                       "cause=(builtins.KeyError('/eq3/does-not-exist/summary.txt',) suppress_context=False "
                       'cause=(None) context=(None)) '
                       "context=(builtins.KeyError('/eq3/does-not-exist/summary.txt',) suppress_context=False "
                       'cause=(None) context=(None))) '
                       "context=(builtins.FileNotFoundError('/eq3/does-not-exist/summary.txt',) errno=None "
                       'filename=None suppress_context=True '
                       "cause=(builtins.KeyError('/eq3/does-not-exist/summary.txt',) suppress_context=False "
                       'cause=(None) context=(None)) '
                       "context=(builtins.KeyError('/eq3/does-not-exist/summary.txt',) suppress_context=False "
                       "cause=(None) context=(None)))) context=(builtins.KeyError('summary.txt',) "
                       'suppress_context=True '
                       "cause=(builtins.FileNotFoundError('/eq3/does-not-exist/summary.txt',) errno=None "
                       'filename=None suppress_context=True '
                       "cause=(builtins.KeyError('/eq3/does-not-exist/summary.txt',) suppress_context=False "
                       'cause=(None) context=(None)) '
                       "context=(builtins.KeyError('/eq3/does-not-exist/summary.txt',) suppress_context=False "
                       'cause=(None) context=(None))) '
                       "context=(builtins.FileNotFoundError('/eq3/does-not-exist/summary.txt',) errno=None "
                       'filename=None suppress_context=True '
                       "cause=(builtins.KeyError('/eq3/does-not-exist/summary.txt',) suppress_context=False "
                       'cause=(None) context=(None)) '
                       "context=(builtins.KeyError('/eq3/does-not-exist/summary.txt',) suppress_context=False "
                       'cause=(None) context=(None))))',
             'events': ["('get_mapper', 'memory:///eq3/does-not-exist', False, False, None, {}, )",
                        "('mapper.__getitem__', 'summary.txt', )",
                        "('mapper.root', )"]}
        ),
        'plain-path': (
            {'raised': "builtins.OSError('Cannot find the summary file (`summary.txt`). Make sure the dataset "
                       "at /eq3/does-not-exist-either is complete and in the JAXA CEOS format.',) errno=None "
                       "filename=None suppress_context=True cause=(builtins.KeyError('summary.txt',) "
                       "suppress_context=True cause=(builtins.FileNotFoundError(2, 'No such file or "
                       "directory') errno=2 filename='/eq3/does-not-exist-either/summary.txt' "
                       'suppress_context=False cause=(None) context=(None)) '
                       "context=(builtins.FileNotFoundError(2, 'No such file or directory') errno=2 "
                       "filename='/eq3/does-not-exist-either/summary.txt' suppress_context=False cause=(None) "
                       "context=(None))) context=(builtins.KeyError('summary.txt',) suppress_context=True "
                       "cause=(builtins.FileNotFoundError(2, 'No such file or directory') errno=2 "
                       "filename='/eq3/does-not-exist-either/summary.txt' suppress_context=False cause=(None) "
                       "context=(None)) context=(builtins.FileNotFoundError(2, 'No such file or directory') "
                       "errno=2 filename='/eq3/does-not-exist-either/summary.txt' suppress_context=False "
                       'cause=(None) context=(None)))',
             'events': ["('get_mapper', '/eq3/does-not-exist-either/', False, False, None, {}, )",
                        "('mapper.__getitem__', 'summary.txt', )",
                        "('mapper.root', )"]}
        ),
        'trailing-slash': (
            {'returned': "Group(path='/', url='/eq3/options', attrs={'volume_id': 'vol', 'n': 1, "
                         "'reference_document': "
                         "'https://www.eorc.jaxa.jp/ALOS-2/en/doc/fdata/PALSAR-2_xx_Format_CEOS_E_f.pdf'}, "
                         "data={'summary': Group(path='/summary', url='/eq3/options', attrs={}, "
                         "data={'scene_specification': Group(path='/summary/scene_specification', "
                         "url='/eq3/options', attrs={'mission_name': 'ALOS2', 'orbit_accumulation': 29076, "
                         "'scene_frame': 600, 'date': '2019-10-11'}, data={}), 'product_specification': "
                         "Group(path='/summary/product_specification', url='/eq3/options', "
                         "attrs={'observation_mode': 'ScanSAR nominal 28MHz mode dual polarization', "
                         "'observation_direction': 'right looking', 'processing_level': 'level 1.1', "
                         "'processing_option': 'not specified', 'map_projection': 'not specified', "
                         "'orbit_direction': 'descending'}, data={}), 'product_information': "
                         "Group(path='/summary/product_information', url='/eq3/options', "
                         "attrs={'ProductFormat': 'CEOS'}, data={'data_files': "
                         "Group(path='/summary/product_information/data_files', url='/eq3/options', "
                         "attrs={'volume_directory': 'VOL-ALOS2290760600-191011-WWDR1.1__D', 'sar_leader': "
                         "'LED-ALOS2290760600-191011-WWDR1.1__D', 'sar_imagery': "
                         "['IMG-HH-ALOS2290760600-191011-WWDR1.1__D', "
                         "'IMG-HV-ALOS2290760600-191011-WWDR1.1__D'], 'sar_trailer': "
                         "'TRL-ALOS2290760600-191011-WWDR1.1__D'}, data={}), 'shapes': "
                         "Group(path='/summary/product_information/shapes', url='/eq3/options', attrs={'1': "
                         "(9196, 60568, )}, data={})}), 'label_information': "
                         "Group(path='/summary/label_information', url='/eq3/options', "
                         "attrs={'ObservationDate': '2019-10-11'}, data={})}), 'metadata': "
                         "Group(path='/metadata', url='/eq3/options', attrs={'leader': "
                         "'LED-ALOS2290760600-191011-WWDR1.1__D'}, data={'orbit': "
                         "Group(path='/metadata/orbit', url='/eq3/options', attrs={'a': 1}, data={'x': "
                         "Variable(['t'], [1, 2], {'u': 'm'})})}), 'imagery': Group(path='/imagery', "
                         "url='/eq3/options', attrs={}, data={'HH': Group(path='/imagery/HH', "
                         "url='/eq3/options', attrs={'file': 'IMG-HH-ALOS2290760600-191011-WWDR1.1__D', 'rpc': "
                         "1024}, data={'data': Variable(['rows', 'columns'], [[1, 2]], {})}), 'HV': "
                         "Group(path='/imagery/HV', url='/eq3/options', attrs={'file': "
                         "'IMG-HV-ALOS2290760600-191011-WWDR1.1__D', 'rpc': 1024}, data={'data': "
                         "Variable(['rows', 'columns'], [[1, 2]], {})})})})",
             'events': ["('get_mapper', 'memory:///eq3/options/', False, False, None, {}, )",
                        "('mapper.__getitem__', 'summary.txt', )",
                        "('open_volume_directory', 'mapper#0', 'VOL-ALOS2290760600-191011-WWDR1.1__D', )",
                        "('open_sar_leader', 'mapper#0', 'LED-ALOS2290760600-191011-WWDR1.1__D', )",
                        "('open_image', 'mapper#0', 'IMG-HH-ALOS2290760600-191011-WWDR1.1__D', ('use_cache', "
                        "'True', ), ('create_cache', 'False', ), ('records_per_chunk', '1024', ), )",
                        "('open_image', 'mapper#0', 'IMG-HV-ALOS2290760600-191011-WWDR1.1__D', ('use_cache', "
                        "'True', ), ('create_cache', 'False', ), ('records_per_chunk', '1024', ), )",
                        "('mapper.root', )",
                        "('mapper.root', )"]}
        ),
        'signature': (
            '(path, *, storage_options={}, create_cache=False, use_cache=True, records_per_chunk=1024)'
        ),
        'default-storage-options': (
            '{}'
        ),
    },
    'failures': {
        'get_mapper:os-error': (
            {'raised': "builtins.OSError('boom',) errno=None filename=None suppress_context=False cause=(None) "
                       'context=(None)',
             'events': ["('get_mapper', 'memory:///eq3/failures', False, False, None, {}, )"]}
        ),
        'get_mapper:type-error': (
            {'raised': "builtins.TypeError('wrong type',) suppress_context=False cause=(None) context=(None)",
             'events': ["('get_mapper', 'memory:///eq3/failures', False, False, None, {}, )"]}
        ),
        'get_mapper:key-error': (
            {'raised': "builtins.KeyError('missing',) suppress_context=False cause=(None) context=(None)",
             'events': ["('get_mapper', 'memory:///eq3/failures', False, False, None, {}, )"]}
        ),
        'get_mapper:stop-iteration': (
            {'raised': "builtins.StopIteration('stop',) suppress_context=False cause=(None) context=(None)",
             'events': ["('get_mapper', 'memory:///eq3/failures', False, False, None, {}, )"]}
        ),
        'get_mapper:keyboard-interrupt': (
            {'raised': 'builtins.KeyboardInterrupt() suppress_context=False cause=(None) context=(None)',
             'events': ["('get_mapper', 'memory:///eq3/failures', False, False, None, {}, )"]}
        ),
        'open_summary:os-error': (
            {'raised': "builtins.OSError('boom',) errno=None filename=None suppress_context=False cause=(None) "
                       'context=(None)',
             'events': ["('get_mapper', 'memory:///eq3/failures', False, False, None, {}, )",
                        "('open_summary', 'mapper#0', 'summary.txt', )"]}
        ),
        'open_summary:type-error': (
            {'raised': "builtins.TypeError('wrong type',) suppress_context=False cause=(None) context=(None)",
             'events': ["('get_mapper', 'memory:///eq3/failures', False, False, None, {}, )",
                        "('open_summary', 'mapper#0', 'summary.txt', )"]}
        ),
        'open_summary:key-error': (
            {'raised': "builtins.KeyError('missing',) suppress_context=False cause=(None) context=(None)",
             'events': ["('get_mapper', 'memory:///eq3/failures', False, False, None, {}, )",
                        "('open_summary', 'mapper#0', 'summary.txt', )"]}
        ),
        'open_summary:stop-iteration': (
            {'raised': "builtins.StopIteration('stop',) suppress_context=False cause=(None) context=(None)",
             'events': ["('get_mapper', 'memory:///eq3/failures', False, False, None, {}, )",
                        "('open_summary', 'mapper#0', 'summary.txt', )"]}
        ),
        'open_summary:keyboard-interrupt': (
            {'raised': 'builtins.KeyboardInterrupt() suppress_context=False cause=(None) context=(None)',
             'events': ["('get_mapper', 'memory:///eq3/failures', False, False, None, {}, )",
                        "('open_summary', 'mapper#0', 'summary.txt', )"]}
        ),
        'open_volume_directory:os-error': (
            {'raised': "builtins.OSError('boom',) errno=None filename=None suppress_context=False cause=(None) "
                       'context=(None)',
             'events': ["('get_mapper', 'memory:///eq3/failures', False, False, None, {}, )",
                        "('mapper.__getitem__', 'summary.txt', )",
                        "('open_volume_directory', 'mapper#0', 'VOL-ALOS2290760600-191011-WWDR1.1__D', )"]}
        ),
        'open_volume_directory:type-error': (
            {'raised': "builtins.TypeError('wrong type',) suppress_context=False cause=(None) context=(None)",
             'events': ["('get_mapper', 'memory:///eq3/failures', False, False, None, {}, )",
                        "('mapper.__getitem__', 'summary.txt', )",
                        "('open_volume_directory', 'mapper#0', 'VOL-ALOS2290760600-191011-WWDR1.1__D', )"]}
        ),
        'open_volume_directory:key-error': (
            {'raised': "builtins.KeyError('missing',) suppress_context=False cause=(None) context=(None)",
             'events': ["('get_mapper', 'memory:///eq3/failures', False, False, None, {}, )",
                        "('mapper.__getitem__', 'summary.txt', )",
                        "('open_volume_directory', 'mapper#0', 'VOL-ALOS2290760600-191011-WWDR1.1__D', )"]}
        ),
        'open_volume_directory:stop-iteration': (
            {'raised': "builtins.StopIteration('stop',) suppress_context=False cause=(None) context=(None)",
             'events': ["('get_mapper', 'memory:///eq3/failures', False, False, None, {}, )",
                        "('mapper.__getitem__', 'summary.txt', )",
                        "('open_volume_directory', 'mapper#0', 'VOL-ALOS2290760600-191011-WWDR1.1__D', )"]}
        ),
        'open_volume_directory:keyboard-interrupt': (
            {'raised': 'builtins.KeyboardInterrupt() suppress_context=False cause=(None) context=(None)',
             'events': ["('get_mapper', 'memory:///eq3/failures', False, False, None, {}, )",
                        "('mapper.__getitem__', 'summary.txt', )",
                        "('open_volume_directory', 'mapper#0', 'VOL-ALOS2290760600-191011-WWDR1.1__D', )"]}
        ),
        'open_sar_leader:os-error': (
            {'raised': "builtins.OSError('boom',) errno=None filename=None suppress_context=False cause=(None) "
                       'context=(None)',
             'events': ["('get_mapper', 'memory:///eq3/failures', False, False, None, {}, )",
                        "('mapper.__getitem__', 'summary.txt', )",
                        "('open_volume_directory', 'mapper#0', 'VOL-ALOS2290760600-191011-WWDR1.1__D', )",
                        "('open_sar_leader', 'mapper#0', 'LED-ALOS2290760600-191011-WWDR1.1__D', )"]}
        ),
        'open_sar_leader:type-error': (
            {'raised': "builtins.TypeError('wrong type',) suppress_context=False cause=(None) context=(None)",
             'events': ["('get_mapper', 'memory:///eq3/failures', False, False, None, {}, )",
                        "('mapper.__getitem__', 'summary.txt', )",
                        "('open_volume_directory', 'mapper#0', 'VOL-ALOS2290760600-191011-WWDR1.1__D', )",
                        "('open_sar_leader', 'mapper#0', 'LED-ALOS2290760600-191011-WWDR1.1__D', )"]}
        ),
        'open_sar_leader:key-error': (
            {'raised': "builtins.KeyError('missing',) suppress_context=False cause=(None) context=(None)",
             'events': ["('get_mapper', 'memory:///eq3/failures', False, False, None, {}, )",
                        "('mapper.__getitem__', 'summary.txt', )",
                        "('open_volume_directory', 'mapper#0', 'VOL-ALOS2290760600-191011-WWDR1.1__D', )",
                        "('open_sar_leader', 'mapper#0', 'LED-ALOS2290760600-191011-WWDR1.1__D', )"]}
        ),
        'open_sar_leader:stop-iteration': (
            {'raised': "builtins.StopIteration('stop',) suppress_context=False cause=(None) context=(None)",
             'events': ["('get_mapper', 'memory:///eq3/failures', False, False, None, {}, )",
                        "('mapper.__getitem__', 'summary.txt', )",
                        "('open_volume_directory', 'mapper#0', 'VOL-ALOS2290760600-191011-WWDR1.1__D', )",
                        "('open_sar_leader', 'mapper#0', 'LED-ALOS2290760600-191011-WWDR1.1__D', )"]}
        ),
        'open_sar_leader:keyboard-interrupt': (
            {'raised': 'builtins.KeyboardInterrupt() suppress_context=False cause=(None) context=(None)',
             'events': ["('get_mapper', 'memory:///eq3/failures', False, False, None, {}, )",
                        "('mapper.__getitem__', 'summary.txt', )",
                        "('open_volume_directory', 'mapper#0', 'VOL-ALOS2290760600-191011-WWDR1.1__D', )",
                        "('open_sar_leader', 'mapper#0', 'LED-ALOS2290760600-191011-WWDR1.1__D', )"]}
        ),
        'open_image-first:os-error': (
            {'raised': "builtins.OSError('boom',) errno=None filename=None suppress_context=False cause=(None) "
                       'context=(None)',
             'events': ["('get_mapper', 'memory:///eq3/failures', False, False, None, {}, )",
                        "('mapper.__getitem__', 'summary.txt', )",
                        "('open_volume_directory', 'mapper#0', 'VOL-ALOS2290760600-191011-WWDR1.1__D', )",
                        "('open_sar_leader', 'mapper#0', 'LED-ALOS2290760600-191011-WWDR1.1__D', )",
                        "('open_image', 'mapper#0', 'IMG-HH-ALOS2290760600-191011-WWDR1.1__D-F1', "
                        "('use_cache', 'True', ), ('create_cache', 'False', ), ('records_per_chunk', '1024', "
                        '), )']}
        ),
        'open_image-first:type-error': (
            {'raised': "builtins.TypeError('wrong type',) suppress_context=False cause=(None) context=(None)",
             'events': ["('get_mapper', 'memory:///eq3/failures', False, False, None, {}, )",
                        "('mapper.__getitem__', 'summary.txt', )",
                        "('open_volume_directory', 'mapper#0', 'VOL-ALOS2290760600-191011-WWDR1.1__D', )",
                        "('open_sar_leader', 'mapper#0', 'LED-ALOS2290760600-191011-WWDR1.1__D', )",
                        "('open_image', 'mapper#0', 'IMG-HH-ALOS2290760600-191011-WWDR1.1__D-F1', "
                        "('use_cache', 'True', ), ('create_cache', 'False', ), ('records_per_chunk', '1024', "
                        '), )']}
        ),
        'open_image-first:key-error': (
            {'raised': "builtins.KeyError('missing',) suppress_context=False cause=(None) context=(None)",
             'events': ["('get_mapper', 'memory:///eq3/failures', False, False, None, {}, )",
                        "('mapper.__getitem__', 'summary.txt', )",
                        "('open_volume_directory', 'mapper#0', 'VOL-ALOS2290760600-191011-WWDR1.1__D', )",
                        "('open_sar_leader', 'mapper#0', 'LED-ALOS2290760600-191011-WWDR1.1__D', )",
                        "('open_image', 'mapper#0', 'IMG-HH-ALOS2290760600-191011-WWDR1.1__D-F1', "
                        "('use_cache', 'True', ), ('create_cache', 'False', ), ('records_per_chunk', '1024', "
                        '), )']}
        ),
        'open_image-first:stop-iteration': (
            {'returned': "Group(path='/', url='/eq3/failures', attrs={'volume_id': 'vol', 'n': 1, "
                         "'reference_document': "
                         "'https://www.eorc.jaxa.jp/ALOS-2/en/doc/fdata/PALSAR-2_xx_Format_CEOS_E_f.pdf'}, "
                         "data={'summary': Group(path='/summary', url='/eq3/failures', attrs={}, "
                         "data={'scene_specification': Group(path='/summary/scene_specification', "
                         "url='/eq3/failures', attrs={'mission_name': 'ALOS2', 'orbit_accumulation': 29076, "
                         "'scene_frame': 600, 'date': '2019-10-11'}, data={}), 'product_specification': "
                         "Group(path='/summary/product_specification', url='/eq3/failures', "
                         "attrs={'observation_mode': 'ScanSAR nominal 28MHz mode dual polarization', "
                         "'observation_direction': 'right looking', 'processing_level': 'level 1.1', "
                         "'processing_option': 'not specified', 'map_projection': 'not specified', "
                         "'orbit_direction': 'descending'}, data={}), 'product_information': "
                         "Group(path='/summary/product_information', url='/eq3/failures', "
                         "attrs={'ProductFormat': 'CEOS'}, data={'data_files': "
                         "Group(path='/summary/product_information/data_files', url='/eq3/failures', "
                         "attrs={'volume_directory': 'VOL-ALOS2290760600-191011-WWDR1.1__D', 'sar_leader': "
                         "'LED-ALOS2290760600-191011-WWDR1.1__D', 'sar_imagery': "
                         "['IMG-HH-ALOS2290760600-191011-WWDR1.1__D-F1', "
                         "'IMG-HH-ALOS2290760600-191011-WWDR1.1__D-F2', "
                         "'IMG-HH-ALOS2290760600-191011-WWDR1.1__D-F3', "
                         "'IMG-HH-ALOS2290760600-191011-WWDR1.1__D-F4', "
                         "'IMG-HH-ALOS2290760600-191011-WWDR1.1__D-F5', "
                         "'IMG-HV-ALOS2290760600-191011-WWDR1.1__D-F1', "
                         "'IMG-HV-ALOS2290760600-191011-WWDR1.1__D-F2', "
                         "'IMG-HV-ALOS2290760600-191011-WWDR1.1__D-F3', "
                         "'IMG-HV-ALOS2290760600-191011-WWDR1.1__D-F4', "
                         "'IMG-HV-ALOS2290760600-191011-WWDR1.1__D-F5'], 'sar_trailer': "
                         "'TRL-ALOS2290760600-191011-WWDR1.1__D'}, data={}), 'shapes': "
                         "Group(path='/summary/product_information/shapes', url='/eq3/failures', attrs={'1': "
                         "(9196, 60568, )}, data={})}), 'label_information': "
                         "Group(path='/summary/label_information', url='/eq3/failures', "
                         "attrs={'ObservationDate': '2019-10-11'}, data={})}), 'metadata': "
                         "Group(path='/metadata', url='/eq3/failures', attrs={'leader': "
                         "'LED-ALOS2290760600-191011-WWDR1.1__D'}, data={'orbit': "
                         "Group(path='/metadata/orbit', url='/eq3/failures', attrs={'a': 1}, data={'x': "
                         "Variable(['t'], [1, 2], {'u': 'm'})})}), 'imagery': Group(path='/imagery', "
                         "url='/eq3/failures', attrs={}, data={})})",
             'events': ["('get_mapper', 'memory:///eq3/failures', False, False, None, {}, )",
                        "('mapper.__getitem__', 'summary.txt', )",
                        "('open_volume_directory', 'mapper#0', 'VOL-ALOS2290760600-191011-WWDR1.1__D', )",
                        "('open_sar_leader', 'mapper#0', 'LED-ALOS2290760600-191011-WWDR1.1__D', )",
                        "('open_image', 'mapper#0', 'IMG-HH-ALOS2290760600-191011-WWDR1.1__D-F1', "
                        "('use_cache', 'True', ), ('create_cache', 'False', ), ('records_per_chunk', '1024', "
                        '), )',
                        "('mapper.root', )",
                        "('mapper.root', )"]}
        ),
        'open_image-first:keyboard-interrupt': (
            {'raised': 'builtins.KeyboardInterrupt() suppress_context=False cause=(None) context=(None)',
             'events': ["('get_mapper', 'memory:///eq3/failures', False, False, None, {}, )",
                        "('mapper.__getitem__', 'summary.txt', )",
                        "('open_volume_directory', 'mapper#0', 'VOL-ALOS2290760600-191011-WWDR1.1__D', )",
                        "('open_sar_leader', 'mapper#0', 'LED-ALOS2290760600-191011-WWDR1.1__D', )",
                        "('open_image', 'mapper#0', 'IMG-HH-ALOS2290760600-191011-WWDR1.1__D-F1', "
                        "('use_cache', 'True', ), ('create_cache', 'False', ), ('records_per_chunk', '1024', "
                        '), )']}
        ),
        'open_image-third:os-error': (
            {'raised': "builtins.OSError('boom',) errno=None filename=None suppress_context=False cause=(None) "
                       'context=(None)',
             'events': ["('get_mapper', 'memory:///eq3/failures', False, False, None, {}, )",
                        "('mapper.__getitem__', 'summary.txt', )",
                        "('open_volume_directory', 'mapper#0', 'VOL-ALOS2290760600-191011-WWDR1.1__D', )",
                        "('open_sar_leader', 'mapper#0', 'LED-ALOS2290760600-191011-WWDR1.1__D', )",
                        "('open_image', 'mapper#0', 'IMG-HH-ALOS2290760600-191011-WWDR1.1__D-F1', "
                        "('use_cache', 'True', ), ('create_cache', 'False', ), ('records_per_chunk', '1024', "
                        '), )',
                        "('open_image', 'mapper#0', 'IMG-HH-ALOS2290760600-191011-WWDR1.1__D-F2', "
                        "('use_cache', 'True', ), ('create_cache', 'False', ), ('records_per_chunk', '1024', "
                        '), )',
                        "('open_image', 'mapper#0', 'IMG-HH-ALOS2290760600-191011-WWDR1.1__D-F3', "
                        "('use_cache', 'True', ), ('create_cache', 'False', ), ('records_per_chunk', '1024', "
                        '), )']}
        ),
        'open_image-third:type-error': (
            {'raised': "builtins.TypeError('wrong type',) suppress_context=False cause=(None) context=(None)",
             'events': ["('get_mapper', 'memory:///eq3/failures', False, False, None, {}, )",
                        "('mapper.__getitem__', 'summary.txt', )",
                        "('open_volume_directory', 'mapper#0', 'VOL-ALOS2290760600-191011-WWDR1.1__D', )",
                        "('open_sar_leader', 'mapper#0', 'LED-ALOS2290760600-191011-WWDR1.1__D', )",
                        "('open_image', 'mapper#0', 'IMG-HH-ALOS2290760600-191011-WWDR1.1__D-F1', "
                        "('use_cache', 'True', ), ('create_cache', 'False', ), ('records_per_chunk', '1024', "
                        '), )',
                        "('open_image', 'mapper#0', 'IMG-HH-ALOS2290760600-191011-WWDR1.1__D-F2', "
                        "('use_cache', 'True', ), ('create_cache', 'False', ), ('records_per_chunk', '1024', "
                        '), )',
                        "('open_image', 'mapper#0', 'IMG-HH-ALOS2290760600-191011-WWDR1.1__D-F3', "
                        "('use_cache', 'True', ), ('create_cache', 'False', ), ('records_per_chunk', '1024', "
                        '), )']}
        ),
        'open_image-third:key-error': (
            {'raised': "builtins.KeyError('missing',) suppress_context=False cause=(None) context=(None)",
             'events': ["('get_mapper', 'memory:///eq3/failures', False, False, None, {}, )",
                        "('mapper.__getitem__', 'summary.txt', )",
                        "('open_volume_directory', 'mapper#0', 'VOL-ALOS2290760600-191011-WWDR1.1__D', )",
                        "('open_sar_leader', 'mapper#0', 'LED-ALOS2290760600-191011-WWDR1.1__D', )",
                        "('open_image', 'mapper#0', 'IMG-HH-ALOS2290760600-191011-WWDR1.1__D-F1', "
                        "('use_cache', 'True', ), ('create_cache', 'False', ), ('records_per_chunk', '1024', "
                        '), )',
                        "('open_image', 'mapper#0', 'IMG-HH-ALOS2290760600-191011-WWDR1.1__D-F2', "
                        "('use_cache', 'True', ), ('create_cache', 'False', ), ('records_per_chunk', '1024', "
                        '), )',
                        "('open_image', 'mapper#0', 'IMG-HH-ALOS2290760600-191011-WWDR1.1__D-F3', "
                        "('use_cache', 'True', ), ('create_cache', 'False', ), ('records_per_chunk', '1024', "
                        '), )']}
        ),
        'open_image-third:stop-iteration': (
            {'returned': "Group(path='/', url='/eq3/failures', attrs={'volume_id': 'vol', 'n': 1, "
                         "'reference_document': "
                         "'https://www.eorc.jaxa.jp/ALOS-2/en/doc/fdata/PALSAR-2_xx_Format_CEOS_E_f.pdf'}, "
                         "data={'summary': Group(path='/summary', url='/eq3/failures', attrs={}, "
                         "data={'scene_specification': Group(path='/summary/scene_specification', "
                         "url='/eq3/failures', attrs={'mission_name': 'ALOS2', 'orbit_accumulation': 29076, "
                         "'scene_frame': 600, 'date': '2019-10-11'}, data={}), 'product_specification': "
                         "Group(path='/summary/product_specification', url='/eq3/failures', "
                         "attrs={'observation_mode': 'ScanSAR nominal 28MHz mode dual polarization', "
                         "'observation_direction': 'right looking', 'processing_level': 'level 1.1', "
                         "'processing_option': 'not specified', 'map_projection': 'not specified', "
                         "'orbit_direction': 'descending'}, data={}), 'product_information': "
                         "Group(path='/summary/product_information', url='/eq3/failures', "
                         "attrs={'ProductFormat': 'CEOS'}, data={'data_files': "
                         "Group(path='/summary/product_information/data_files', url='/eq3/failures', "
                         "attrs={'volume_directory': 'VOL-ALOS2290760600-191011-WWDR1.1__D', 'sar_leader': "
                         "'LED-ALOS2290760600-191011-WWDR1.1__D', 'sar_imagery': "
                         "['IMG-HH-ALOS2290760600-191011-WWDR1.1__D-F1', "
                         "'IMG-HH-ALOS2290760600-191011-WWDR1.1__D-F2', "
                         "'IMG-HH-ALOS2290760600-191011-WWDR1.1__D-F3', "
                         "'IMG-HH-ALOS2290760600-191011-WWDR1.1__D-F4', "
                         "'IMG-HH-ALOS2290760600-191011-WWDR1.1__D-F5', "
                         "'IMG-HV-ALOS2290760600-191011-WWDR1.1__D-F1', "
                         "'IMG-HV-ALOS2290760600-191011-WWDR1.1__D-F2', "
                         "'IMG-HV-ALOS2290760600-191011-WWDR1.1__D-F3', "
                         "'IMG-HV-ALOS2290760600-191011-WWDR1.1__D-F4', "
                         "'IMG-HV-ALOS2290760600-191011-WWDR1.1__D-F5'], 'sar_trailer': "
                         "'TRL-ALOS2290760600-191011-WWDR1.1__D'}, data={}), 'shapes': "
                         "Group(path='/summary/product_information/shapes', url='/eq3/failures', attrs={'1': "
                         "(9196, 60568, )}, data={})}), 'label_information': "
                         "Group(path='/summary/label_information', url='/eq3/failures', "
                         "attrs={'ObservationDate': '2019-10-11'}, data={})}), 'metadata': "
                         "Group(path='/metadata', url='/eq3/failures', attrs={'leader': "
                         "'LED-ALOS2290760600-191011-WWDR1.1__D'}, data={'orbit': "
                         "Group(path='/metadata/orbit', url='/eq3/failures', attrs={'a': 1}, data={'x': "
                         "Variable(['t'], [1, 2], {'u': 'm'})})}), 'imagery': Group(path='/imagery', "
                         "url='/eq3/failures', attrs={}, data={'HH-F1': Group(path='/imagery/HH-F1', "
                         "url='/eq3/failures', attrs={'file': 'IMG-HH-ALOS2290760600-191011-WWDR1.1__D-F1', "
                         "'rpc': 1024}, data={'data': Variable(['rows', 'columns'], [[1, 2]], {})}), 'HH-F2': "
                         "Group(path='/imagery/HH-F2', url='/eq3/failures', attrs={'file': "
                         "'IMG-HH-ALOS2290760600-191011-WWDR1.1__D-F2', 'rpc': 1024}, data={'data': "
                         "Variable(['rows', 'columns'], [[1, 2]], {})})})})",
             'events': ["('get_mapper', 'memory:///eq3/failures', False, False, None, {}, )",
                        "('mapper.__getitem__', 'summary.txt', )",
                        "('open_volume_directory', 'mapper#0', 'VOL-ALOS2290760600-191011-WWDR1.1__D', )",
                        "('open_sar_leader', 'mapper#0', 'LED-ALOS2290760600-191011-WWDR1.1__D', )",
                        "('open_image', 'mapper#0', 'IMG-HH-ALOS2290760600-191011-WWDR1.1__D-F1', "
                        "('use_cache', 'True', ), ('create_cache', 'False', ), ('records_per_chunk', '1024', "
                        '), )',
                        "('open_image', 'mapper#0', 'IMG-HH-ALOS2290760600-191011-WWDR1.1__D-F2', "
                        "('use_cache', 'True', ), ('create_cache', 'False', ), ('records_per_chunk', '1024', "
                        '), )',
                        "('open_image', 'mapper#0', 'IMG-HH-ALOS2290760600-191011-WWDR1.1__D-F3', "
                        "('use_cache', 'True', ), ('create_cache', 'False', ), ('records_per_chunk', '1024', "
                        '), )',
                        "('mapper.root', )",
                        "('mapper.root', )"]}
        ),
        'open_image-third:keyboard-interrupt': (
            {'raised': 'builtins.KeyboardInterrupt() suppress_context=False cause=(None) context=(None)',
             'events': ["('get_mapper', 'memory:///eq3/failures', False, False, None, {}, )",
                        "('mapper.__getitem__', 'summary.txt', )",
                        "('open_volume_directory', 'mapper#0', 'VOL-ALOS2290760600-191011-WWDR1.1__D', )",
                        "('open_sar_leader', 'mapper#0', 'LED-ALOS2290760600-191011-WWDR1.1__D', )",
                        "('open_image', 'mapper#0', 'IMG-HH-ALOS2290760600-191011-WWDR1.1__D-F1', "
                        "('use_cache', 'True', ), ('create_cache', 'False', ), ('records_per_chunk', '1024', "
                        '), )',
                        "('open_image', 'mapper#0', 'IMG-HH-ALOS2290760600-191011-WWDR1.1__D-F2', "
                        "('use_cache', 'True', ), ('create_cache', 'False', ), ('records_per_chunk', '1024', "
                        '), )',
                        "('open_image', 'mapper#0', 'IMG-HH-ALOS2290760600-191011-WWDR1.1__D-F3', "
                        "('use_cache', 'True', ), ('create_cache', 'False', ), ('records_per_chunk', '1024', "
                        '), )']}
        ),
        'several': (
            {'raised': "builtins.OSError('volume directory',) errno=None filename=None suppress_context=False "
                       'cause=(None) context=(None)',
             'events': ["('get_mapper', 'memory:///eq3/failures', False, False, None, {}, )",
                        "('mapper.__getitem__', 'summary.txt', )",
                        "('open_volume_directory', 'mapper#0', 'VOL-ALOS2290760600-191011-WWDR1.1__D', )"]}
        ),
        'invalid-summary': (
            {'raised': "builtins.ExceptionGroup('failed to parse the summary', [ValueError('line 00: invalid "
                       "line'), ValueError('line 02: invalid line')]) message='failed to parse the summary' "
                       "exceptions=[builtins.ValueError('line 00: invalid line',) suppress_context=False "
                       "cause=(None) context=(None), builtins.ValueError('line 02: invalid line',) "
                       'suppress_context=False cause=(None) context=(None)] suppress_context=False '
                       'cause=(None) context=(None)',
             'events': ["('get_mapper', 'memory:///eq3/invalid', False, False, None, {}, )",
                        "('mapper.__getitem__', 'summary.txt', )"]}
        ),
        'no-product-information': (
            {'raised': "builtins.KeyError('product_information',) suppress_context=False cause=(None) "
                       'context=(None)',
             'events': ["('get_mapper', 'memory:///eq3/no-pdi', False, False, None, {}, )",
                        "('mapper.__getitem__', 'summary.txt', )"]}
        ),
        'no-data-files': (
            {'raised': "builtins.KeyError('data_files',) suppress_context=False cause=(None) context=(None)",
             'events': ["('get_mapper', 'memory:///eq3/no-files', False, False, None, {}, )",
                        "('mapper.__getitem__', 'summary.txt', )"]}
        ),
    },
    'fake-summaries': {
        'complete': (
            {'returned': "Group(path='/', url='/eq3/fake', attrs={'volume_id': 'vol', 'n': 1, "
                         "'reference_document': "
                         "'https://www.eorc.jaxa.jp/ALOS-2/en/doc/fdata/PALSAR-2_xx_Format_CEOS_E_f.pdf'}, "
                         "data={'summary': Group(path='/summary', url='/eq3/fake', attrs={'s': 1}, "
                         "data={'product_information': Group(path='/summary/product_information', "
                         "url='/eq3/fake', attrs={}, data={'data_files': "
                         "Group(path='/summary/product_information/data_files', url='/eq3/fake', "
                         "attrs={'volume_directory': 'VOL', 'sar_leader': 'LED', 'sar_imagery': ['IMG-HH', "
                         "'IMG-HV'], 'sar_trailer': 'TRL'}, data={})})}), 'metadata': Group(path='/metadata', "
                         "url='/eq3/fake', attrs={'leader': 'LED'}, data={'orbit': "
                         "Group(path='/metadata/orbit', url='/eq3/fake', attrs={'a': 1}, data={'x': "
                         "Variable(['t'], [1, 2], {'u': 'm'})})}), 'imagery': Group(path='/imagery', "
                         "url='/eq3/fake', attrs={}, data={'HH': Group(path='/imagery/HH', url='/eq3/fake', "
                         "attrs={'file': 'IMG-HH', 'rpc': 1024}, data={'data': Variable(['rows', 'columns'], "
                         "[[1, 2]], {})}), 'HV': Group(path='/imagery/HV', url='/eq3/fake', attrs={'file': "
                         "'IMG-HV', 'rpc': 1024}, data={'data': Variable(['rows', 'columns'], [[1, 2]], "
                         '{})})})})',
             'events': ["('get_mapper', 'memory:///eq3/fake', False, False, None, {}, )",
                        "('open_summary', 'mapper#0', 'summary.txt', )",
                        "('open_volume_directory', 'mapper#0', 'VOL', )",
                        "('open_sar_leader', 'mapper#0', 'LED', )",
                        "('open_image', 'mapper#0', 'IMG-HH', ('use_cache', 'True', ), ('create_cache', "
                        "'False', ), ('records_per_chunk', '1024', ), )",
                        "('open_image', 'mapper#0', 'IMG-HV', ('use_cache', 'True', ), ('create_cache', "
                        "'False', ), ('records_per_chunk', '1024', ), )",
                        "('mapper.root', )",
                        "('mapper.root', )"]}
        ),
        'no-volume-directory': (
            {'raised': "builtins.KeyError('volume_directory',) suppress_context=False cause=(None) "
                       'context=(None)',
             'events': ["('get_mapper', 'memory:///eq3/fake', False, False, None, {}, )",
                        "('open_summary', 'mapper#0', 'summary.txt', )"]}
        ),
        'no-leader': (
            {'raised': "builtins.KeyError('sar_leader',) suppress_context=False cause=(None) context=(None)",
             'events': ["('get_mapper', 'memory:///eq3/fake', False, False, None, {}, )",
                        "('open_summary', 'mapper#0', 'summary.txt', )",
                        "('open_volume_directory', 'mapper#0', 'VOL', )"]}
        ),
        'no-imagery': (
            {'raised': "builtins.KeyError('sar_imagery',) suppress_context=False cause=(None) context=(None)",
             'events': ["('get_mapper', 'memory:///eq3/fake', False, False, None, {}, )",
                        "('open_summary', 'mapper#0', 'summary.txt', )",
                        "('open_volume_directory', 'mapper#0', 'VOL', )",
                        "('open_sar_leader', 'mapper#0', 'LED', )"]}
        ),
        'no-trailer': (
            {'returned': "Group(path='/', url='/eq3/fake', attrs={'volume_id': 'vol', 'n': 1, "
                         "'reference_document': "
                         "'https://www.eorc.jaxa.jp/ALOS-2/en/doc/fdata/PALSAR-2_xx_Format_CEOS_E_f.pdf'}, "
                         "data={'summary': Group(path='/summary', url='/eq3/fake', attrs={'s': 1}, "
                         "data={'product_information': Group(path='/summary/product_information', "
                         "url='/eq3/fake', attrs={}, data={'data_files': "
                         "Group(path='/summary/product_information/data_files', url='/eq3/fake', "
                         "attrs={'volume_directory': 'VOL', 'sar_leader': 'LED', 'sar_imagery': ['IMG-HH', "
                         "'IMG-HV']}, data={})})}), 'metadata': Group(path='/metadata', url='/eq3/fake', "
                         "attrs={'leader': 'LED'}, data={'orbit': Group(path='/metadata/orbit', "
                         "url='/eq3/fake', attrs={'a': 1}, data={'x': Variable(['t'], [1, 2], {'u': 'm'})})}), "
                         "'imagery': Group(path='/imagery', url='/eq3/fake', attrs={}, data={'HH': "
                         "Group(path='/imagery/HH', url='/eq3/fake', attrs={'file': 'IMG-HH', 'rpc': 1024}, "
                         "data={'data': Variable(['rows', 'columns'], [[1, 2]], {})}), 'HV': "
                         "Group(path='/imagery/HV', url='/eq3/fake', attrs={'file': 'IMG-HV', 'rpc': 1024}, "
                         "data={'data': Variable(['rows', 'columns'], [[1, 2]], {})})})})",
             'events': ["('get_mapper', 'memory:///eq3/fake', False, False, None, {}, )",
                        "('open_summary', 'mapper#0', 'summary.txt', )",
                        "('open_volume_directory', 'mapper#0', 'VOL', )",
                        "('open_sar_leader', 'mapper#0', 'LED', )",
                        "('open_image', 'mapper#0', 'IMG-HH', ('use_cache', 'True', ), ('create_cache', "
                        "'False', ), ('records_per_chunk', '1024', ), )",
                        "('open_image', 'mapper#0', 'IMG-HV', ('use_cache', 'True', ), ('create_cache', "
                        "'False', ), ('records_per_chunk', '1024', ), )",
                        "('mapper.root', )",
                        "('mapper.root', )"]}
        ),
        'empty': (
            {'raised': "builtins.KeyError('volume_directory',) suppress_context=False cause=(None) "
                       'context=(None)',
             'events': ["('get_mapper', 'memory:///eq3/fake', False, False, None, {}, )",
                        "('open_summary', 'mapper#0', 'summary.txt', )"]}
        ),
        'imagery-tuple': (
            {'returned': "Group(path='/', url='/eq3/fake', attrs={'volume_id': 'vol', 'n': 1, "
                         "'reference_document': "
                         "'https://www.eorc.jaxa.jp/ALOS-2/en/doc/fdata/PALSAR-2_xx_Format_CEOS_E_f.pdf'}, "
                         "data={'summary': Group(path='/summary', url='/eq3/fake', attrs={'s': 1}, "
                         "data={'product_information': Group(path='/summary/product_information', "
                         "url='/eq3/fake', attrs={}, data={'data_files': "
                         "Group(path='/summary/product_information/data_files', url='/eq3/fake', "
                         "attrs={'volume_directory': 'VOL', 'sar_leader': 'LED', 'sar_imagery': ('IMG-HH', ), "
                         "'sar_trailer': 'TRL'}, data={})})}), 'metadata': Group(path='/metadata', "
                         "url='/eq3/fake', attrs={'leader': 'LED'}, data={'orbit': "
                         "Group(path='/metadata/orbit', url='/eq3/fake', attrs={'a': 1}, data={'x': "
                         "Variable(['t'], [1, 2], {'u': 'm'})})}), 'imagery': Group(path='/imagery', "
                         "url='/eq3/fake', attrs={}, data={'HH': Group(path='/imagery/HH', url='/eq3/fake', "
                         "attrs={'file': 'IMG-HH', 'rpc': 1024}, data={'data': Variable(['rows', 'columns'], "
                         '[[1, 2]], {})})})})',
             'events': ["('get_mapper', 'memory:///eq3/fake', False, False, None, {}, )",
                        "('open_summary', 'mapper#0', 'summary.txt', )",
                        "('open_volume_directory', 'mapper#0', 'VOL', )",
                        "('open_sar_leader', 'mapper#0', 'LED', )",
                        "('open_image', 'mapper#0', 'IMG-HH', ('use_cache', 'True', ), ('create_cache', "
                        "'False', ), ('records_per_chunk', '1024', ), )",
                        "('mapper.root', )",
                        "('mapper.root', )"]}
        ),
        'imagery-string': (
            {'returned': "Group(path='/', url='/eq3/fake', attrs={'volume_id': 'vol', 'n': 1, "
                         "'reference_document': "
                         "'https://www.eorc.jaxa.jp/ALOS-2/en/doc/fdata/PALSAR-2_xx_Format_CEOS_E_f.pdf'}, "
                         "data={'summary': Group(path='/summary', url='/eq3/fake', attrs={'s': 1}, "
                         "data={'product_information': Group(path='/summary/product_information', "
                         "url='/eq3/fake', attrs={}, data={'data_files': "
                         "Group(path='/summary/product_information/data_files', url='/eq3/fake', "
                         "attrs={'volume_directory': 'VOL', 'sar_leader': 'LED', 'sar_imagery': 'AB', "
                         "'sar_trailer': 'TRL'}, data={})})}), 'metadata': Group(path='/metadata', "
                         "url='/eq3/fake', attrs={'leader': 'LED'}, data={'orbit': "
                         "Group(path='/metadata/orbit', url='/eq3/fake', attrs={'a': 1}, data={'x': "
                         "Variable(['t'], [1, 2], {'u': 'm'})})}), 'imagery': Group(path='/imagery', "
                         "url='/eq3/fake', attrs={}, data={'A': Group(path='/imagery/A', url='/eq3/fake', "
                         "attrs={'file': 'A', 'rpc': 1024}, data={'data': Variable(['rows', 'columns'], [[1, "
                         "2]], {})}), 'B': Group(path='/imagery/B', url='/eq3/fake', attrs={'file': 'B', "
                         "'rpc': 1024}, data={'data': Variable(['rows', 'columns'], [[1, 2]], {})})})})",
             'events': ["('get_mapper', 'memory:///eq3/fake', False, False, None, {}, )",
                        "('open_summary', 'mapper#0', 'summary.txt', )",
                        "('open_volume_directory', 'mapper#0', 'VOL', )",
                        "('open_sar_leader', 'mapper#0', 'LED', )",
                        "('open_image', 'mapper#0', 'A', ('use_cache', 'True', ), ('create_cache', 'False', ), "
                        "('records_per_chunk', '1024', ), )",
                        "('open_image', 'mapper#0', 'B', ('use_cache', 'True', ), ('create_cache', 'False', ), "
                        "('records_per_chunk', '1024', ), )",
                        "('mapper.root', )",
                        "('mapper.root', )"]}
        ),
        'imagery-iterator': (
            {'returned': "Group(path='/', url='/eq3/fake', attrs={'volume_id': 'vol', 'n': 1, "
                         "'reference_document': "
                         "'https://www.eorc.jaxa.jp/ALOS-2/en/doc/fdata/PALSAR-2_xx_Format_CEOS_E_f.pdf'}, "
                         "data={'summary': Group(path='/summary', url='/eq3/fake', attrs={'s': 1}, "
                         "data={'product_information': Group(path='/summary/product_information', "
                         "url='/eq3/fake', attrs={}, data={'data_files': "
                         "Group(path='/summary/product_information/data_files', url='/eq3/fake', "
                         "attrs={'volume_directory': 'VOL', 'sar_leader': 'LED', 'sar_imagery': "
                         "<list_iterator>, 'sar_trailer': 'TRL'}, data={})})}), 'metadata': "
                         "Group(path='/metadata', url='/eq3/fake', attrs={'leader': 'LED'}, data={'orbit': "
                         "Group(path='/metadata/orbit', url='/eq3/fake', attrs={'a': 1}, data={'x': "
                         "Variable(['t'], [1, 2], {'u': 'm'})})}), 'imagery': Group(path='/imagery', "
                         "url='/eq3/fake', attrs={}, data={'VV': Group(path='/imagery/VV', url='/eq3/fake', "
                         "attrs={'file': 'IMG-VV', 'rpc': 1024}, data={'data': Variable(['rows', 'columns'], "
                         "[[1, 2]], {})}), 'VH': Group(path='/imagery/VH', url='/eq3/fake', attrs={'file': "
                         "'IMG-VH', 'rpc': 1024}, data={'data': Variable(['rows', 'columns'], [[1, 2]], "
                         '{})})})})',
             'events': ["('get_mapper', 'memory:///eq3/fake', False, False, None, {}, )",
                        "('open_summary', 'mapper#0', 'summary.txt', )",
                        "('open_volume_directory', 'mapper#0', 'VOL', )",
                        "('open_sar_leader', 'mapper#0', 'LED', )",
                        "('open_image', 'mapper#0', 'IMG-VV', ('use_cache', 'True', ), ('create_cache', "
                        "'False', ), ('records_per_chunk', '1024', ), )",
                        "('open_image', 'mapper#0', 'IMG-VH', ('use_cache', 'True', ), ('create_cache', "
                        "'False', ), ('records_per_chunk', '1024', ), )",
                        "('mapper.root', )",
                        "('mapper.root', )"]}
        ),
        'imagery-dict': (
            {'returned': "Group(path='/', url='/eq3/fake', attrs={'volume_id': 'vol', 'n': 1, "
                         "'reference_document': "
                         "'https://www.eorc.jaxa.jp/ALOS-2/en/doc/fdata/PALSAR-2_xx_Format_CEOS_E_f.pdf'}, "
                         "data={'summary': Group(path='/summary', url='/eq3/fake', attrs={'s': 1}, "
                         "data={'product_information': Group(path='/summary/product_information', "
                         "url='/eq3/fake', attrs={}, data={'data_files': "
                         "Group(path='/summary/product_information/data_files', url='/eq3/fake', "
                         "attrs={'volume_directory': 'VOL', 'sar_leader': 'LED', 'sar_imagery': {'IMG-HH': 1, "
                         "'IMG-VV': 2}, 'sar_trailer': 'TRL'}, data={})})}), 'metadata': "
                         "Group(path='/metadata', url='/eq3/fake', attrs={'leader': 'LED'}, data={'orbit': "
                         "Group(path='/metadata/orbit', url='/eq3/fake', attrs={'a': 1}, data={'x': "
                         "Variable(['t'], [1, 2], {'u': 'm'})})}), 'imagery': Group(path='/imagery', "
                         "url='/eq3/fake', attrs={}, data={'HH': Group(path='/imagery/HH', url='/eq3/fake', "
                         "attrs={'file': 'IMG-HH', 'rpc': 1024}, data={'data': Variable(['rows', 'columns'], "
                         "[[1, 2]], {})}), 'VV': Group(path='/imagery/VV', url='/eq3/fake', attrs={'file': "
                         "'IMG-VV', 'rpc': 1024}, data={'data': Variable(['rows', 'columns'], [[1, 2]], "
                         '{})})})})',
             'events': ["('get_mapper', 'memory:///eq3/fake', False, False, None, {}, )",
                        "('open_summary', 'mapper#0', 'summary.txt', )",
                        "('open_volume_directory', 'mapper#0', 'VOL', )",
                        "('open_sar_leader', 'mapper#0', 'LED', )",
                        "('open_image', 'mapper#0', 'IMG-HH', ('use_cache', 'True', ), ('create_cache', "
                        "'False', ), ('records_per_chunk', '1024', ), )",
                        "('open_image', 'mapper#0', 'IMG-VV', ('use_cache', 'True', ), ('create_cache', "
                        "'False', ), ('records_per_chunk', '1024', ), )",
                        "('mapper.root', )",
                        "('mapper.root', )"]}
        ),
        'imagery-none': (
            {'raised': 'builtins.TypeError("\'NoneType\' object is not iterable",) suppress_context=False '
                       'cause=(None) context=(None)',
             'events': ["('get_mapper', 'memory:///eq3/fake', False, False, None, {}, )",
                        "('open_summary', 'mapper#0', 'summary.txt', )",
                        "('open_volume_directory', 'mapper#0', 'VOL', )",
                        "('open_sar_leader', 'mapper#0', 'LED', )"]}
        ),
        'imagery-int': (
            {'raised': 'builtins.TypeError("\'int\' object is not iterable",) suppress_context=False '
                       'cause=(None) context=(None)',
             'events': ["('get_mapper', 'memory:///eq3/fake', False, False, None, {}, )",
                        "('open_summary', 'mapper#0', 'summary.txt', )",
                        "('open_volume_directory', 'mapper#0', 'VOL', )",
                        "('open_sar_leader', 'mapper#0', 'LED', )"]}
        ),
        'reordered': (
            {'returned': "Group(path='/', url='/eq3/fake', attrs={'volume_id': 'vol', 'n': 1, "
                         "'reference_document': "
                         "'https://www.eorc.jaxa.jp/ALOS-2/en/doc/fdata/PALSAR-2_xx_Format_CEOS_E_f.pdf'}, "
                         "data={'summary': Group(path='/summary', url='/eq3/fake', attrs={'s': 1}, "
                         "data={'product_information': Group(path='/summary/product_information', "
                         "url='/eq3/fake', attrs={}, data={'data_files': "
                         "Group(path='/summary/product_information/data_files', url='/eq3/fake', "
                         "attrs={'sar_trailer': 'TRL', 'sar_imagery': ['IMG-HH', 'IMG-HV'], 'sar_leader': "
                         "'LED', 'volume_directory': 'VOL'}, data={})})}), 'metadata': Group(path='/metadata', "
                         "url='/eq3/fake', attrs={'leader': 'LED'}, data={'orbit': "
                         "Group(path='/metadata/orbit', url='/eq3/fake', attrs={'a': 1}, data={'x': "
                         "Variable(['t'], [1, 2], {'u': 'm'})})}), 'imagery': Group(path='/imagery', "
                         "url='/eq3/fake', attrs={}, data={'HH': Group(path='/imagery/HH', url='/eq3/fake', "
                         "attrs={'file': 'IMG-HH', 'rpc': 1024}, data={'data': Variable(['rows', 'columns'], "
                         "[[1, 2]], {})}), 'HV': Group(path='/imagery/HV', url='/eq3/fake', attrs={'file': "
                         "'IMG-HV', 'rpc': 1024}, data={'data': Variable(['rows', 'columns'], [[1, 2]], "
                         '{})})})})',
             'events': ["('get_mapper', 'memory:///eq3/fake', False, False, None, {}, )",
                        "('open_summary', 'mapper#0', 'summary.txt', )",
                        "('open_volume_directory', 'mapper#0', 'VOL', )",
                        "('open_sar_leader', 'mapper#0', 'LED', )",
                        "('open_image', 'mapper#0', 'IMG-HH', ('use_cache', 'True', ), ('create_cache', "
                        "'False', ), ('records_per_chunk', '1024', ), )",
                        "('open_image', 'mapper#0', 'IMG-HV', ('use_cache', 'True', ), ('create_cache', "
                        "'False', ), ('records_per_chunk', '1024', ), )",
                        "('mapper.root', )",
                        "('mapper.root', )"]}
        ),
        'summary-with-url': (
            {'returned': "Group(path='/', url='/eq3/fake', attrs={'volume_id': 'vol', 'n': 1, "
                         "'reference_document': "
                         "'https://www.eorc.jaxa.jp/ALOS-2/en/doc/fdata/PALSAR-2_xx_Format_CEOS_E_f.pdf'}, "
                         "data={'summary': Group(path='/summary', url='elsewhere', attrs={'s': 1}, "
                         "data={'product_information': Group(path='/summary/product_information', "
                         "url='elsewhere', attrs={}, data={'data_files': "
                         "Group(path='/summary/product_information/data_files', url='elsewhere', "
                         "attrs={'volume_directory': 'VOL', 'sar_leader': 'LED', 'sar_imagery': ['IMG-HH', "
                         "'IMG-HV'], 'sar_trailer': 'TRL'}, data={})})}), 'metadata': Group(path='/metadata', "
                         "url='/eq3/fake', attrs={'leader': 'LED'}, data={'orbit': "
                         "Group(path='/metadata/orbit', url='/eq3/fake', attrs={'a': 1}, data={'x': "
                         "Variable(['t'], [1, 2], {'u': 'm'})})}), 'imagery': Group(path='/imagery', "
                         "url='/eq3/fake', attrs={}, data={'HH': Group(path='/imagery/HH', url='/eq3/fake', "
                         "attrs={'file': 'IMG-HH', 'rpc': 1024}, data={'data': Variable(['rows', 'columns'], "
                         "[[1, 2]], {})}), 'HV': Group(path='/imagery/HV', url='/eq3/fake', attrs={'file': "
                         "'IMG-HV', 'rpc': 1024}, data={'data': Variable(['rows', 'columns'], [[1, 2]], "
                         '{})})})})',
             'events': ["('get_mapper', 'memory:///eq3/fake', False, False, None, {}, )",
                        "('open_summary', 'mapper#0', 'summary.txt', )",
                        "('open_volume_directory', 'mapper#0', 'VOL', )",
                        "('open_sar_leader', 'mapper#0', 'LED', )",
                        "('open_image', 'mapper#0', 'IMG-HH', ('use_cache', 'True', ), ('create_cache', "
                        "'False', ), ('records_per_chunk', '1024', ), )",
                        "('open_image', 'mapper#0', 'IMG-HV', ('use_cache', 'True', ), ('create_cache', "
                        "'False', ), ('records_per_chunk', '1024', ), )",
                        "('mapper.root', )",
                        "('mapper.root', )"]}
        ),
        'summary-dict': (
            {'raised': "builtins.KeyError('volume_directory',) suppress_context=False cause=(None) "
                       'context=(None)',
             'events': ["('get_mapper', 'memory:///eq3/fake', False, False, None, {}, )",
                        "('open_summary', 'mapper#0', 'summary.txt', )"]}
        ),
        'summary-none': (
            {'raised': 'builtins.TypeError("\'bool\' object is not subscriptable",) suppress_context=False '
                       'cause=(None) context=(None)',
             'events': ["('get_mapper', 'memory:///eq3/fake', False, False, None, {}, )",
                        "('open_summary', 'mapper#0', 'summary.txt', )"]}
        ),
        'volume-attrs:empty': (
            {'returned': "Group(path='/', url='/eq3/fake', attrs={'reference_document': "
                         "'https://www.eorc.jaxa.jp/ALOS-2/en/doc/fdata/PALSAR-2_xx_Format_CEOS_E_f.pdf'}, "
                         "data={'summary': Group(path='/summary', url='/eq3/fake', attrs={'s': 1}, "
                         "data={'product_information': Group(path='/summary/product_information', "
                         "url='/eq3/fake', attrs={}, data={'data_files': "
                         "Group(path='/summary/product_information/data_files', url='/eq3/fake', "
                         "attrs={'volume_directory': 'VOL', 'sar_leader': 'LED', 'sar_imagery': ['IMG-HH', "
                         "'IMG-HV'], 'sar_trailer': 'TRL'}, data={})})}), 'metadata': Group(path='/metadata', "
                         "url='/eq3/fake', attrs={'leader': 'LED'}, data={'orbit': "
                         "Group(path='/metadata/orbit', url='/eq3/fake', attrs={'a': 1}, data={'x': "
                         "Variable(['t'], [1, 2], {'u': 'm'})})}), 'imagery': Group(path='/imagery', "
                         "url='/eq3/fake', attrs={}, data={'HH': Group(path='/imagery/HH', url='/eq3/fake', "
                         "attrs={'file': 'IMG-HH', 'rpc': 1024}, data={'data': Variable(['rows', 'columns'], "
                         "[[1, 2]], {})}), 'HV': Group(path='/imagery/HV', url='/eq3/fake', attrs={'file': "
                         "'IMG-HV', 'rpc': 1024}, data={'data': Variable(['rows', 'columns'], [[1, 2]], "
                         '{})})})})',
             'events': ["('get_mapper', 'memory:///eq3/fake', False, False, None, {}, )",
                        "('open_summary', 'mapper#0', 'summary.txt', )",
                        "('open_volume_directory', 'mapper#0', 'VOL', )",
                        "('open_sar_leader', 'mapper#0', 'LED', )",
                        "('open_image', 'mapper#0', 'IMG-HH', ('use_cache', 'True', ), ('create_cache', "
                        "'False', ), ('records_per_chunk', '1024', ), )",
                        "('open_image', 'mapper#0', 'IMG-HV', ('use_cache', 'True', ), ('create_cache', "
                        "'False', ), ('records_per_chunk', '1024', ), )",
                        "('mapper.root', )",
                        "('mapper.root', )"]}
        ),
        'volume-attrs:overlapping': (
            {'returned': "Group(path='/', url='/eq3/fake', attrs={'reference_document': "
                         "'https://www.eorc.jaxa.jp/ALOS-2/en/doc/fdata/PALSAR-2_xx_Format_CEOS_E_f.pdf', 'z': "
                         "1}, data={'summary': Group(path='/summary', url='/eq3/fake', attrs={'s': 1}, "
                         "data={'product_information': Group(path='/summary/product_information', "
                         "url='/eq3/fake', attrs={}, data={'data_files': "
                         "Group(path='/summary/product_information/data_files', url='/eq3/fake', "
                         "attrs={'volume_directory': 'VOL', 'sar_leader': 'LED', 'sar_imagery': ['IMG-HH', "
                         "'IMG-HV'], 'sar_trailer': 'TRL'}, data={})})}), 'metadata': Group(path='/metadata', "
                         "url='/eq3/fake', attrs={'leader': 'LED'}, data={'orbit': "
                         "Group(path='/metadata/orbit', url='/eq3/fake', attrs={'a': 1}, data={'x': "
                         "Variable(['t'], [1, 2], {'u': 'm'})})}), 'imagery': Group(path='/imagery', "
                         "url='/eq3/fake', attrs={}, data={'HH': Group(path='/imagery/HH', url='/eq3/fake', "
                         "attrs={'file': 'IMG-HH', 'rpc': 1024}, data={'data': Variable(['rows', 'columns'], "
                         "[[1, 2]], {})}), 'HV': Group(path='/imagery/HV', url='/eq3/fake', attrs={'file': "
                         "'IMG-HV', 'rpc': 1024}, data={'data': Variable(['rows', 'columns'], [[1, 2]], "
                         '{})})})})',
             'events': ["('get_mapper', 'memory:///eq3/fake', False, False, None, {}, )",
                        "('open_summary', 'mapper#0', 'summary.txt', )",
                        "('open_volume_directory', 'mapper#0', 'VOL', )",
                        "('open_sar_leader', 'mapper#0', 'LED', )",
                        "('open_image', 'mapper#0', 'IMG-HH', ('use_cache', 'True', ), ('create_cache', "
                        "'False', ), ('records_per_chunk', '1024', ), )",
                        "('open_image', 'mapper#0', 'IMG-HV', ('use_cache', 'True', ), ('create_cache', "
                        "'False', ), ('records_per_chunk', '1024', ), )",
                        "('mapper.root', )",
                        "('mapper.root', )"]}
        ),
        'volume-attrs:ordered': (
            {'returned': "Group(path='/', url='/eq3/fake', attrs={'z': 1, 'a': 2, 'm': {'nested': [1, 2]}, "
                         "'reference_document': "
                         "'https://www.eorc.jaxa.jp/ALOS-2/en/doc/fdata/PALSAR-2_xx_Format_CEOS_E_f.pdf'}, "
                         "data={'summary': Group(path='/summary', url='/eq3/fake', attrs={'s': 1}, "
                         "data={'product_information': Group(path='/summary/product_information', "
                         "url='/eq3/fake', attrs={}, data={'data_files': "
                         "Group(path='/summary/product_information/data_files', url='/eq3/fake', "
                         "attrs={'volume_directory': 'VOL', 'sar_leader': 'LED', 'sar_imagery': ['IMG-HH', "
                         "'IMG-HV'], 'sar_trailer': 'TRL'}, data={})})}), 'metadata': Group(path='/metadata', "
                         "url='/eq3/fake', attrs={'leader': 'LED'}, data={'orbit': "
                         "Group(path='/metadata/orbit', url='/eq3/fake', attrs={'a': 1}, data={'x': "
                         "Variable(['t'], [1, 2], {'u': 'm'})})}), 'imagery': Group(path='/imagery', "
                         "url='/eq3/fake', attrs={}, data={'HH': Group(path='/imagery/HH', url='/eq3/fake', "
                         "attrs={'file': 'IMG-HH', 'rpc': 1024}, data={'data': Variable(['rows', 'columns'], "
                         "[[1, 2]], {})}), 'HV': Group(path='/imagery/HV', url='/eq3/fake', attrs={'file': "
                         "'IMG-HV', 'rpc': 1024}, data={'data': Variable(['rows', 'columns'], [[1, 2]], "
                         '{})})})})',
             'events': ["('get_mapper', 'memory:///eq3/fake', False, False, None, {}, )",
                        "('open_summary', 'mapper#0', 'summary.txt', )",
                        "('open_volume_directory', 'mapper#0', 'VOL', )",
                        "('open_sar_leader', 'mapper#0', 'LED', )",
                        "('open_image', 'mapper#0', 'IMG-HH', ('use_cache', 'True', ), ('create_cache', "
                        "'False', ), ('records_per_chunk', '1024', ), )",
                        "('open_image', 'mapper#0', 'IMG-HV', ('use_cache', 'True', ), ('create_cache', "
                        "'False', ), ('records_per_chunk', '1024', ), )",
                        "('mapper.root', )",
                        "('mapper.root', )"]}
        ),
        'volume-attrs:or-only': (
            {'returned': "Group(path='/', url='/eq3/fake', attrs={'or-only': True, 'reference_document': "
                         "'https://www.eorc.jaxa.jp/ALOS-2/en/doc/fdata/PALSAR-2_xx_Format_CEOS_E_f.pdf'}, "
                         "data={'summary': Group(path='/summary', url='/eq3/fake', attrs={'s': 1}, "
                         "data={'product_information': Group(path='/summary/product_information', "
                         "url='/eq3/fake', attrs={}, data={'data_files': "
                         "Group(path='/summary/product_information/data_files', url='/eq3/fake', "
                         "attrs={'volume_directory': 'VOL', 'sar_leader': 'LED', 'sar_imagery': ['IMG-HH', "
                         "'IMG-HV'], 'sar_trailer': 'TRL'}, data={})})}), 'metadata': Group(path='/metadata', "
                         "url='/eq3/fake', attrs={'leader': 'LED'}, data={'orbit': "
                         "Group(path='/metadata/orbit', url='/eq3/fake', attrs={'a': 1}, data={'x': "
                         "Variable(['t'], [1, 2], {'u': 'm'})})}), 'imagery': Group(path='/imagery', "
                         "url='/eq3/fake', attrs={}, data={'HH': Group(path='/imagery/HH', url='/eq3/fake', "
                         "attrs={'file': 'IMG-HH', 'rpc': 1024}, data={'data': Variable(['rows', 'columns'], "
                         "[[1, 2]], {})}), 'HV': Group(path='/imagery/HV', url='/eq3/fake', attrs={'file': "
                         "'IMG-HV', 'rpc': 1024}, data={'data': Variable(['rows', 'columns'], [[1, 2]], "
                         '{})})})})',
             'events': ["('get_mapper', 'memory:///eq3/fake', False, False, None, {}, )",
                        "('open_summary', 'mapper#0', 'summary.txt', )",
                        "('open_volume_directory', 'mapper#0', 'VOL', )",
                        "('open_sar_leader', 'mapper#0', 'LED', )",
                        "('open_image', 'mapper#0', 'IMG-HH', ('use_cache', 'True', ), ('create_cache', "
                        "'False', ), ('records_per_chunk', '1024', ), )",
                        "('open_image', 'mapper#0', 'IMG-HV', ('use_cache', 'True', ), ('create_cache', "
                        "'False', ), ('records_per_chunk', '1024', ), )",
                        "('mapper.root', )",
                        "('mapper.root', )"]}
        ),
        'volume-attrs:list': (
            {'raised': 'builtins.TypeError("unsupported operand type(s) for |: \'list\' and \'dict\'",) '
                       'suppress_context=False cause=(None) context=(None)',
             'events': ["('get_mapper', 'memory:///eq3/fake', False, False, None, {}, )",
                        "('open_summary', 'mapper#0', 'summary.txt', )",
                        "('open_volume_directory', 'mapper#0', 'VOL', )",
                        "('open_sar_leader', 'mapper#0', 'LED', )",
                        "('open_image', 'mapper#0', 'IMG-HH', ('use_cache', 'True', ), ('create_cache', "
                        "'False', ), ('records_per_chunk', '1024', ), )",
                        "('open_image', 'mapper#0', 'IMG-HV', ('use_cache', 'True', ), ('create_cache', "
                        "'False', ), ('records_per_chunk', '1024', ), )",
                        "('mapper.root', )",
                        "('mapper.root', )"]}
        ),
        'volume-attrs:items': (
            {'raised': 'builtins.TypeError("unsupported operand type(s) for |: \'tuple\' and \'dict\'",) '
                       'suppress_context=False cause=(None) context=(None)',
             'events': ["('get_mapper', 'memory:///eq3/fake', False, False, None, {}, )",
                        "('open_summary', 'mapper#0', 'summary.txt', )",
                        "('open_volume_directory', 'mapper#0', 'VOL', )",
                        "('open_sar_leader', 'mapper#0', 'LED', )",
                        "('open_image', 'mapper#0', 'IMG-HH', ('use_cache', 'True', ), ('create_cache', "
                        "'False', ), ('records_per_chunk', '1024', ), )",
                        "('open_image', 'mapper#0', 'IMG-HV', ('use_cache', 'True', ), ('create_cache', "
                        "'False', ), ('records_per_chunk', '1024', ), )",
                        "('mapper.root', )",
                        "('mapper.root', )"]}
        ),
        'attrs-independent': (
            ["{'a': 1}",
             "{'a': 1, 'reference_document': "
             "'https://www.eorc.jaxa.jp/ALOS-2/en/doc/fdata/PALSAR-2_xx_Format_CEOS_E_f.pdf'}",
             "{'a': 1, 'reference_document': "
             "'https://www.eorc.jaxa.jp/ALOS-2/en/doc/fdata/PALSAR-2_xx_Format_CEOS_E_f.pdf', 'extra': 1}"]
        ),
        'group-names:duplicates': (
            {'returned': "Group(path='/', url='/eq3/fake', attrs={'volume_id': 'vol', 'n': 1, "
                         "'reference_document': "
                         "'https://www.eorc.jaxa.jp/ALOS-2/en/doc/fdata/PALSAR-2_xx_Format_CEOS_E_f.pdf'}, "
                         "data={'summary': Group(path='/summary', url='/eq3/fake', attrs={'s': 1}, "
                         "data={'product_information': Group(path='/summary/product_information', "
                         "url='/eq3/fake', attrs={}, data={'data_files': "
                         "Group(path='/summary/product_information/data_files', url='/eq3/fake', "
                         "attrs={'volume_directory': 'VOL', 'sar_leader': 'LED', 'sar_imagery': ['IMG-HH', "
                         "'IMG-HV'], 'sar_trailer': 'TRL'}, data={})})}), 'metadata': Group(path='/metadata', "
                         "url='/eq3/fake', attrs={'leader': 'LED'}, data={'orbit': "
                         "Group(path='/metadata/orbit', url='/eq3/fake', attrs={'a': 1}, data={'x': "
                         "Variable(['t'], [1, 2], {'u': 'm'})})}), 'imagery': Group(path='/imagery', "
                         "url='/eq3/fake', attrs={}, data={'same': Group(path='/imagery/same', "
                         "url='/eq3/fake', attrs={'file': 'IMG-HV', 'rpc': 1024}, data={'data': "
                         "Variable(['rows', 'columns'], [[1, 2]], {})})})})",
             'events': ["('get_mapper', 'memory:///eq3/fake', False, False, None, {}, )",
                        "('open_summary', 'mapper#0', 'summary.txt', )",
                        "('open_volume_directory', 'mapper#0', 'VOL', )",
                        "('open_sar_leader', 'mapper#0', 'LED', )",
                        "('open_image', 'mapper#0', 'IMG-HH', ('use_cache', 'True', ), ('create_cache', "
                        "'False', ), ('records_per_chunk', '1024', ), )",
                        "('open_image', 'mapper#0', 'IMG-HV', ('use_cache', 'True', ), ('create_cache', "
                        "'False', ), ('records_per_chunk', '1024', ), )",
                        "('mapper.root', )",
                        "('mapper.root', )"]}
        ),
        'group-names:nested-name': (
            {'returned': "Group(path='/', url='/eq3/fake', attrs={'volume_id': 'vol', 'n': 1, "
                         "'reference_document': "
                         "'https://www.eorc.jaxa.jp/ALOS-2/en/doc/fdata/PALSAR-2_xx_Format_CEOS_E_f.pdf'}, "
                         "data={'summary': Group(path='/summary', url='/eq3/fake', attrs={'s': 1}, "
                         "data={'product_information': Group(path='/summary/product_information', "
                         "url='/eq3/fake', attrs={}, data={'data_files': "
                         "Group(path='/summary/product_information/data_files', url='/eq3/fake', "
                         "attrs={'volume_directory': 'VOL', 'sar_leader': 'LED', 'sar_imagery': ['IMG-HH', "
                         "'IMG-HV'], 'sar_trailer': 'TRL'}, data={})})}), 'metadata': Group(path='/metadata', "
                         "url='/eq3/fake', attrs={'leader': 'LED'}, data={'orbit': "
                         "Group(path='/metadata/orbit', url='/eq3/fake', attrs={'a': 1}, data={'x': "
                         "Variable(['t'], [1, 2], {'u': 'm'})})}), 'imagery': Group(path='/imagery', "
                         "url='/eq3/fake', attrs={}, data={'b': Group(path='/imagery/b', url='/eq3/fake', "
                         "attrs={'file': 'IMG-HH', 'rpc': 1024}, data={'data': Variable(['rows', 'columns'], "
                         "[[1, 2]], {})}), 'c': Group(path='/imagery/c', url='/eq3/fake', attrs={'file': "
                         "'IMG-HV', 'rpc': 1024}, data={'data': Variable(['rows', 'columns'], [[1, 2]], "
                         '{})})})})',
             'events': ["('get_mapper', 'memory:///eq3/fake', False, False, None, {}, )",
                        "('open_summary', 'mapper#0', 'summary.txt', )",
                        "('open_volume_directory', 'mapper#0', 'VOL', )",
                        "('open_sar_leader', 'mapper#0', 'LED', )",
                        "('open_image', 'mapper#0', 'IMG-HH', ('use_cache', 'True', ), ('create_cache', "
                        "'False', ), ('records_per_chunk', '1024', ), )",
                        "('open_image', 'mapper#0', 'IMG-HV', ('use_cache', 'True', ), ('create_cache', "
                        "'False', ), ('records_per_chunk', '1024', ), )",
                        "('mapper.root', )",
                        "('mapper.root', )"]}
        ),
        'group-names:root-name': (
            {'returned': "Group(path='/', url='/eq3/fake', attrs={'volume_id': 'vol', 'n': 1, "
                         "'reference_document': "
                         "'https://www.eorc.jaxa.jp/ALOS-2/en/doc/fdata/PALSAR-2_xx_Format_CEOS_E_f.pdf'}, "
                         "data={'summary': Group(path='/summary', url='/eq3/fake', attrs={'s': 1}, "
                         "data={'product_information': Group(path='/summary/product_information', "
                         "url='/eq3/fake', attrs={}, data={'data_files': "
                         "Group(path='/summary/product_information/data_files', url='/eq3/fake', "
                         "attrs={'volume_directory': 'VOL', 'sar_leader': 'LED', 'sar_imagery': ['IMG-HH', "
                         "'IMG-HV'], 'sar_trailer': 'TRL'}, data={})})}), 'metadata': Group(path='/metadata', "
                         "url='/eq3/fake', attrs={'leader': 'LED'}, data={'orbit': "
                         "Group(path='/metadata/orbit', url='/eq3/fake', attrs={'a': 1}, data={'x': "
                         "Variable(['t'], [1, 2], {'u': 'm'})})}), 'imagery': Group(path='/imagery', "
                         "url='/eq3/fake', attrs={}, data={'/': Group(path='/', url='/eq3/fake', "
                         "attrs={'file': 'IMG-HH', 'rpc': 1024}, data={'data': Variable(['rows', 'columns'], "
                         "[[1, 2]], {})}), '': Group(path='/imagery/', url='/eq3/fake', attrs={'file': "
                         "'IMG-HV', 'rpc': 1024}, data={'data': Variable(['rows', 'columns'], [[1, 2]], "
                         '{})})})})',
             'events': ["('get_mapper', 'memory:///eq3/fake', False, False, None, {}, )",
                        "('open_summary', 'mapper#0', 'summary.txt', )",
                        "('open_volume_directory', 'mapper#0', 'VOL', )",
                        "('open_sar_leader', 'mapper#0', 'LED', )",
                        "('open_image', 'mapper#0', 'IMG-HH', ('use_cache', 'True', ), ('create_cache', "
                        "'False', ), ('records_per_chunk', '1024', ), )",
                        "('open_image', 'mapper#0', 'IMG-HV', ('use_cache', 'True', ), ('create_cache', "
                        "'False', ), ('records_per_chunk', '1024', ), )",
                        "('mapper.root', )",
                        "('mapper.root', )"]}
        ),
    },
    'public-names': ['Group', 'fsspec', 'open', 'open_sar_leader', 'open_summary', 'open_volume_directory', 'sar_image'],
}
# @@EXPECTED-END@@


def emit(results):
    """print the results as a (not too deeply indented) python literal"""
    print("{")
    for section, cases in results.items():
        if not isinstance(cases, dict):
            print(f"    {section!r}: {pprint.pformat(cases, width=100, sort_dicts=False)},")
            continue
        print(f"    {section!r}: {{")
        for name, value in cases.items():
            text = pprint.pformat(value, width=100, sort_dicts=False)
            print(f"        {name!r}: (")
            print("\n".join("            " + line for line in text.splitlines()))
            print("        ),")
        print("    },")
    print("}")


def differences(actual, expected, path="root"):
    if type(actual) is not type(expected):
        yield f"{path}: {actual!r} != {expected!r}"
    elif isinstance(actual, dict):
        for key in sorted(set(actual) | set(expected), key=repr):
            if key not in actual or key not in expected:
                yield f"{path}[{key!r}]: only on one side"
            else:
                yield from differences(actual[key], expected[key], f"{path}[{key!r}]")
    elif isinstance(actual, (list, tuple)) and len(actual) == len(expected):
        for index, (a, e) in enumerate(zip(actual, expected)):
            yield from differences(a, e, f"{path}[{index}]")
    elif actual != expected:
        yield f"{path}: {actual!r} != {expected!r}"


def test_equivalence():
    actual = run()
    found = list(differences(actual, EXPECTED))
    assert not found, "\n".join(found)
    assert actual == EXPECTED


if __name__ == "__main__":
    if "--record" in sys.argv:
        emit(run())
        sys.exit(0)

    print("checking", alos2_io.__file__)
    found = list(differences(run(), EXPECTED))
    for line in found:
        print(line)
    n_cases = sum(len(v) for v in EXPECTED.values())
    print(f"{n_cases} cases:", "FAILED" if found else "ok")
    sys.exit(1 if found else 0)
