"""Equivalence check for refactoring 4 (``ceos_alos2.sar_trailer.read_sar_trailer``).

Run as a script (``python equiv.py``) or through pytest. The expected outcomes were
recorded from the unchanged code (``python equiv.py --record`` prints them).
"""

import io
import struct
import sys

import fsspec
import numpy as np

from ceos_alos2 import sar_trailer
from ceos_alos2.utils import to_dict

# --------------------------------------------------------------------------------------
# synthetic trailer files


def text(value, width):
    encoded = str(value).encode("ascii")
    assert len(encoded) <= width, (value, width)
    return encoded.ljust(width)


def number(value, width):
    return b" " * width if value is None else str(value).rjust(width).encode("ascii")


def header(image_sizes, *, n_images=..., size=720):
    """the file descriptor record of a trailer file

    image_sizes: (record_length, n_pixels, n_lines, n_bytes) per low resolution image
    """
    if n_images is ...:
        n_images = len(image_sizes)
    parts = [
        struct.pack(">IBBBBI", 1, 63, 192, 18, 18, 720),
        text("A", 2),
        text("", 2),
        text("CEOS-SAR", 12),
        text("A", 2),
        text("A", 2),
        text("001.001", 12),
        number(3, 4),
        text("TRAILER FILE", 16),
        text("FSEQ", 4),
        number(1, 8),
        number(4, 4),
        text("FTYP", 4),
        number(5, 8),
        number(4, 4),
        text("FLGT", 4),
        number(9, 8),
        number(4, 4),
        text("", 68),
        *[number(index, 6) + number(100 + index, 6) for index in range(15)],
        text("", 60),
        *[number(index, 6) + number(1000 + index, 8) for index in range(5)],
        number(n_images, 6),
        *[
            number(length, 8) + number(n_pixels, 6) + number(n_lines, 6) + number(n_bytes, 6)
            for length, n_pixels, n_lines, n_bytes in image_sizes
        ],
    ]
    data = b"".join(parts)
    return data.ljust(size)[:size] if size is not None else data


def pixels(n_bytes, count, seed):
    """big endian signed integers, some of them negative"""
    rng = np.random.default_rng(seed)
    dtype = np.dtype(f">i{n_bytes}")
    info = np.iinfo(dtype)
    values = rng.integers(info.min, info.max, size=count, dtype=np.int64, endpoint=True)
    return values.astype(dtype).tobytes()


def trailer(layouts, *, extra=b"", drop=0, **kwargs):
    """a whole trailer file where every image exactly fills its record"""
    sizes = [(n_pixels * n_lines * n_bytes, n_pixels, n_lines, n_bytes)
             for n_pixels, n_lines, n_bytes in layouts]  # fmt: skip
    body = b"".join(
        pixels(n_bytes, n_pixels * n_lines, seed)
        for seed, (n_pixels, n_lines, n_bytes) in enumerate(layouts)
    )
    body += extra
    if drop:
        body = body[:-drop]
    return header(sizes, **kwargs) + body


def raw(sizes, body, **kwargs):
    return header(sizes, **kwargs) + body


FILES = {
    # well-formed
    "no-images": trailer([]),
    "no-images-extra": trailer([], extra=b"unused bytes"),
    "one-int8": trailer([(3, 4, 1)]),
    "one-int16": trailer([(5, 2, 2)]),
    "one-int32": trailer([(2, 3, 4)]),
    "one-int64": trailer([(1, 7, 8)]),
    "two": trailer([(4, 3, 2), (2, 2, 4)]),
    "three-mixed": trailer([(4, 3, 2), (6, 1, 1), (2, 5, 8)]),
    "seven": trailer([(index + 1, 2, 2) for index in range(7)]),
    "row-and-column": trailer([(1, 6, 2), (6, 1, 2)]),
    "empty-image": trailer([(0, 5, 2), (2, 2, 2)]),
    "empty-image-last": trailer([(2, 2, 2), (3, 0, 4)]),
    "trailing-bytes": trailer([(2, 2, 2), (1, 3, 1)], extra=b"\x00" * 11),
    # records longer than the images need / misaligned records
    "record-longer": raw([(16, 2, 2, 2)], pixels(2, 8, 0)),
    "record-shorter": raw([(6, 2, 2, 2)], pixels(2, 8, 0)),
    "record-odd": raw([(7, 2, 2, 2)], pixels(2, 8, 0)),
    "second-record-shifted": raw([(9, 2, 2, 2), (8, 2, 2, 2)], pixels(2, 8, 0) + pixels(2, 8, 1)),
    "first-fails-second-fine": raw([(9, 2, 2, 2), (8, 2, 2, 2)], pixels(2, 9, 0)),
    "second-fails": raw([(8, 2, 2, 2), (8, 2, 3, 2)], pixels(2, 8, 0)),
    # data shorter than announced
    "data-missing": trailer([(4, 3, 2)], drop=24),
    "data-short-aligned": trailer([(4, 3, 2)], drop=4),
    "data-short-odd": trailer([(4, 3, 2)], drop=3),
    "second-image-missing": trailer([(2, 2, 2), (2, 2, 2)], drop=8),
    # odd numbers in the size records
    "sample-size-3": raw([(12, 2, 2, 3)], b"\x01" * 12),
    "sample-size-0": raw([(12, 2, 2, 0)], b"\x01" * 12),
    "sample-size-16": raw([(32, 1, 2, 16)], b"\x01" * 32),
    "sample-size-blank": raw([(12, 2, 2, None)], b"\x01" * 12),
    "pixels-blank": raw([(8, None, 4, 2)], pixels(2, 4, 0)),
    "pixels-and-lines-blank": raw([(8, None, None, 2)], pixels(2, 4, 0)),
    "lines-blank": raw([(8, 4, None, 2)], pixels(2, 4, 0)),
    "lines-blank-mismatch": raw([(8, 3, None, 2)], pixels(2, 4, 0)),
    "length-blank": raw([(None, 2, 2, 2)], pixels(2, 4, 0)),
    "length-blank-then-image": raw(
        [(None, 0, 1, 2), (8, 2, 2, 2)], pixels(2, 4, 0) + pixels(2, 4, 1)
    ),
    "length-blank-second": raw([(8, 2, 2, 2), (None, 7, 0, 1)], pixels(2, 4, 0) + b"\x05" * 3),
    "length-zero": raw([(0, 2, 2, 2)], pixels(2, 4, 0)),
    "length-zero-empty-shape": raw([(0, 0, 2, 2)], pixels(2, 4, 0)),
    "length-huge": raw([(99999999, 2, 2, 2)], pixels(2, 4, 0)),
    # counts that do not agree with the records
    "count-smaller": raw([(8, 2, 2, 2), (8, 2, 2, 2)], pixels(2, 8, 0), n_images=1),
    "count-larger": raw([(8, 2, 2, 2)], pixels(2, 4, 0), n_images=2),
    "count-blank": raw([(8, 2, 2, 2)], pixels(2, 4, 0), n_images=None),
    "count-eight": trailer([(1, 1, 1)] * 8),
    "count-text": raw([], b"", n_images="many"),
    # broken headers
    "empty": b"",
    "short-header": header([])[:400],
    "short-header-with-images": header([(8, 2, 2, 2)], size=None),
    "header-only": header([(8, 2, 2, 2)]),
    "garbage": bytes(range(256)) * 4,
}

# --------------------------------------------------------------------------------------


class RecordingFile(io.BytesIO):
    """a file object that logs the requests it receives"""

    def __init__(self, data):
        super().__init__(data)
        self.requests = []

    def read(self, *args, **kwargs):
        position = self.tell()
        self.requests.append(("read", args, kwargs, position))
        return super().read(*args, **kwargs)

    def seek(self, *args, **kwargs):
        self.requests.append(("seek", args, kwargs))
        return super().seek(*args, **kwargs)

    def readinto(self, *args, **kwargs):
        self.requests.append(("readinto",))
        return super().readinto(*args, **kwargs)


class ChunkedFile:
    """a minimal file object: only ``read``; hands out bytearrays"""

    def __init__(self, data):
        self.data = bytearray(data)
        self.position = 0
        self.requests = []

    def read(self, size=-1):
        self.requests.append(("read", size))
        stop = len(self.data) if size is None or size < 0 else self.position + size
        chunk = self.data[self.position : stop]
        self.position += len(chunk)
        return chunk


def describe(exc):
    if exc is None:
        return None
    return (type(exc).__name__, str(exc), describe(exc.__cause__), exc.__suppress_context__)


def show_image(image):
    return (
        type(image).__name__,
        image.dtype.str,
        image.shape,
        image.flags.writeable,
        image.flags.c_contiguous,
        image.tolist(),
    )


def show(result):
    header, images = result
    return (
        type(result).__name__,
        type(header).__name__,
        to_dict(header),
        type(images).__name__,
        [show_image(image) for image in images],
    )


def outcome(func, *args):
    try:
        result = func(*args)
    except Exception as e:  # noqa: BLE001
        return ("raised", describe(e))
    return ("returned", show(result))


class Restore:
    def __init__(self):
        self.saved = []

    def setattr(self, obj, name, value):
        self.saved.append((obj, name, getattr(obj, name)))
        setattr(obj, name, value)

    def undo(self):
        for obj, name, value in reversed(self.saved):
            setattr(obj, name, value)
        self.saved.clear()


def run():
    outcomes = {}

    for label, data in FILES.items():
        f = RecordingFile(data)
        result = outcome(sar_trailer.read_sar_trailer, f)
        outcomes[f"bytesio:{label}"] = repr((result, f.requests, f.tell(), f.closed))

    # not at the start of the file: the header is read from the current position
    for label in ["two", "no-images", "short-header"]:
        f = RecordingFile(b"skipped!" + FILES[label])
        f.seek(8)
        result = outcome(sar_trailer.read_sar_trailer, f)
        outcomes[f"offset:{label}"] = repr((result, f.requests, f.tell()))

    # file objects that only know how to read
    for label in ["three-mixed", "second-fails", "data-short-odd", "empty"]:
        f = ChunkedFile(FILES[label])
        result = outcome(sar_trailer.read_sar_trailer, f)
        outcomes[f"chunked:{label}"] = repr((result, f.requests, f.position))

    # fsspec files
    fs = fsspec.filesystem("memory")
    for label in ["seven", "trailing-bytes", "count-eight", "header-only"]:
        fs.pipe_file(f"/equiv4/{label}", FILES[label])
        with fs.open(f"/equiv4/{label}", mode="rb") as f:
            result = outcome(sar_trailer.read_sar_trailer, f)
            outcomes[f"memory:{label}"] = repr((result, f.tell()))
    fs.rm("/equiv4", recursive=True)

    # not files at all
    for label, obj in {"none": None, "bytes": FILES["two"], "closed": RecordingFile(b"")}.items():
        if label == "closed":
            obj.close()
        outcomes[f"not-a-file:{label}"] = repr(outcome(sar_trailer.read_sar_trailer, obj))

    # the image decoder and the header structure are looked up in the package at call time
    restore = Restore()
    try:
        calls = []

        def fake_parse_image_data(content, shape, n_bytes):
            calls.append((type(content).__name__, bytes(content), type(shape).__name__, shape,
                          type(n_bytes).__name__, n_bytes))  # fmt: skip
            if len(calls) == 3:
                raise RuntimeError("third image")
            return np.arange(len(calls))

        restore.setattr(sar_trailer, "parse_image_data", fake_parse_image_data)
        for label in ["two", "length-blank-then-image", "sample-size-3", "seven"]:
            calls.clear()
            f = RecordingFile(FILES[label])
            result = outcome(sar_trailer.read_sar_trailer, f)
            outcomes[f"patched-decoder:{label}"] = repr((result, list(calls), f.requests))
        restore.undo()

        class FakeRecord:
            def __init__(self):
                self.parsed = []

            def parse(self, data):
                self.parsed.append(data)
                real = sar_trailer.file_descriptor.file_descriptor_record.parse(FILES["two"][:720])
                return real

        fake = FakeRecord()
        restore.setattr(sar_trailer, "file_descriptor_record", fake)
        f = RecordingFile(b"0123456789" * 100)
        result = outcome(sar_trailer.read_sar_trailer, f)
        outcomes["patched-header"] = repr((result, f.requests, [len(d) for d in fake.parsed]))
        restore.undo()
    finally:
        restore.undo()

    # the image decoder itself
    for label, args in {
        "int16": (b"\x00\x01\xff\xfe\x80\x00\x7f\xff", (2, 2), 2),
        "int8-empty": (b"", (0, 3), 1),
        "int32-list-shape": (b"\x00\x00\x00\x01" * 6, [3, 2], 4),
        "int-shape": (b"\x00\x01" * 3, 3, 2),
        "minus-one-shape": (b"\x00\x01" * 6, (-1, 3), 2),
        "bytearray": (bytearray(b"\x01\x02\x03\x04"), (1, 2), 2),
        "memoryview": (memoryview(b"\x01\x02\x03\x04"), (2, 1), 2),
        "str-n-bytes": (b"\x01\x02\x03\x04", (2,), "2"),
        "bad-n-bytes": (b"\x01\x02\x03", (1,), 3),
        "mismatch": (b"\x01\x02\x03\x04", (3,), 2),
        "str-content": ("abcd", (2,), 2),
    }.items():
        try:
            result = ("returned", show_image(sar_trailer.parse_image_data(*args)))
        except Exception as e:  # noqa: BLE001
            result = ("raised", describe(e))
        outcomes[f"parse_image_data:{label}"] = repr(result)

    return outcomes


def check_module_surface():
    for name in ["itertools", "file_descriptor_record", "parse_image_data", "read_sar_trailer",
                 "file_descriptor", "image_data"]:  # fmt: skip
        assert hasattr(sar_trailer, name), name


def check_fresh_results():
    first = sar_trailer.read_sar_trailer(io.BytesIO(FILES["two"]))
    second = sar_trailer.read_sar_trailer(io.BytesIO(FILES["two"]))
    assert first[0] is not second[0]
    assert first[1] is not second[1]
    first[1].append(None)
    first[0]["file_id"] = "changed"
    third = sar_trailer.read_sar_trailer(io.BytesIO(FILES["two"]))
    assert len(third[1]) == 2 and third[0]["file_id"] == "TRAILER FILE"


EXPECTED = {'bytesio:no-images': "(('returned', ('tuple', 'Container', {'preamble': "
                      "{'record_sequence_number': 1, 'first_record_subtype': 63, "
                      "'record_type': 192, 'second_record_subtype': 18, "
                      "'third_record_subtype': 18, 'record_length': 720}, 'ascii_ebcdic_code': "
                      "'A', 'blanks1': '', 'format_control_document_id': 'CEOS-SAR', "
                      "'format_control_document_revision_number': 'A', "
                      "'record_format_revision_level': 'A', "
                      "'software_release_and_revision_number': '001.001', 'file_number': 3, "
                      "'file_id': 'TRAILER FILE', 'record_sequence_and_location_type_flag': "
                      "'FSEQ', 'sequence_number_of_location': 1, "
                      "'field_length_of_sequence_number': 4, "
                      "'record_code_and_location_type_flag': 'FTYP', "
                      "'location_of_record_code': 5, 'field_length_of_record_code': 4, "
                      "'record_length_and_location_type_flag': 'FLGT', "
                      "'location_of_record_length': 9, 'field_length_of_record_length': 4, "
                      "'dataset_summary': {'number_of_records': 0, 'record_length': 100}, "
                      "'map_projection': {'number_of_records': 1, 'record_length': 101}, "
                      "'platform_position': {'number_of_records': 2, 'record_length': 102}, "
                      "'attitude': {'number_of_records': 3, 'record_length': 103}, "
                      "'radiometric_data': {'number_of_records': 4, 'record_length': 104}, "
                      "'radiometric_compensation': {'number_of_records': 5, 'record_length': "
                      "105}, 'data_quality_summary': {'number_of_records': 6, 'record_length': "
                      "106}, 'data_histogram': {'number_of_records': 7, 'record_length': 107}, "
                      "'range_spectra': {'number_of_records': 8, 'record_length': 108}, "
                      "'dem_descriptor': {'number_of_records': 9, 'record_length': 109}, "
                      "'radar_parameter_update': {'number_of_records': 10, 'record_length': "
                      "110}, 'annotation_data': {'number_of_records': 11, 'record_length': "
                      "111}, 'detail_processing': {'number_of_records': 12, 'record_length': "
                      "112}, 'calibration': {'number_of_records': 13, 'record_length': 113}, "
                      "'gcp': {'number_of_records': 14, 'record_length': 114}, 'spare': '', "
                      "'facility_related_data_1': {'number_of_records': 0, 'record_length': "
                      "1000}, 'facility_related_data_2': {'number_of_records': 1, "
                      "'record_length': 1001}, 'facility_related_data_3': "
                      "{'number_of_records': 2, 'record_length': 1002}, "
                      "'facility_related_data_4': {'number_of_records': 3, 'record_length': "
                      "1003}, 'facility_related_data_5': {'number_of_records': 4, "
                      "'record_length': 1004}, 'number_of_low_resolution_images': 0, "
                      "'low_resolution_image_sizes': [], 'blanks': ''}, 'list', [])), "
                      "[('read', (720,), {}, 0), ('read', (), {}, 720)], 720, False)",
 'bytesio:no-images-extra': "(('returned', ('tuple', 'Container', {'preamble': "
                            "{'record_sequence_number': 1, 'first_record_subtype': 63, "
                            "'record_type': 192, 'second_record_subtype': 18, "
                            "'third_record_subtype': 18, 'record_length': 720}, "
                            "'ascii_ebcdic_code': 'A', 'blanks1': '', "
                            "'format_control_document_id': 'CEOS-SAR', "
                            "'format_control_document_revision_number': 'A', "
                            "'record_format_revision_level': 'A', "
                            "'software_release_and_revision_number': '001.001', 'file_number': "
                            "3, 'file_id': 'TRAILER FILE', "
                            "'record_sequence_and_location_type_flag': 'FSEQ', "
                            "'sequence_number_of_location': 1, "
                            "'field_length_of_sequence_number': 4, "
                            "'record_code_and_location_type_flag': 'FTYP', "
                            "'location_of_record_code': 5, 'field_length_of_record_code': 4, "
                            "'record_length_and_location_type_flag': 'FLGT', "
                            "'location_of_record_length': 9, 'field_length_of_record_length': "
                            "4, 'dataset_summary': {'number_of_records': 0, 'record_length': "
                            "100}, 'map_projection': {'number_of_records': 1, 'record_length': "
                            "101}, 'platform_position': {'number_of_records': 2, "
                            "'record_length': 102}, 'attitude': {'number_of_records': 3, "
                            "'record_length': 103}, 'radiometric_data': {'number_of_records': "
                            "4, 'record_length': 104}, 'radiometric_compensation': "
                            "{'number_of_records': 5, 'record_length': 105}, "
                            "'data_quality_summary': {'number_of_records': 6, 'record_length': "
                            "106}, 'data_histogram': {'number_of_records': 7, 'record_length': "
                            "107}, 'range_spectra': {'number_of_records': 8, 'record_length': "
                            "108}, 'dem_descriptor': {'number_of_records': 9, 'record_length': "
                            "109}, 'radar_parameter_update': {'number_of_records': 10, "
                            "'record_length': 110}, 'annotation_data': {'number_of_records': "
                            "11, 'record_length': 111}, 'detail_processing': "
                            "{'number_of_records': 12, 'record_length': 112}, 'calibration': "
                            "{'number_of_records': 13, 'record_length': 113}, 'gcp': "
                            "{'number_of_records': 14, 'record_length': 114}, 'spare': '', "
                            "'facility_related_data_1': {'number_of_records': 0, "
                            "'record_length': 1000}, 'facility_related_data_2': "
                            "{'number_of_records': 1, 'record_length': 1001}, "
                            "'facility_related_data_3': {'number_of_records': 2, "
                            "'record_length': 1002}, 'facility_related_data_4': "
                            "{'number_of_records': 3, 'record_length': 1003}, "
                            "'facility_related_data_5': {'number_of_records': 4, "
                            "'record_length': 1004}, 'number_of_low_resolution_images': 0, "
                            "'low_resolution_image_sizes': [], 'blanks': ''}, 'list', [])), "
                            "[('read', (720,), {}, 0), ('read', (), {}, 720)], 732, False)",
 'bytesio:one-int8': "(('returned', ('tuple', 'Container', {'preamble': "
                     "{'record_sequence_number': 1, 'first_record_subtype': 63, 'record_type': "
                     "192, 'second_record_subtype': 18, 'third_record_subtype': 18, "
                     "'record_length': 720}, 'ascii_ebcdic_code': 'A', 'blanks1': '', "
                     "'format_control_document_id': 'CEOS-SAR', "
                     "'format_control_document_revision_number': 'A', "
                     "'record_format_revision_level': 'A', "
                     "'software_release_and_revision_number': '001.001', 'file_number': 3, "
                     "'file_id': 'TRAILER FILE', 'record_sequence_and_location_type_flag': "
                     "'FSEQ', 'sequence_number_of_location': 1, "
                     "'field_length_of_sequence_number': 4, "
                     "'record_code_and_location_type_flag': 'FTYP', 'location_of_record_code': "
                     "5, 'field_length_of_record_code': 4, "
                     "'record_length_and_location_type_flag': 'FLGT', "
                     "'location_of_record_length': 9, 'field_length_of_record_length': 4, "
                     "'dataset_summary': {'number_of_records': 0, 'record_length': 100}, "
                     "'map_projection': {'number_of_records': 1, 'record_length': 101}, "
                     "'platform_position': {'number_of_records': 2, 'record_length': 102}, "
                     "'attitude': {'number_of_records': 3, 'record_length': 103}, "
                     "'radiometric_data': {'number_of_records': 4, 'record_length': 104}, "
                     "'radiometric_compensation': {'number_of_records': 5, 'record_length': "
                     "105}, 'data_quality_summary': {'number_of_records': 6, 'record_length': "
                     "106}, 'data_histogram': {'number_of_records': 7, 'record_length': 107}, "
                     "'range_spectra': {'number_of_records': 8, 'record_length': 108}, "
                     "'dem_descriptor': {'number_of_records': 9, 'record_length': 109}, "
                     "'radar_parameter_update': {'number_of_records': 10, 'record_length': "
                     "110}, 'annotation_data': {'number_of_records': 11, 'record_length': "
                     "111}, 'detail_processing': {'number_of_records': 12, 'record_length': "
                     "112}, 'calibration': {'number_of_records': 13, 'record_length': 113}, "
                     "'gcp': {'number_of_records': 14, 'record_length': 114}, 'spare': '', "
                     "'facility_related_data_1': {'number_of_records': 0, 'record_length': "
                     "1000}, 'facility_related_data_2': {'number_of_records': 1, "
                     "'record_length': 1001}, 'facility_related_data_3': {'number_of_records': "
                     "2, 'record_length': 1002}, 'facility_related_data_4': "
                     "{'number_of_records': 3, 'record_length': 1003}, "
                     "'facility_related_data_5': {'number_of_records': 4, 'record_length': "
                     "1004}, 'number_of_low_resolution_images': 1, "
                     "'low_resolution_image_sizes': [{'record_length': 12, 'number_of_pixels': "
                     "3, 'number_of_lines': 4, 'number_of_bytes_per_one_sample': 1}], "
                     "'blanks': ''}, 'list', [('ndarray', '|i1', (3, 4), False, True, [[89, "
                     "35, 2, -59], [-50, -118, -109, -124], [-84, 80, 38, 105]])])), [('read', "
                     "(720,), {}, 0), ('read', (), {}, 720)], 732, False)",
 'bytesio:one-int16': "(('returned', ('tuple', 'Container', {'preamble': "
                      "{'record_sequence_number': 1, 'first_record_subtype': 63, "
                      "'record_type': 192, 'second_record_subtype': 18, "
                      "'third_record_subtype': 18, 'record_length': 720}, 'ascii_ebcdic_code': "
                      "'A', 'blanks1': '', 'format_control_document_id': 'CEOS-SAR', "
                      "'format_control_document_revision_number': 'A', "
                      "'record_format_revision_level': 'A', "
                      "'software_release_and_revision_number': '001.001', 'file_number': 3, "
                      "'file_id': 'TRAILER FILE', 'record_sequence_and_location_type_flag': "
                      "'FSEQ', 'sequence_number_of_location': 1, "
                      "'field_length_of_sequence_number': 4, "
                      "'record_code_and_location_type_flag': 'FTYP', "
                      "'location_of_record_code': 5, 'field_length_of_record_code': 4, "
                      "'record_length_and_location_type_flag': 'FLGT', "
                      "'location_of_record_length': 9, 'field_length_of_record_length': 4, "
                      "'dataset_summary': {'number_of_records': 0, 'record_length': 100}, "
                      "'map_projection': {'number_of_records': 1, 'record_length': 101}, "
                      "'platform_position': {'number_of_records': 2, 'record_length': 102}, "
                      "'attitude': {'number_of_records': 3, 'record_length': 103}, "
                      "'radiometric_data': {'number_of_records': 4, 'record_length': 104}, "
                      "'radiometric_compensation': {'number_of_records': 5, 'record_length': "
                      "105}, 'data_quality_summary': {'number_of_records': 6, 'record_length': "
                      "106}, 'data_histogram': {'number_of_records': 7, 'record_length': 107}, "
                      "'range_spectra': {'number_of_records': 8, 'record_length': 108}, "
                      "'dem_descriptor': {'number_of_records': 9, 'record_length': 109}, "
                      "'radar_parameter_update': {'number_of_records': 10, 'record_length': "
                      "110}, 'annotation_data': {'number_of_records': 11, 'record_length': "
                      "111}, 'detail_processing': {'number_of_records': 12, 'record_length': "
                      "112}, 'calibration': {'number_of_records': 13, 'record_length': 113}, "
                      "'gcp': {'number_of_records': 14, 'record_length': 114}, 'spare': '', "
                      "'facility_related_data_1': {'number_of_records': 0, 'record_length': "
                      "1000}, 'facility_related_data_2': {'number_of_records': 1, "
                      "'record_length': 1001}, 'facility_related_data_3': "
                      "{'number_of_records': 2, 'record_length': 1002}, "
                      "'facility_related_data_4': {'number_of_records': 3, 'record_length': "
                      "1003}, 'facility_related_data_5': {'number_of_records': 4, "
                      "'record_length': 1004}, 'number_of_low_resolution_images': 1, "
                      "'low_resolution_image_sizes': [{'record_length': 20, "
                      "'number_of_pixels': 5, 'number_of_lines': 2, "
                      "'number_of_bytes_per_one_sample': 2}], 'blanks': ''}, 'list', "
                      "[('ndarray', '>i2', (5, 2), False, True, [[22978, 8975], [729, -15088], "
                      "[-12595, -30083], [-27838, -31685], [-21282, 20530]])])), [('read', "
                      "(720,), {}, 0), ('read', (), {}, 720)], 740, False)",
 'bytesio:one-int32': "(('returned', ('tuple', 'Container', {'preamble': "
                      "{'record_sequence_number': 1, 'first_record_subtype': 63, "
                      "'record_type': 192, 'second_record_subtype': 18, "
                      "'third_record_subtype': 18, 'record_length': 720}, 'ascii_ebcdic_code': "
                      "'A', 'blanks1': '', 'format_control_document_id': 'CEOS-SAR', "
                      "'format_control_document_revision_number': 'A', "
                      "'record_format_revision_level': 'A', "
                      "'software_release_and_revision_number': '001.001', 'file_number': 3, "
                      "'file_id': 'TRAILER FILE', 'record_sequence_and_location_type_flag': "
                      "'FSEQ', 'sequence_number_of_location': 1, "
                      "'field_length_of_sequence_number': 4, "
                      "'record_code_and_location_type_flag': 'FTYP', "
                      "'location_of_record_code': 5, 'field_length_of_record_code': 4, "
                      "'record_length_and_location_type_flag': 'FLGT', "
                      "'location_of_record_length': 9, 'field_length_of_record_length': 4, "
                      "'dataset_summary': {'number_of_records': 0, 'record_length': 100}, "
                      "'map_projection': {'number_of_records': 1, 'record_length': 101}, "
                      "'platform_position': {'number_of_records': 2, 'record_length': 102}, "
                      "'attitude': {'number_of_records': 3, 'record_length': 103}, "
                      "'radiometric_data': {'number_of_records': 4, 'record_length': 104}, "
                      "'radiometric_compensation': {'number_of_records': 5, 'record_length': "
                      "105}, 'data_quality_summary': {'number_of_records': 6, 'record_length': "
                      "106}, 'data_histogram': {'number_of_records': 7, 'record_length': 107}, "
                      "'range_spectra': {'number_of_records': 8, 'record_length': 108}, "
                      "'dem_descriptor': {'number_of_records': 9, 'record_length': 109}, "
                      "'radar_parameter_update': {'number_of_records': 10, 'record_length': "
                      "110}, 'annotation_data': {'number_of_records': 11, 'record_length': "
                      "111}, 'detail_processing': {'number_of_records': 12, 'record_length': "
                      "112}, 'calibration': {'number_of_records': 13, 'record_length': 113}, "
                      "'gcp': {'number_of_records': 14, 'record_length': 114}, 'spare': '', "
                      "'facility_related_data_1': {'number_of_records': 0, 'record_length': "
                      "1000}, 'facility_related_data_2': {'number_of_records': 1, "
                      "'record_length': 1001}, 'facility_related_data_3': "
                      "{'number_of_records': 2, 'record_length': 1002}, "
                      "'facility_related_data_4': {'number_of_records': 3, 'record_length': "
                      "1003}, 'facility_related_data_5': {'number_of_records': 4, "
                      "'record_length': 1004}, 'number_of_low_resolution_images': 1, "
                      "'low_resolution_image_sizes': [{'record_length': 24, "
                      "'number_of_pixels': 2, 'number_of_lines': 3, "
                      "'number_of_bytes_per_one_sample': 4}], 'blanks': ''}, 'list', "
                      "[('ndarray', '>i4', (2, 3), False, True, [[1505919583, 588245967, "
                      "47830817], [-988758536, -825366344, -1971503703]])])), [('read', "
                      "(720,), {}, 0), ('read', (), {}, 720)], 744, False)",
 'bytesio:one-int64': "(('returned', ('tuple', 'Container', {'preamble': "
                      "{'record_sequence_number': 1, 'first_record_subtype': 63, "
                      "'record_type': 192, 'second_record_subtype': 18, "
                      "'third_record_subtype': 18, 'record_length': 720}, 'ascii_ebcdic_code': "
                      "'A', 'blanks1': '', 'format_control_document_id': 'CEOS-SAR', "
                      "'format_control_document_revision_number': 'A', "
                      "'record_format_revision_level': 'A', "
                      "'software_release_and_revision_number': '001.001', 'file_number': 3, "
                      "'file_id': 'TRAILER FILE', 'record_sequence_and_location_type_flag': "
                      "'FSEQ', 'sequence_number_of_location': 1, "
                      "'field_length_of_sequence_number': 4, "
                      "'record_code_and_location_type_flag': 'FTYP', "
                      "'location_of_record_code': 5, 'field_length_of_record_code': 4, "
                      "'record_length_and_location_type_flag': 'FLGT', "
                      "'location_of_record_length': 9, 'field_length_of_record_length': 4, "
                      "'dataset_summary': {'number_of_records': 0, 'record_length': 100}, "
                      "'map_projection': {'number_of_records': 1, 'record_length': 101}, "
                      "'platform_position': {'number_of_records': 2, 'record_length': 102}, "
                      "'attitude': {'number_of_records': 3, 'record_length': 103}, "
                      "'radiometric_data': {'number_of_records': 4, 'record_length': 104}, "
                      "'radiometric_compensation': {'number_of_records': 5, 'record_length': "
                      "105}, 'data_quality_summary': {'number_of_records': 6, 'record_length': "
                      "106}, 'data_histogram': {'number_of_records': 7, 'record_length': 107}, "
                      "'range_spectra': {'number_of_records': 8, 'record_length': 108}, "
                      "'dem_descriptor': {'number_of_records': 9, 'record_length': 109}, "
                      "'radar_parameter_update': {'number_of_records': 10, 'record_length': "
                      "110}, 'annotation_data': {'number_of_records': 11, 'record_length': "
                      "111}, 'detail_processing': {'number_of_records': 12, 'record_length': "
                      "112}, 'calibration': {'number_of_records': 13, 'record_length': 113}, "
                      "'gcp': {'number_of_records': 14, 'record_length': 114}, 'spare': '', "
                      "'facility_related_data_1': {'number_of_records': 0, 'record_length': "
                      "1000}, 'facility_related_data_2': {'number_of_records': 1, "
                      "'record_length': 1001}, 'facility_related_data_3': "
                      "{'number_of_records': 2, 'record_length': 1002}, "
                      "'facility_related_data_4': {'number_of_records': 3, 'record_length': "
                      "1003}, 'facility_related_data_5': {'number_of_records': 4, "
                      "'record_length': 1004}, 'number_of_low_resolution_images': 1, "
                      "'low_resolution_image_sizes': [{'record_length': 56, "
                      "'number_of_pixels': 1, 'number_of_lines': 7, "
                      "'number_of_bytes_per_one_sample': 8}], 'blanks': ''}, 'list', "
                      "[('ndarray', '>i8', (1, 7), False, True, [[2526497193922298463, "
                      '-4246685573565524191, -8467543927005779784, -8918490974116450275, '
                      '5778815928437199163, 7613996499038379086, 1967082864678646399]])])), '
                      "[('read', (720,), {}, 0), ('read', (), {}, 720)], 776, False)",
 'bytesio:two': "(('returned', ('tuple', 'Container', {'preamble': {'record_sequence_number': "
                "1, 'first_record_subtype': 63, 'record_type': 192, 'second_record_subtype': "
                "18, 'third_record_subtype': 18, 'record_length': 720}, 'ascii_ebcdic_code': "
                "'A', 'blanks1': '', 'format_control_document_id': 'CEOS-SAR', "
                "'format_control_document_revision_number': 'A', "
                "'record_format_revision_level': 'A', 'software_release_and_revision_number': "
                "'001.001', 'file_number': 3, 'file_id': 'TRAILER FILE', "
                "'record_sequence_and_location_type_flag': 'FSEQ', "
                "'sequence_number_of_location': 1, 'field_length_of_sequence_number': 4, "
                "'record_code_and_location_type_flag': 'FTYP', 'location_of_record_code': 5, "
                "'field_length_of_record_code': 4, 'record_length_and_location_type_flag': "
                "'FLGT', 'location_of_record_length': 9, 'field_length_of_record_length': 4, "
                "'dataset_summary': {'number_of_records': 0, 'record_length': 100}, "
                "'map_projection': {'number_of_records': 1, 'record_length': 101}, "
                "'platform_position': {'number_of_records': 2, 'record_length': 102}, "
                "'attitude': {'number_of_records': 3, 'record_length': 103}, "
                "'radiometric_data': {'number_of_records': 4, 'record_length': 104}, "
                "'radiometric_compensation': {'number_of_records': 5, 'record_length': 105}, "
                "'data_quality_summary': {'number_of_records': 6, 'record_length': 106}, "
                "'data_histogram': {'number_of_records': 7, 'record_length': 107}, "
                "'range_spectra': {'number_of_records': 8, 'record_length': 108}, "
                "'dem_descriptor': {'number_of_records': 9, 'record_length': 109}, "
                "'radar_parameter_update': {'number_of_records': 10, 'record_length': 110}, "
                "'annotation_data': {'number_of_records': 11, 'record_length': 111}, "
                "'detail_processing': {'number_of_records': 12, 'record_length': 112}, "
                "'calibration': {'number_of_records': 13, 'record_length': 113}, 'gcp': "
                "{'number_of_records': 14, 'record_length': 114}, 'spare': '', "
                "'facility_related_data_1': {'number_of_records': 0, 'record_length': 1000}, "
                "'facility_related_data_2': {'number_of_records': 1, 'record_length': 1001}, "
                "'facility_related_data_3': {'number_of_records': 2, 'record_length': 1002}, "
                "'facility_related_data_4': {'number_of_records': 3, 'record_length': 1003}, "
                "'facility_related_data_5': {'number_of_records': 4, 'record_length': 1004}, "
                "'number_of_low_resolution_images': 2, 'low_resolution_image_sizes': "
                "[{'record_length': 24, 'number_of_pixels': 4, 'number_of_lines': 3, "
                "'number_of_bytes_per_one_sample': 2}, {'record_length': 16, "
                "'number_of_pixels': 2, 'number_of_lines': 2, "
                "'number_of_bytes_per_one_sample': 4}], 'blanks': ''}, 'list', [('ndarray', "
                "'>i2', (4, 3), False, True, [[22978, 8975, 729], [-15088, -12595, -30083], "
                "[-27838, -31685, -21282], [20530, 9792, 27050]]), ('ndarray', '>i4', (2, 2), "
                'False, True, [[-115153665, 50773491], [1095936102, 1934726843]])])), '
                "[('read', (720,), {}, 0), ('read', (), {}, 720)], 760, False)",
 'bytesio:three-mixed': "(('returned', ('tuple', 'Container', {'preamble': "
                        "{'record_sequence_number': 1, 'first_record_subtype': 63, "
                        "'record_type': 192, 'second_record_subtype': 18, "
                        "'third_record_subtype': 18, 'record_length': 720}, "
                        "'ascii_ebcdic_code': 'A', 'blanks1': '', "
                        "'format_control_document_id': 'CEOS-SAR', "
                        "'format_control_document_revision_number': 'A', "
                        "'record_format_revision_level': 'A', "
                        "'software_release_and_revision_number': '001.001', 'file_number': 3, "
                        "'file_id': 'TRAILER FILE', 'record_sequence_and_location_type_flag': "
                        "'FSEQ', 'sequence_number_of_location': 1, "
                        "'field_length_of_sequence_number': 4, "
                        "'record_code_and_location_type_flag': 'FTYP', "
                        "'location_of_record_code': 5, 'field_length_of_record_code': 4, "
                        "'record_length_and_location_type_flag': 'FLGT', "
                        "'location_of_record_length': 9, 'field_length_of_record_length': 4, "
                        "'dataset_summary': {'number_of_records': 0, 'record_length': 100}, "
                        "'map_projection': {'number_of_records': 1, 'record_length': 101}, "
                        "'platform_position': {'number_of_records': 2, 'record_length': 102}, "
                        "'attitude': {'number_of_records': 3, 'record_length': 103}, "
                        "'radiometric_data': {'number_of_records': 4, 'record_length': 104}, "
                        "'radiometric_compensation': {'number_of_records': 5, 'record_length': "
                        "105}, 'data_quality_summary': {'number_of_records': 6, "
                        "'record_length': 106}, 'data_histogram': {'number_of_records': 7, "
                        "'record_length': 107}, 'range_spectra': {'number_of_records': 8, "
                        "'record_length': 108}, 'dem_descriptor': {'number_of_records': 9, "
                        "'record_length': 109}, 'radar_parameter_update': "
                        "{'number_of_records': 10, 'record_length': 110}, 'annotation_data': "
                        "{'number_of_records': 11, 'record_length': 111}, 'detail_processing': "
                        "{'number_of_records': 12, 'record_length': 112}, 'calibration': "
                        "{'number_of_records': 13, 'record_length': 113}, 'gcp': "
                        "{'number_of_records': 14, 'record_length': 114}, 'spare': '', "
                        "'facility_related_data_1': {'number_of_records': 0, 'record_length': "
                        "1000}, 'facility_related_data_2': {'number_of_records': 1, "
                        "'record_length': 1001}, 'facility_related_data_3': "
                        "{'number_of_records': 2, 'record_length': 1002}, "
                        "'facility_related_data_4': {'number_of_records': 3, 'record_length': "
                        "1003}, 'facility_related_data_5': {'number_of_records': 4, "
                        "'record_length': 1004}, 'number_of_low_resolution_images': 3, "
                        "'low_resolution_image_sizes': [{'record_length': 24, "
                        "'number_of_pixels': 4, 'number_of_lines': 3, "
                        "'number_of_bytes_per_one_sample': 2}, {'record_length': 6, "
                        "'number_of_pixels': 6, 'number_of_lines': 1, "
                        "'number_of_bytes_per_one_sample': 1}, {'record_length': 80, "
                        "'number_of_pixels': 2, 'number_of_lines': 5, "
                        "'number_of_bytes_per_one_sample': 8}], 'blanks': ''}, 'list', "
                        "[('ndarray', '>i2', (4, 3), False, True, [[22978, 8975, 729], "
                        '[-15088, -12595, -30083], [-27838, -31685, -21282], [20530, 9792, '
                        "27050]]), ('ndarray', '|i1', (6, 1), False, True, [[-7], [3], [65], "
                        "[115], [-120], [-92]]), ('ndarray', '>i8', (2, 5), False, True, "
                        '[[-4397479949780690751, -3717182306025508508, 5796441818114535710, '
                        '-7527822175994744835, 1846528784132138197], [4216197543449406569, '
                        '-5757209025285719279, -8206096315913429345, -4151082478982405011, '
                        "2904126534162565579]])])), [('read', (720,), {}, 0), ('read', (), {}, "
                        '720)], 830, False)',
 'bytesio:seven': "(('returned', ('tuple', 'Container', {'preamble': "
                  "{'record_sequence_number': 1, 'first_record_subtype': 63, 'record_type': "
                  "192, 'second_record_subtype': 18, 'third_record_subtype': 18, "
                  "'record_length': 720}, 'ascii_ebcdic_code': 'A', 'blanks1': '', "
                  "'format_control_document_id': 'CEOS-SAR', "
                  "'format_control_document_revision_number': 'A', "
                  "'record_format_revision_level': 'A', "
                  "'software_release_and_revision_number': '001.001', 'file_number': 3, "
                  "'file_id': 'TRAILER FILE', 'record_sequence_and_location_type_flag': "
                  "'FSEQ', 'sequence_number_of_location': 1, "
                  "'field_length_of_sequence_number': 4, 'record_code_and_location_type_flag': "
                  "'FTYP', 'location_of_record_code': 5, 'field_length_of_record_code': 4, "
                  "'record_length_and_location_type_flag': 'FLGT', "
                  "'location_of_record_length': 9, 'field_length_of_record_length': 4, "
                  "'dataset_summary': {'number_of_records': 0, 'record_length': 100}, "
                  "'map_projection': {'number_of_records': 1, 'record_length': 101}, "
                  "'platform_position': {'number_of_records': 2, 'record_length': 102}, "
                  "'attitude': {'number_of_records': 3, 'record_length': 103}, "
                  "'radiometric_data': {'number_of_records': 4, 'record_length': 104}, "
                  "'radiometric_compensation': {'number_of_records': 5, 'record_length': 105}, "
                  "'data_quality_summary': {'number_of_records': 6, 'record_length': 106}, "
                  "'data_histogram': {'number_of_records': 7, 'record_length': 107}, "
                  "'range_spectra': {'number_of_records': 8, 'record_length': 108}, "
                  "'dem_descriptor': {'number_of_records': 9, 'record_length': 109}, "
                  "'radar_parameter_update': {'number_of_records': 10, 'record_length': 110}, "
                  "'annotation_data': {'number_of_records': 11, 'record_length': 111}, "
                  "'detail_processing': {'number_of_records': 12, 'record_length': 112}, "
                  "'calibration': {'number_of_records': 13, 'record_length': 113}, 'gcp': "
                  "{'number_of_records': 14, 'record_length': 114}, 'spare': '', "
                  "'facility_related_data_1': {'number_of_records': 0, 'record_length': 1000}, "
                  "'facility_related_data_2': {'number_of_records': 1, 'record_length': 1001}, "
                  "'facility_related_data_3': {'number_of_records': 2, 'record_length': 1002}, "
                  "'facility_related_data_4': {'number_of_records': 3, 'record_length': 1003}, "
                  "'facility_related_data_5': {'number_of_records': 4, 'record_length': 1004}, "
                  "'number_of_low_resolution_images': 7, 'low_resolution_image_sizes': "
                  "[{'record_length': 4, 'number_of_pixels': 1, 'number_of_lines': 2, "
                  "'number_of_bytes_per_one_sample': 2}, {'record_length': 8, "
                  "'number_of_pixels': 2, 'number_of_lines': 2, "
                  "'number_of_bytes_per_one_sample': 2}, {'record_length': 12, "
                  "'number_of_pixels': 3, 'number_of_lines': 2, "
                  "'number_of_bytes_per_one_sample': 2}, {'record_length': 16, "
                  "'number_of_pixels': 4, 'number_of_lines': 2, "
                  "'number_of_bytes_per_one_sample': 2}, {'record_length': 20, "
                  "'number_of_pixels': 5, 'number_of_lines': 2, "
                  "'number_of_bytes_per_one_sample': 2}, {'record_length': 24, "
                  "'number_of_pixels': 6, 'number_of_lines': 2, "
                  "'number_of_bytes_per_one_sample': 2}, {'record_length': 28, "
                  "'number_of_pixels': 7, 'number_of_lines': 2, "
                  "'number_of_bytes_per_one_sample': 2}], 'blanks': ''}, 'list', [('ndarray', "
                  "'>i2', (1, 2), False, True, [[22978, 8975]]), ('ndarray', '>i2', (2, 2), "
                  "False, True, [[-1758, 774], [16722, 29521]]), ('ndarray', '>i2', (3, 2), "
                  'False, True, [[22123, -15623], [-25605, -13207], [-5649, 20593]]), '
                  "('ndarray', '>i2', (4, 2), False, True, [[20414, -27155], [-21009, -17249], "
                  "[-20883, 19744], [24198, 5384]]), ('ndarray', '>i2', (5, 2), False, True, "
                  '[[14840, 29036], [24995, 742], [28864, 31211], [30820, -27471], [-3046, '
                  "7035]]), ('ndarray', '>i2', (6, 2), False, True, [[11192, 19988], [-31284, "
                  '20181], [-2042, 1004], [8535, -14038], [31426, -29234], [-14554, -7644]]), '
                  "('ndarray', '>i2', (7, 2), False, True, [[-3602, 2501], [1164, -10272], "
                  '[29238, -8581], [10337, -8225], [-3283, 31945], [-20543, 8700], [-4786, '
                  "11424]])])), [('read', (720,), {}, 0), ('read', (), {}, 720)], 832, False)",
 'bytesio:row-and-column': "(('returned', ('tuple', 'Container', {'preamble': "
                           "{'record_sequence_number': 1, 'first_record_subtype': 63, "
                           "'record_type': 192, 'second_record_subtype': 18, "
                           "'third_record_subtype': 18, 'record_length': 720}, "
                           "'ascii_ebcdic_code': 'A', 'blanks1': '', "
                           "'format_control_document_id': 'CEOS-SAR', "
                           "'format_control_document_revision_number': 'A', "
                           "'record_format_revision_level': 'A', "
                           "'software_release_and_revision_number': '001.001', 'file_number': "
                           "3, 'file_id': 'TRAILER FILE', "
                           "'record_sequence_and_location_type_flag': 'FSEQ', "
                           "'sequence_number_of_location': 1, "
                           "'field_length_of_sequence_number': 4, "
                           "'record_code_and_location_type_flag': 'FTYP', "
                           "'location_of_record_code': 5, 'field_length_of_record_code': 4, "
                           "'record_length_and_location_type_flag': 'FLGT', "
                           "'location_of_record_length': 9, 'field_length_of_record_length': "
                           "4, 'dataset_summary': {'number_of_records': 0, 'record_length': "
                           "100}, 'map_projection': {'number_of_records': 1, 'record_length': "
                           "101}, 'platform_position': {'number_of_records': 2, "
                           "'record_length': 102}, 'attitude': {'number_of_records': 3, "
                           "'record_length': 103}, 'radiometric_data': {'number_of_records': "
                           "4, 'record_length': 104}, 'radiometric_compensation': "
                           "{'number_of_records': 5, 'record_length': 105}, "
                           "'data_quality_summary': {'number_of_records': 6, 'record_length': "
                           "106}, 'data_histogram': {'number_of_records': 7, 'record_length': "
                           "107}, 'range_spectra': {'number_of_records': 8, 'record_length': "
                           "108}, 'dem_descriptor': {'number_of_records': 9, 'record_length': "
                           "109}, 'radar_parameter_update': {'number_of_records': 10, "
                           "'record_length': 110}, 'annotation_data': {'number_of_records': "
                           "11, 'record_length': 111}, 'detail_processing': "
                           "{'number_of_records': 12, 'record_length': 112}, 'calibration': "
                           "{'number_of_records': 13, 'record_length': 113}, 'gcp': "
                           "{'number_of_records': 14, 'record_length': 114}, 'spare': '', "
                           "'facility_related_data_1': {'number_of_records': 0, "
                           "'record_length': 1000}, 'facility_related_data_2': "
                           "{'number_of_records': 1, 'record_length': 1001}, "
                           "'facility_related_data_3': {'number_of_records': 2, "
                           "'record_length': 1002}, 'facility_related_data_4': "
                           "{'number_of_records': 3, 'record_length': 1003}, "
                           "'facility_related_data_5': {'number_of_records': 4, "
                           "'record_length': 1004}, 'number_of_low_resolution_images': 2, "
                           "'low_resolution_image_sizes': [{'record_length': 12, "
                           "'number_of_pixels': 1, 'number_of_lines': 6, "
                           "'number_of_bytes_per_one_sample': 2}, {'record_length': 12, "
                           "'number_of_pixels': 6, 'number_of_lines': 1, "
                           "'number_of_bytes_per_one_sample': 2}], 'blanks': ''}, 'list', "
                           "[('ndarray', '>i2', (1, 6), False, True, [[22978, 8975, 729, "
                           "-15088, -12595, -30083]]), ('ndarray', '>i2', (6, 1), False, True, "
                           '[[-1758], [774], [16722], [29521], [-30484], [-23321]])])), '
                           "[('read', (720,), {}, 0), ('read', (), {}, 720)], 744, False)",
 'bytesio:empty-image': "(('returned', ('tuple', 'Container', {'preamble': "
                        "{'record_sequence_number': 1, 'first_record_subtype': 63, "
                        "'record_type': 192, 'second_record_subtype': 18, "
                        "'third_record_subtype': 18, 'record_length': 720}, "
                        "'ascii_ebcdic_code': 'A', 'blanks1': '', "
                        "'format_control_document_id': 'CEOS-SAR', "
                        "'format_control_document_revision_number': 'A', "
                        "'record_format_revision_level': 'A', "
                        "'software_release_and_revision_number': '001.001', 'file_number': 3, "
                        "'file_id': 'TRAILER FILE', 'record_sequence_and_location_type_flag': "
                        "'FSEQ', 'sequence_number_of_location': 1, "
                        "'field_length_of_sequence_number': 4, "
                        "'record_code_and_location_type_flag': 'FTYP', "
                        "'location_of_record_code': 5, 'field_length_of_record_code': 4, "
                        "'record_length_and_location_type_flag': 'FLGT', "
                        "'location_of_record_length': 9, 'field_length_of_record_length': 4, "
                        "'dataset_summary': {'number_of_records': 0, 'record_length': 100}, "
                        "'map_projection': {'number_of_records': 1, 'record_length': 101}, "
                        "'platform_position': {'number_of_records': 2, 'record_length': 102}, "
                        "'attitude': {'number_of_records': 3, 'record_length': 103}, "
                        "'radiometric_data': {'number_of_records': 4, 'record_length': 104}, "
                        "'radiometric_compensation': {'number_of_records': 5, 'record_length': "
                        "105}, 'data_quality_summary': {'number_of_records': 6, "
                        "'record_length': 106}, 'data_histogram': {'number_of_records': 7, "
                        "'record_length': 107}, 'range_spectra': {'number_of_records': 8, "
                        "'record_length': 108}, 'dem_descriptor': {'number_of_records': 9, "
                        "'record_length': 109}, 'radar_parameter_update': "
                        "{'number_of_records': 10, 'record_length': 110}, 'annotation_data': "
                        "{'number_of_records': 11, 'record_length': 111}, 'detail_processing': "
                        "{'number_of_records': 12, 'record_length': 112}, 'calibration': "
                        "{'number_of_records': 13, 'record_length': 113}, 'gcp': "
                        "{'number_of_records': 14, 'record_length': 114}, 'spare': '', "
                        "'facility_related_data_1': {'number_of_records': 0, 'record_length': "
                        "1000}, 'facility_related_data_2': {'number_of_records': 1, "
                        "'record_length': 1001}, 'facility_related_data_3': "
                        "{'number_of_records': 2, 'record_length': 1002}, "
                        "'facility_related_data_4': {'number_of_records': 3, 'record_length': "
                        "1003}, 'facility_related_data_5': {'number_of_records': 4, "
                        "'record_length': 1004}, 'number_of_low_resolution_images': 2, "
                        "'low_resolution_image_sizes': [{'record_length': 0, "
                        "'number_of_pixels': 0, 'number_of_lines': 5, "
                        "'number_of_bytes_per_one_sample': 2}, {'record_length': 8, "
                        "'number_of_pixels': 2, 'number_of_lines': 2, "
                        "'number_of_bytes_per_one_sample': 2}], 'blanks': ''}, 'list', "
                        "[('ndarray', '>i2', (0, 5), False, True, []), ('ndarray', '>i2', (2, "
                        "2), False, True, [[-1758, 774], [16722, 29521]])])), [('read', "
                        "(720,), {}, 0), ('read', (), {}, 720)], 728, False)",
 'bytesio:empty-image-last': "(('returned', ('tuple', 'Container', {'preamble': "
                             "{'record_sequence_number': 1, 'first_record_subtype': 63, "
                             "'record_type': 192, 'second_record_subtype': 18, "
                             "'third_record_subtype': 18, 'record_length': 720}, "
                             "'ascii_ebcdic_code': 'A', 'blanks1': '', "
                             "'format_control_document_id': 'CEOS-SAR', "
                             "'format_control_document_revision_number': 'A', "
                             "'record_format_revision_level': 'A', "
                             "'software_release_and_revision_number': '001.001', "
                             "'file_number': 3, 'file_id': 'TRAILER FILE', "
                             "'record_sequence_and_location_type_flag': 'FSEQ', "
                             "'sequence_number_of_location': 1, "
                             "'field_length_of_sequence_number': 4, "
                             "'record_code_and_location_type_flag': 'FTYP', "
                             "'location_of_record_code': 5, 'field_length_of_record_code': 4, "
                             "'record_length_and_location_type_flag': 'FLGT', "
                             "'location_of_record_length': 9, 'field_length_of_record_length': "
                             "4, 'dataset_summary': {'number_of_records': 0, 'record_length': "
                             "100}, 'map_projection': {'number_of_records': 1, "
                             "'record_length': 101}, 'platform_position': "
                             "{'number_of_records': 2, 'record_length': 102}, 'attitude': "
                             "{'number_of_records': 3, 'record_length': 103}, "
                             "'radiometric_data': {'number_of_records': 4, 'record_length': "
                             "104}, 'radiometric_compensation': {'number_of_records': 5, "
                             "'record_length': 105}, 'data_quality_summary': "
                             "{'number_of_records': 6, 'record_length': 106}, "
                             "'data_histogram': {'number_of_records': 7, 'record_length': "
                             "107}, 'range_spectra': {'number_of_records': 8, 'record_length': "
                             "108}, 'dem_descriptor': {'number_of_records': 9, "
                             "'record_length': 109}, 'radar_parameter_update': "
                             "{'number_of_records': 10, 'record_length': 110}, "
                             "'annotation_data': {'number_of_records': 11, 'record_length': "
                             "111}, 'detail_processing': {'number_of_records': 12, "
                             "'record_length': 112}, 'calibration': {'number_of_records': 13, "
                             "'record_length': 113}, 'gcp': {'number_of_records': 14, "
                             "'record_length': 114}, 'spare': '', 'facility_related_data_1': "
                             "{'number_of_records': 0, 'record_length': 1000}, "
                             "'facility_related_data_2': {'number_of_records': 1, "
                             "'record_length': 1001}, 'facility_related_data_3': "
                             "{'number_of_records': 2, 'record_length': 1002}, "
                             "'facility_related_data_4': {'number_of_records': 3, "
                             "'record_length': 1003}, 'facility_related_data_5': "
                             "{'number_of_records': 4, 'record_length': 1004}, "
                             "'number_of_low_resolution_images': 2, "
                             "'low_resolution_image_sizes': [{'record_length': 8, "
                             "'number_of_pixels': 2, 'number_of_lines': 2, "
                             "'number_of_bytes_per_one_sample': 2}, {'record_length': 0, "
                             "'number_of_pixels': 3, 'number_of_lines': 0, "
                             "'number_of_bytes_per_one_sample': 4}], 'blanks': ''}, 'list', "
                             "[('ndarray', '>i2', (2, 2), False, True, [[22978, 8975], [729, "
                             "-15088]]), ('ndarray', '>i4', (3, 0), False, True, [[], [], "
                             "[]])])), [('read', (720,), {}, 0), ('read', (), {}, 720)], 728, "
                             'False)',
 'bytesio:trailing-bytes': "(('returned', ('tuple', 'Container', {'preamble': "
                           "{'record_sequence_number': 1, 'first_record_subtype': 63, "
                           "'record_type': 192, 'second_record_subtype': 18, "
                           "'third_record_subtype': 18, 'record_length': 720}, "
                           "'ascii_ebcdic_code': 'A', 'blanks1': '', "
                           "'format_control_document_id': 'CEOS-SAR', "
                           "'format_control_document_revision_number': 'A', "
                           "'record_format_revision_level': 'A', "
                           "'software_release_and_revision_number': '001.001', 'file_number': "
                           "3, 'file_id': 'TRAILER FILE', "
                           "'record_sequence_and_location_type_flag': 'FSEQ', "
                           "'sequence_number_of_location': 1, "
                           "'field_length_of_sequence_number': 4, "
                           "'record_code_and_location_type_flag': 'FTYP', "
                           "'location_of_record_code': 5, 'field_length_of_record_code': 4, "
                           "'record_length_and_location_type_flag': 'FLGT', "
                           "'location_of_record_length': 9, 'field_length_of_record_length': "
                           "4, 'dataset_summary': {'number_of_records': 0, 'record_length': "
                           "100}, 'map_projection': {'number_of_records': 1, 'record_length': "
                           "101}, 'platform_position': {'number_of_records': 2, "
                           "'record_length': 102}, 'attitude': {'number_of_records': 3, "
                           "'record_length': 103}, 'radiometric_data': {'number_of_records': "
                           "4, 'record_length': 104}, 'radiometric_compensation': "
                           "{'number_of_records': 5, 'record_length': 105}, "
                           "'data_quality_summary': {'number_of_records': 6, 'record_length': "
                           "106}, 'data_histogram': {'number_of_records': 7, 'record_length': "
                           "107}, 'range_spectra': {'number_of_records': 8, 'record_length': "
                           "108}, 'dem_descriptor': {'number_of_records': 9, 'record_length': "
                           "109}, 'radar_parameter_update': {'number_of_records': 10, "
                           "'record_length': 110}, 'annotation_data': {'number_of_records': "
                           "11, 'record_length': 111}, 'detail_processing': "
                           "{'number_of_records': 12, 'record_length': 112}, 'calibration': "
                           "{'number_of_records': 13, 'record_length': 113}, 'gcp': "
                           "{'number_of_records': 14, 'record_length': 114}, 'spare': '', "
                           "'facility_related_data_1': {'number_of_records': 0, "
                           "'record_length': 1000}, 'facility_related_data_2': "
                           "{'number_of_records': 1, 'record_length': 1001}, "
                           "'facility_related_data_3': {'number_of_records': 2, "
                           "'record_length': 1002}, 'facility_related_data_4': "
                           "{'number_of_records': 3, 'record_length': 1003}, "
                           "'facility_related_data_5': {'number_of_records': 4, "
                           "'record_length': 1004}, 'number_of_low_resolution_images': 2, "
                           "'low_resolution_image_sizes': [{'record_length': 8, "
                           "'number_of_pixels': 2, 'number_of_lines': 2, "
                           "'number_of_bytes_per_one_sample': 2}, {'record_length': 3, "
                           "'number_of_pixels': 1, 'number_of_lines': 3, "
                           "'number_of_bytes_per_one_sample': 1}], 'blanks': ''}, 'list', "
                           "[('ndarray', '>i2', (2, 2), False, True, [[22978, 8975], [729, "
                           "-15088]]), ('ndarray', '|i1', (1, 3), False, True, [[-7, 3, "
                           "65]])])), [('read', (720,), {}, 0), ('read', (), {}, 720)], 742, "
                           'False)',
 'bytesio:record-longer': "(('raised', ('ValueError', 'cannot reshape array of size 8 into "
                          "shape (2,2)', None, False)), [('read', (720,), {}, 0), ('read', (), "
                          '{}, 720)], 736, False)',
 'bytesio:record-shorter': "(('raised', ('ValueError', 'cannot reshape array of size 3 into "
                           "shape (2,2)', None, False)), [('read', (720,), {}, 0), ('read', "
                           '(), {}, 720)], 736, False)',
 'bytesio:record-odd': "(('raised', ('ValueError', 'buffer size must be a multiple of element "
                       "size', None, False)), [('read', (720,), {}, 0), ('read', (), {}, "
                       '720)], 736, False)',
 'bytesio:second-record-shifted': "(('raised', ('ValueError', 'buffer size must be a multiple "
                                  "of element size', None, False)), [('read', (720,), {}, 0), "
                                  "('read', (), {}, 720)], 752, False)",
 'bytesio:first-fails-second-fine': "(('raised', ('ValueError', 'buffer size must be a "
                                    "multiple of element size', None, False)), [('read', "
                                    "(720,), {}, 0), ('read', (), {}, 720)], 738, False)",
 'bytesio:second-fails': "(('raised', ('ValueError', 'cannot reshape array of size 4 into "
                         "shape (2,3)', None, False)), [('read', (720,), {}, 0), ('read', (), "
                         '{}, 720)], 736, False)',
 'bytesio:data-missing': "(('raised', ('ValueError', 'cannot reshape array of size 0 into "
                         "shape (4,3)', None, False)), [('read', (720,), {}, 0), ('read', (), "
                         '{}, 720)], 720, False)',
 'bytesio:data-short-aligned': "(('raised', ('ValueError', 'cannot reshape array of size 10 "
                               "into shape (4,3)', None, False)), [('read', (720,), {}, 0), "
                               "('read', (), {}, 720)], 740, False)",
 'bytesio:data-short-odd': "(('raised', ('ValueError', 'buffer size must be a multiple of "
                           "element size', None, False)), [('read', (720,), {}, 0), ('read', "
                           '(), {}, 720)], 741, False)',
 'bytesio:second-image-missing': "(('raised', ('ValueError', 'cannot reshape array of size 0 "
                                 "into shape (2,2)', None, False)), [('read', (720,), {}, 0), "
                                 "('read', (), {}, 720)], 728, False)",
 'bytesio:sample-size-3': '((\'raised\', (\'TypeError\', "data type \'>i3\' not understood", '
                          "None, False)), [('read', (720,), {}, 0), ('read', (), {}, 720)], "
                          '732, False)',
 'bytesio:sample-size-0': '((\'raised\', (\'TypeError\', "data type \'>i0\' not understood", '
                          "None, False)), [('read', (720,), {}, 0), ('read', (), {}, 720)], "
                          '732, False)',
 'bytesio:sample-size-16': '((\'raised\', (\'TypeError\', "data type \'>i16\' not understood", '
                           "None, False)), [('read', (720,), {}, 0), ('read', (), {}, 720)], "
                           '752, False)',
 'bytesio:sample-size-blank': '((\'raised\', (\'TypeError\', "data type \'>i-1\' not '
                              'understood", None, False)), [(\'read\', (720,), {}, 0), '
                              "('read', (), {}, 720)], 732, False)",
 'bytesio:pixels-blank': "(('returned', ('tuple', 'Container', {'preamble': "
                         "{'record_sequence_number': 1, 'first_record_subtype': 63, "
                         "'record_type': 192, 'second_record_subtype': 18, "
                         "'third_record_subtype': 18, 'record_length': 720}, "
                         "'ascii_ebcdic_code': 'A', 'blanks1': '', "
                         "'format_control_document_id': 'CEOS-SAR', "
                         "'format_control_document_revision_number': 'A', "
                         "'record_format_revision_level': 'A', "
                         "'software_release_and_revision_number': '001.001', 'file_number': 3, "
                         "'file_id': 'TRAILER FILE', 'record_sequence_and_location_type_flag': "
                         "'FSEQ', 'sequence_number_of_location': 1, "
                         "'field_length_of_sequence_number': 4, "
                         "'record_code_and_location_type_flag': 'FTYP', "
                         "'location_of_record_code': 5, 'field_length_of_record_code': 4, "
                         "'record_length_and_location_type_flag': 'FLGT', "
                         "'location_of_record_length': 9, 'field_length_of_record_length': 4, "
                         "'dataset_summary': {'number_of_records': 0, 'record_length': 100}, "
                         "'map_projection': {'number_of_records': 1, 'record_length': 101}, "
                         "'platform_position': {'number_of_records': 2, 'record_length': 102}, "
                         "'attitude': {'number_of_records': 3, 'record_length': 103}, "
                         "'radiometric_data': {'number_of_records': 4, 'record_length': 104}, "
                         "'radiometric_compensation': {'number_of_records': 5, "
                         "'record_length': 105}, 'data_quality_summary': {'number_of_records': "
                         "6, 'record_length': 106}, 'data_histogram': {'number_of_records': 7, "
                         "'record_length': 107}, 'range_spectra': {'number_of_records': 8, "
                         "'record_length': 108}, 'dem_descriptor': {'number_of_records': 9, "
                         "'record_length': 109}, 'radar_parameter_update': "
                         "{'number_of_records': 10, 'record_length': 110}, 'annotation_data': "
                         "{'number_of_records': 11, 'record_length': 111}, "
                         "'detail_processing': {'number_of_records': 12, 'record_length': "
                         "112}, 'calibration': {'number_of_records': 13, 'record_length': "
                         "113}, 'gcp': {'number_of_records': 14, 'record_length': 114}, "
                         "'spare': '', 'facility_related_data_1': {'number_of_records': 0, "
                         "'record_length': 1000}, 'facility_related_data_2': "
                         "{'number_of_records': 1, 'record_length': 1001}, "
                         "'facility_related_data_3': {'number_of_records': 2, 'record_length': "
                         "1002}, 'facility_related_data_4': {'number_of_records': 3, "
                         "'record_length': 1003}, 'facility_related_data_5': "
                         "{'number_of_records': 4, 'record_length': 1004}, "
                         "'number_of_low_resolution_images': 1, 'low_resolution_image_sizes': "
                         "[{'record_length': 8, 'number_of_pixels': -1, 'number_of_lines': 4, "
                         "'number_of_bytes_per_one_sample': 2}], 'blanks': ''}, 'list', "
                         "[('ndarray', '>i2', (1, 4), False, True, [[22978, 8975, 729, "
                         "-15088]])])), [('read', (720,), {}, 0), ('read', (), {}, 720)], 728, "
                         'False)',
 'bytesio:pixels-and-lines-blank': "(('raised', ('ValueError', 'can only specify one unknown "
                                   "dimension', None, False)), [('read', (720,), {}, 0), "
                                   "('read', (), {}, 720)], 728, False)",
 'bytesio:lines-blank': "(('returned', ('tuple', 'Container', {'preamble': "
                        "{'record_sequence_number': 1, 'first_record_subtype': 63, "
                        "'record_type': 192, 'second_record_subtype': 18, "
                        "'third_record_subtype': 18, 'record_length': 720}, "
                        "'ascii_ebcdic_code': 'A', 'blanks1': '', "
                        "'format_control_document_id': 'CEOS-SAR', "
                        "'format_control_document_revision_number': 'A', "
                        "'record_format_revision_level': 'A', "
                        "'software_release_and_revision_number': '001.001', 'file_number': 3, "
                        "'file_id': 'TRAILER FILE', 'record_sequence_and_location_type_flag': "
                        "'FSEQ', 'sequence_number_of_location': 1, "
                        "'field_length_of_sequence_number': 4, "
                        "'record_code_and_location_type_flag': 'FTYP', "
                        "'location_of_record_code': 5, 'field_length_of_record_code': 4, "
                        "'record_length_and_location_type_flag': 'FLGT', "
                        "'location_of_record_length': 9, 'field_length_of_record_length': 4, "
                        "'dataset_summary': {'number_of_records': 0, 'record_length': 100}, "
                        "'map_projection': {'number_of_records': 1, 'record_length': 101}, "
                        "'platform_position': {'number_of_records': 2, 'record_length': 102}, "
                        "'attitude': {'number_of_records': 3, 'record_length': 103}, "
                        "'radiometric_data': {'number_of_records': 4, 'record_length': 104}, "
                        "'radiometric_compensation': {'number_of_records': 5, 'record_length': "
                        "105}, 'data_quality_summary': {'number_of_records': 6, "
                        "'record_length': 106}, 'data_histogram': {'number_of_records': 7, "
                        "'record_length': 107}, 'range_spectra': {'number_of_records': 8, "
                        "'record_length': 108}, 'dem_descriptor': {'number_of_records': 9, "
                        "'record_length': 109}, 'radar_parameter_update': "
                        "{'number_of_records': 10, 'record_length': 110}, 'annotation_data': "
                        "{'number_of_records': 11, 'record_length': 111}, 'detail_processing': "
                        "{'number_of_records': 12, 'record_length': 112}, 'calibration': "
                        "{'number_of_records': 13, 'record_length': 113}, 'gcp': "
                        "{'number_of_records': 14, 'record_length': 114}, 'spare': '', "
                        "'facility_related_data_1': {'number_of_records': 0, 'record_length': "
                        "1000}, 'facility_related_data_2': {'number_of_records': 1, "
                        "'record_length': 1001}, 'facility_related_data_3': "
                        "{'number_of_records': 2, 'record_length': 1002}, "
                        "'facility_related_data_4': {'number_of_records': 3, 'record_length': "
                        "1003}, 'facility_related_data_5': {'number_of_records': 4, "
                        "'record_length': 1004}, 'number_of_low_resolution_images': 1, "
                        "'low_resolution_image_sizes': [{'record_length': 8, "
                        "'number_of_pixels': 4, 'number_of_lines': -1, "
                        "'number_of_bytes_per_one_sample': 2}], 'blanks': ''}, 'list', "
                        "[('ndarray', '>i2', (4, 1), False, True, [[22978], [8975], [729], "
                        "[-15088]])])), [('read', (720,), {}, 0), ('read', (), {}, 720)], 728, "
                        'False)',
 'bytesio:lines-blank-mismatch': "(('raised', ('ValueError', 'cannot reshape array of size 4 "
                                 "into shape (3,newaxis)', None, False)), [('read', (720,), "
                                 "{}, 0), ('read', (), {}, 720)], 728, False)",
 'bytesio:length-blank': "(('raised', ('ValueError', 'buffer size must be a multiple of "
                         "element size', None, False)), [('read', (720,), {}, 0), ('read', (), "
                         '{}, 720)], 728, False)',
 'bytesio:length-blank-then-image': "(('raised', ('ValueError', 'buffer size must be a "
                                    "multiple of element size', None, False)), [('read', "
                                    "(720,), {}, 0), ('read', (), {}, 720)], 736, False)",
 'bytesio:length-blank-second': "(('returned', ('tuple', 'Container', {'preamble': "
                                "{'record_sequence_number': 1, 'first_record_subtype': 63, "
                                "'record_type': 192, 'second_record_subtype': 18, "
                                "'third_record_subtype': 18, 'record_length': 720}, "
                                "'ascii_ebcdic_code': 'A', 'blanks1': '', "
                                "'format_control_document_id': 'CEOS-SAR', "
                                "'format_control_document_revision_number': 'A', "
                                "'record_format_revision_level': 'A', "
                                "'software_release_and_revision_number': '001.001', "
                                "'file_number': 3, 'file_id': 'TRAILER FILE', "
                                "'record_sequence_and_location_type_flag': 'FSEQ', "
                                "'sequence_number_of_location': 1, "
                                "'field_length_of_sequence_number': 4, "
                                "'record_code_and_location_type_flag': 'FTYP', "
                                "'location_of_record_code': 5, 'field_length_of_record_code': "
                                "4, 'record_length_and_location_type_flag': 'FLGT', "
                                "'location_of_record_length': 9, "
                                "'field_length_of_record_length': 4, 'dataset_summary': "
                                "{'number_of_records': 0, 'record_length': 100}, "
                                "'map_projection': {'number_of_records': 1, 'record_length': "
                                "101}, 'platform_position': {'number_of_records': 2, "
                                "'record_length': 102}, 'attitude': {'number_of_records': 3, "
                                "'record_length': 103}, 'radiometric_data': "
                                "{'number_of_records': 4, 'record_length': 104}, "
                                "'radiometric_compensation': {'number_of_records': 5, "
                                "'record_length': 105}, 'data_quality_summary': "
                                "{'number_of_records': 6, 'record_length': 106}, "
                                "'data_histogram': {'number_of_records': 7, 'record_length': "
                                "107}, 'range_spectra': {'number_of_records': 8, "
                                "'record_length': 108}, 'dem_descriptor': "
                                "{'number_of_records': 9, 'record_length': 109}, "
                                "'radar_parameter_update': {'number_of_records': 10, "
                                "'record_length': 110}, 'annotation_data': "
                                "{'number_of_records': 11, 'record_length': 111}, "
                                "'detail_processing': {'number_of_records': 12, "
                                "'record_length': 112}, 'calibration': {'number_of_records': "
                                "13, 'record_length': 113}, 'gcp': {'number_of_records': 14, "
                                "'record_length': 114}, 'spare': '', "
                                "'facility_related_data_1': {'number_of_records': 0, "
                                "'record_length': 1000}, 'facility_related_data_2': "
                                "{'number_of_records': 1, 'record_length': 1001}, "
                                "'facility_related_data_3': {'number_of_records': 2, "
                                "'record_length': 1002}, 'facility_related_data_4': "
                                "{'number_of_records': 3, 'record_length': 1003}, "
                                "'facility_related_data_5': {'number_of_records': 4, "
                                "'record_length': 1004}, 'number_of_low_resolution_images': 2, "
                                "'low_resolution_image_sizes': [{'record_length': 8, "
                                "'number_of_pixels': 2, 'number_of_lines': 2, "
                                "'number_of_bytes_per_one_sample': 2}, {'record_length': -1, "
                                "'number_of_pixels': 7, 'number_of_lines': 0, "
                                "'number_of_bytes_per_one_sample': 1}], 'blanks': ''}, 'list', "
                                "[('ndarray', '>i2', (2, 2), False, True, [[22978, 8975], "
                                "[729, -15088]]), ('ndarray', '|i1', (7, 0), False, True, [[], "
                                "[], [], [], [], [], []])])), [('read', (720,), {}, 0), "
                                "('read', (), {}, 720)], 731, False)",
 'bytesio:length-zero': "(('raised', ('ValueError', 'cannot reshape array of size 0 into shape "
                        "(2,2)', None, False)), [('read', (720,), {}, 0), ('read', (), {}, "
                        '720)], 728, False)',
 'bytesio:length-zero-empty-shape': "(('returned', ('tuple', 'Container', {'preamble': "
                                    "{'record_sequence_number': 1, 'first_record_subtype': 63, "
                                    "'record_type': 192, 'second_record_subtype': 18, "
                                    "'third_record_subtype': 18, 'record_length': 720}, "
                                    "'ascii_ebcdic_code': 'A', 'blanks1': '', "
                                    "'format_control_document_id': 'CEOS-SAR', "
                                    "'format_control_document_revision_number': 'A', "
                                    "'record_format_revision_level': 'A', "
                                    "'software_release_and_revision_number': '001.001', "
                                    "'file_number': 3, 'file_id': 'TRAILER FILE', "
                                    "'record_sequence_and_location_type_flag': 'FSEQ', "
                                    "'sequence_number_of_location': 1, "
                                    "'field_length_of_sequence_number': 4, "
                                    "'record_code_and_location_type_flag': 'FTYP', "
                                    "'location_of_record_code': 5, "
                                    "'field_length_of_record_code': 4, "
                                    "'record_length_and_location_type_flag': 'FLGT', "
                                    "'location_of_record_length': 9, "
                                    "'field_length_of_record_length': 4, 'dataset_summary': "
                                    "{'number_of_records': 0, 'record_length': 100}, "
                                    "'map_projection': {'number_of_records': 1, "
                                    "'record_length': 101}, 'platform_position': "
                                    "{'number_of_records': 2, 'record_length': 102}, "
                                    "'attitude': {'number_of_records': 3, 'record_length': "
                                    "103}, 'radiometric_data': {'number_of_records': 4, "
                                    "'record_length': 104}, 'radiometric_compensation': "
                                    "{'number_of_records': 5, 'record_length': 105}, "
                                    "'data_quality_summary': {'number_of_records': 6, "
                                    "'record_length': 106}, 'data_histogram': "
                                    "{'number_of_records': 7, 'record_length': 107}, "
                                    "'range_spectra': {'number_of_records': 8, "
                                    "'record_length': 108}, 'dem_descriptor': "
                                    "{'number_of_records': 9, 'record_length': 109}, "
                                    "'radar_parameter_update': {'number_of_records': 10, "
                                    "'record_length': 110}, 'annotation_data': "
                                    "{'number_of_records': 11, 'record_length': 111}, "
                                    "'detail_processing': {'number_of_records': 12, "
                                    "'record_length': 112}, 'calibration': "
                                    "{'number_of_records': 13, 'record_length': 113}, 'gcp': "
                                    "{'number_of_records': 14, 'record_length': 114}, 'spare': "
                                    "'', 'facility_related_data_1': {'number_of_records': 0, "
                                    "'record_length': 1000}, 'facility_related_data_2': "
                                    "{'number_of_records': 1, 'record_length': 1001}, "
                                    "'facility_related_data_3': {'number_of_records': 2, "
                                    "'record_length': 1002}, 'facility_related_data_4': "
                                    "{'number_of_records': 3, 'record_length': 1003}, "
                                    "'facility_related_data_5': {'number_of_records': 4, "
                                    "'record_length': 1004}, "
                                    "'number_of_low_resolution_images': 1, "
                                    "'low_resolution_image_sizes': [{'record_length': 0, "
                                    "'number_of_pixels': 0, 'number_of_lines': 2, "
                                    "'number_of_bytes_per_one_sample': 2}], 'blanks': ''}, "
                                    "'list', [('ndarray', '>i2', (0, 2), False, True, [])])), "
                                    "[('read', (720,), {}, 0), ('read', (), {}, 720)], 728, "
                                    'False)',
 'bytesio:length-huge': "(('returned', ('tuple', 'Container', {'preamble': "
                        "{'record_sequence_number': 1, 'first_record_subtype': 63, "
                        "'record_type': 192, 'second_record_subtype': 18, "
                        "'third_record_subtype': 18, 'record_length': 720}, "
                        "'ascii_ebcdic_code': 'A', 'blanks1': '', "
                        "'format_control_document_id': 'CEOS-SAR', "
                        "'format_control_document_revision_number': 'A', "
                        "'record_format_revision_level': 'A', "
                        "'software_release_and_revision_number': '001.001', 'file_number': 3, "
                        "'file_id': 'TRAILER FILE', 'record_sequence_and_location_type_flag': "
                        "'FSEQ', 'sequence_number_of_location': 1, "
                        "'field_length_of_sequence_number': 4, "
                        "'record_code_and_location_type_flag': 'FTYP', "
                        "'location_of_record_code': 5, 'field_length_of_record_code': 4, "
                        "'record_length_and_location_type_flag': 'FLGT', "
                        "'location_of_record_length': 9, 'field_length_of_record_length': 4, "
                        "'dataset_summary': {'number_of_records': 0, 'record_length': 100}, "
                        "'map_projection': {'number_of_records': 1, 'record_length': 101}, "
                        "'platform_position': {'number_of_records': 2, 'record_length': 102}, "
                        "'attitude': {'number_of_records': 3, 'record_length': 103}, "
                        "'radiometric_data': {'number_of_records': 4, 'record_length': 104}, "
                        "'radiometric_compensation': {'number_of_records': 5, 'record_length': "
                        "105}, 'data_quality_summary': {'number_of_records': 6, "
                        "'record_length': 106}, 'data_histogram': {'number_of_records': 7, "
                        "'record_length': 107}, 'range_spectra': {'number_of_records': 8, "
                        "'record_length': 108}, 'dem_descriptor': {'number_of_records': 9, "
                        "'record_length': 109}, 'radar_parameter_update': "
                        "{'number_of_records': 10, 'record_length': 110}, 'annotation_data': "
                        "{'number_of_records': 11, 'record_length': 111}, 'detail_processing': "
                        "{'number_of_records': 12, 'record_length': 112}, 'calibration': "
                        "{'number_of_records': 13, 'record_length': 113}, 'gcp': "
                        "{'number_of_records': 14, 'record_length': 114}, 'spare': '', "
                        "'facility_related_data_1': {'number_of_records': 0, 'record_length': "
                        "1000}, 'facility_related_data_2': {'number_of_records': 1, "
                        "'record_length': 1001}, 'facility_related_data_3': "
                        "{'number_of_records': 2, 'record_length': 1002}, "
                        "'facility_related_data_4': {'number_of_records': 3, 'record_length': "
                        "1003}, 'facility_related_data_5': {'number_of_records': 4, "
                        "'record_length': 1004}, 'number_of_low_resolution_images': 1, "
                        "'low_resolution_image_sizes': [{'record_length': 99999999, "
                        "'number_of_pixels': 2, 'number_of_lines': 2, "
                        "'number_of_bytes_per_one_sample': 2}], 'blanks': ''}, 'list', "
                        "[('ndarray', '>i2', (2, 2), False, True, [[22978, 8975], [729, "
                        "-15088]])])), [('read', (720,), {}, 0), ('read', (), {}, 720)], 728, "
                        'False)',
 'bytesio:count-smaller': "(('returned', ('tuple', 'Container', {'preamble': "
                          "{'record_sequence_number': 1, 'first_record_subtype': 63, "
                          "'record_type': 192, 'second_record_subtype': 18, "
                          "'third_record_subtype': 18, 'record_length': 720}, "
                          "'ascii_ebcdic_code': 'A', 'blanks1': '', "
                          "'format_control_document_id': 'CEOS-SAR', "
                          "'format_control_document_revision_number': 'A', "
                          "'record_format_revision_level': 'A', "
                          "'software_release_and_revision_number': '001.001', 'file_number': "
                          "3, 'file_id': 'TRAILER FILE', "
                          "'record_sequence_and_location_type_flag': 'FSEQ', "
                          "'sequence_number_of_location': 1, "
                          "'field_length_of_sequence_number': 4, "
                          "'record_code_and_location_type_flag': 'FTYP', "
                          "'location_of_record_code': 5, 'field_length_of_record_code': 4, "
                          "'record_length_and_location_type_flag': 'FLGT', "
                          "'location_of_record_length': 9, 'field_length_of_record_length': 4, "
                          "'dataset_summary': {'number_of_records': 0, 'record_length': 100}, "
                          "'map_projection': {'number_of_records': 1, 'record_length': 101}, "
                          "'platform_position': {'number_of_records': 2, 'record_length': "
                          "102}, 'attitude': {'number_of_records': 3, 'record_length': 103}, "
                          "'radiometric_data': {'number_of_records': 4, 'record_length': 104}, "
                          "'radiometric_compensation': {'number_of_records': 5, "
                          "'record_length': 105}, 'data_quality_summary': "
                          "{'number_of_records': 6, 'record_length': 106}, 'data_histogram': "
                          "{'number_of_records': 7, 'record_length': 107}, 'range_spectra': "
                          "{'number_of_records': 8, 'record_length': 108}, 'dem_descriptor': "
                          "{'number_of_records': 9, 'record_length': 109}, "
                          "'radar_parameter_update': {'number_of_records': 10, "
                          "'record_length': 110}, 'annotation_data': {'number_of_records': 11, "
                          "'record_length': 111}, 'detail_processing': {'number_of_records': "
                          "12, 'record_length': 112}, 'calibration': {'number_of_records': 13, "
                          "'record_length': 113}, 'gcp': {'number_of_records': 14, "
                          "'record_length': 114}, 'spare': '', 'facility_related_data_1': "
                          "{'number_of_records': 0, 'record_length': 1000}, "
                          "'facility_related_data_2': {'number_of_records': 1, "
                          "'record_length': 1001}, 'facility_related_data_3': "
                          "{'number_of_records': 2, 'record_length': 1002}, "
                          "'facility_related_data_4': {'number_of_records': 3, "
                          "'record_length': 1003}, 'facility_related_data_5': "
                          "{'number_of_records': 4, 'record_length': 1004}, "
                          "'number_of_low_resolution_images': 1, 'low_resolution_image_sizes': "
                          "[{'record_length': 8, 'number_of_pixels': 2, 'number_of_lines': 2, "
                          "'number_of_bytes_per_one_sample': 2}], 'blanks': '8     2     2     "
                          "2'}, 'list', [('ndarray', '>i2', (2, 2), False, True, [[22978, "
                          "8975], [729, -15088]])])), [('read', (720,), {}, 0), ('read', (), "
                          '{}, 720)], 736, False)',
 'bytesio:count-larger': '((\'raised\', (\'TypeError\', "data type \'>i-1\' not understood", '
                         "None, False)), [('read', (720,), {}, 0), ('read', (), {}, 720)], "
                         '728, False)',
 'bytesio:count-blank': "(('raised', ('RangeError', 'Error in path (parsing) -> "
                        "low_resolution_image_sizes\\ninvalid count -1', None, False)), "
                        "[('read', (720,), {}, 0)], 720, False)",
 'bytesio:count-eight': "(('raised', ('PaddingError', 'Error in path (parsing) -> "
                        "blanks\\nlength cannot be negative', None, False)), [('read', (720,), "
                        '{}, 0)], 720, False)',
 'bytesio:count-text': '((\'raised\', (\'ValueError\', "invalid literal for int() with base '
                       '10: \'many\'", None, False)), [(\'read\', (720,), {}, 0)], 720, False)',
 'bytesio:empty': "(('raised', ('StreamError', 'Error in path (parsing) -> preamble -> "
                  'record_sequence_number\\nstream read less than specified amount, expected '
                  "4, found 0', None, False)), [('read', (720,), {}, 0)], 0, False)",
 'bytesio:short-header': "(('raised', ('StreamError', 'Error in path (parsing) -> "
                         'spare\\nstream read less than specified amount, expected 60, found '
                         "40', None, False)), [('read', (720,), {}, 0)], 400, False)",
 'bytesio:short-header-with-images': "(('raised', ('StreamError', 'Error in path (parsing) -> "
                                     'blanks\\nstream read less than specified amount, '
                                     "expected 172, found 0', None, False)), [('read', (720,), "
                                     '{}, 0)], 522, False)',
 'bytesio:header-only': "(('raised', ('ValueError', 'cannot reshape array of size 0 into shape "
                        "(2,2)', None, False)), [('read', (720,), {}, 0), ('read', (), {}, "
                        '720)], 720, False)',
 'bytesio:garbage': '((\'raised\', (\'ValueError\', "invalid literal for int() with base 10: '
                    '\',-./\'", None, False)), [(\'read\', (720,), {}, 0)], 720, False)',
 'offset:two': "(('returned', ('tuple', 'Container', {'preamble': {'record_sequence_number': "
               "1, 'first_record_subtype': 63, 'record_type': 192, 'second_record_subtype': "
               "18, 'third_record_subtype': 18, 'record_length': 720}, 'ascii_ebcdic_code': "
               "'A', 'blanks1': '', 'format_control_document_id': 'CEOS-SAR', "
               "'format_control_document_revision_number': 'A', "
               "'record_format_revision_level': 'A', 'software_release_and_revision_number': "
               "'001.001', 'file_number': 3, 'file_id': 'TRAILER FILE', "
               "'record_sequence_and_location_type_flag': 'FSEQ', "
               "'sequence_number_of_location': 1, 'field_length_of_sequence_number': 4, "
               "'record_code_and_location_type_flag': 'FTYP', 'location_of_record_code': 5, "
               "'field_length_of_record_code': 4, 'record_length_and_location_type_flag': "
               "'FLGT', 'location_of_record_length': 9, 'field_length_of_record_length': 4, "
               "'dataset_summary': {'number_of_records': 0, 'record_length': 100}, "
               "'map_projection': {'number_of_records': 1, 'record_length': 101}, "
               "'platform_position': {'number_of_records': 2, 'record_length': 102}, "
               "'attitude': {'number_of_records': 3, 'record_length': 103}, "
               "'radiometric_data': {'number_of_records': 4, 'record_length': 104}, "
               "'radiometric_compensation': {'number_of_records': 5, 'record_length': 105}, "
               "'data_quality_summary': {'number_of_records': 6, 'record_length': 106}, "
               "'data_histogram': {'number_of_records': 7, 'record_length': 107}, "
               "'range_spectra': {'number_of_records': 8, 'record_length': 108}, "
               "'dem_descriptor': {'number_of_records': 9, 'record_length': 109}, "
               "'radar_parameter_update': {'number_of_records': 10, 'record_length': 110}, "
               "'annotation_data': {'number_of_records': 11, 'record_length': 111}, "
               "'detail_processing': {'number_of_records': 12, 'record_length': 112}, "
               "'calibration': {'number_of_records': 13, 'record_length': 113}, 'gcp': "
               "{'number_of_records': 14, 'record_length': 114}, 'spare': '', "
               "'facility_related_data_1': {'number_of_records': 0, 'record_length': 1000}, "
               "'facility_related_data_2': {'number_of_records': 1, 'record_length': 1001}, "
               "'facility_related_data_3': {'number_of_records': 2, 'record_length': 1002}, "
               "'facility_related_data_4': {'number_of_records': 3, 'record_length': 1003}, "
               "'facility_related_data_5': {'number_of_records': 4, 'record_length': 1004}, "
               "'number_of_low_resolution_images': 2, 'low_resolution_image_sizes': "
               "[{'record_length': 24, 'number_of_pixels': 4, 'number_of_lines': 3, "
               "'number_of_bytes_per_one_sample': 2}, {'record_length': 16, "
               "'number_of_pixels': 2, 'number_of_lines': 2, 'number_of_bytes_per_one_sample': "
               "4}], 'blanks': ''}, 'list', [('ndarray', '>i2', (4, 3), False, True, [[22978, "
               '8975, 729], [-15088, -12595, -30083], [-27838, -31685, -21282], [20530, 9792, '
               "27050]]), ('ndarray', '>i4', (2, 2), False, True, [[-115153665, 50773491], "
               "[1095936102, 1934726843]])])), [('seek', (8,), {}), ('read', (720,), {}, 8), "
               "('read', (), {}, 728)], 768)",
 'offset:no-images': "(('returned', ('tuple', 'Container', {'preamble': "
                     "{'record_sequence_number': 1, 'first_record_subtype': 63, 'record_type': "
                     "192, 'second_record_subtype': 18, 'third_record_subtype': 18, "
                     "'record_length': 720}, 'ascii_ebcdic_code': 'A', 'blanks1': '', "
                     "'format_control_document_id': 'CEOS-SAR', "
                     "'format_control_document_revision_number': 'A', "
                     "'record_format_revision_level': 'A', "
                     "'software_release_and_revision_number': '001.001', 'file_number': 3, "
                     "'file_id': 'TRAILER FILE', 'record_sequence_and_location_type_flag': "
                     "'FSEQ', 'sequence_number_of_location': 1, "
                     "'field_length_of_sequence_number': 4, "
                     "'record_code_and_location_type_flag': 'FTYP', 'location_of_record_code': "
                     "5, 'field_length_of_record_code': 4, "
                     "'record_length_and_location_type_flag': 'FLGT', "
                     "'location_of_record_length': 9, 'field_length_of_record_length': 4, "
                     "'dataset_summary': {'number_of_records': 0, 'record_length': 100}, "
                     "'map_projection': {'number_of_records': 1, 'record_length': 101}, "
                     "'platform_position': {'number_of_records': 2, 'record_length': 102}, "
                     "'attitude': {'number_of_records': 3, 'record_length': 103}, "
                     "'radiometric_data': {'number_of_records': 4, 'record_length': 104}, "
                     "'radiometric_compensation': {'number_of_records': 5, 'record_length': "
                     "105}, 'data_quality_summary': {'number_of_records': 6, 'record_length': "
                     "106}, 'data_histogram': {'number_of_records': 7, 'record_length': 107}, "
                     "'range_spectra': {'number_of_records': 8, 'record_length': 108}, "
                     "'dem_descriptor': {'number_of_records': 9, 'record_length': 109}, "
                     "'radar_parameter_update': {'number_of_records': 10, 'record_length': "
                     "110}, 'annotation_data': {'number_of_records': 11, 'record_length': "
                     "111}, 'detail_processing': {'number_of_records': 12, 'record_length': "
                     "112}, 'calibration': {'number_of_records': 13, 'record_length': 113}, "
                     "'gcp': {'number_of_records': 14, 'record_length': 114}, 'spare': '', "
                     "'facility_related_data_1': {'number_of_records': 0, 'record_length': "
                     "1000}, 'facility_related_data_2': {'number_of_records': 1, "
                     "'record_length': 1001}, 'facility_related_data_3': {'number_of_records': "
                     "2, 'record_length': 1002}, 'facility_related_data_4': "
                     "{'number_of_records': 3, 'record_length': 1003}, "
                     "'facility_related_data_5': {'number_of_records': 4, 'record_length': "
                     "1004}, 'number_of_low_resolution_images': 0, "
                     "'low_resolution_image_sizes': [], 'blanks': ''}, 'list', [])), [('seek', "
                     "(8,), {}), ('read', (720,), {}, 8), ('read', (), {}, 728)], 728)",
 'offset:short-header': "(('raised', ('StreamError', 'Error in path (parsing) -> "
                        'spare\\nstream read less than specified amount, expected 60, found '
                        "40', None, False)), [('seek', (8,), {}), ('read', (720,), {}, 8)], "
                        '408)',
 'chunked:three-mixed': "(('returned', ('tuple', 'Container', {'preamble': "
                        "{'record_sequence_number': 1, 'first_record_subtype': 63, "
                        "'record_type': 192, 'second_record_subtype': 18, "
                        "'third_record_subtype': 18, 'record_length': 720}, "
                        "'ascii_ebcdic_code': 'A', 'blanks1': '', "
                        "'format_control_document_id': 'CEOS-SAR', "
                        "'format_control_document_revision_number': 'A', "
                        "'record_format_revision_level': 'A', "
                        "'software_release_and_revision_number': '001.001', 'file_number': 3, "
                        "'file_id': 'TRAILER FILE', 'record_sequence_and_location_type_flag': "
                        "'FSEQ', 'sequence_number_of_location': 1, "
                        "'field_length_of_sequence_number': 4, "
                        "'record_code_and_location_type_flag': 'FTYP', "
                        "'location_of_record_code': 5, 'field_length_of_record_code': 4, "
                        "'record_length_and_location_type_flag': 'FLGT', "
                        "'location_of_record_length': 9, 'field_length_of_record_length': 4, "
                        "'dataset_summary': {'number_of_records': 0, 'record_length': 100}, "
                        "'map_projection': {'number_of_records': 1, 'record_length': 101}, "
                        "'platform_position': {'number_of_records': 2, 'record_length': 102}, "
                        "'attitude': {'number_of_records': 3, 'record_length': 103}, "
                        "'radiometric_data': {'number_of_records': 4, 'record_length': 104}, "
                        "'radiometric_compensation': {'number_of_records': 5, 'record_length': "
                        "105}, 'data_quality_summary': {'number_of_records': 6, "
                        "'record_length': 106}, 'data_histogram': {'number_of_records': 7, "
                        "'record_length': 107}, 'range_spectra': {'number_of_records': 8, "
                        "'record_length': 108}, 'dem_descriptor': {'number_of_records': 9, "
                        "'record_length': 109}, 'radar_parameter_update': "
                        "{'number_of_records': 10, 'record_length': 110}, 'annotation_data': "
                        "{'number_of_records': 11, 'record_length': 111}, 'detail_processing': "
                        "{'number_of_records': 12, 'record_length': 112}, 'calibration': "
                        "{'number_of_records': 13, 'record_length': 113}, 'gcp': "
                        "{'number_of_records': 14, 'record_length': 114}, 'spare': '', "
                        "'facility_related_data_1': {'number_of_records': 0, 'record_length': "
                        "1000}, 'facility_related_data_2': {'number_of_records': 1, "
                        "'record_length': 1001}, 'facility_related_data_3': "
                        "{'number_of_records': 2, 'record_length': 1002}, "
                        "'facility_related_data_4': {'number_of_records': 3, 'record_length': "
                        "1003}, 'facility_related_data_5': {'number_of_records': 4, "
                        "'record_length': 1004}, 'number_of_low_resolution_images': 3, "
                        "'low_resolution_image_sizes': [{'record_length': 24, "
                        "'number_of_pixels': 4, 'number_of_lines': 3, "
                        "'number_of_bytes_per_one_sample': 2}, {'record_length': 6, "
                        "'number_of_pixels': 6, 'number_of_lines': 1, "
                        "'number_of_bytes_per_one_sample': 1}, {'record_length': 80, "
                        "'number_of_pixels': 2, 'number_of_lines': 5, "
                        "'number_of_bytes_per_one_sample': 8}], 'blanks': ''}, 'list', "
                        "[('ndarray', '>i2', (4, 3), True, True, [[22978, 8975, 729], [-15088, "
                        '-12595, -30083], [-27838, -31685, -21282], [20530, 9792, 27050]]), '
                        "('ndarray', '|i1', (6, 1), True, True, [[-7], [3], [65], [115], "
                        "[-120], [-92]]), ('ndarray', '>i8', (2, 5), True, True, "
                        '[[-4397479949780690751, -3717182306025508508, 5796441818114535710, '
                        '-7527822175994744835, 1846528784132138197], [4216197543449406569, '
                        '-5757209025285719279, -8206096315913429345, -4151082478982405011, '
                        "2904126534162565579]])])), [('read', 720), ('read', -1)], 830)",
 'chunked:second-fails': "(('raised', ('ValueError', 'cannot reshape array of size 4 into "
                         "shape (2,3)', None, False)), [('read', 720), ('read', -1)], 736)",
 'chunked:data-short-odd': "(('raised', ('ValueError', 'buffer size must be a multiple of "
                           "element size', None, False)), [('read', 720), ('read', -1)], 741)",
 'chunked:empty': "(('raised', ('StreamError', 'Error in path (parsing) -> preamble -> "
                  'record_sequence_number\\nstream read less than specified amount, expected '
                  "4, found 0', None, False)), [('read', 720)], 0)",
 'memory:seven': "(('returned', ('tuple', 'Container', {'preamble': {'record_sequence_number': "
                 "1, 'first_record_subtype': 63, 'record_type': 192, 'second_record_subtype': "
                 "18, 'third_record_subtype': 18, 'record_length': 720}, 'ascii_ebcdic_code': "
                 "'A', 'blanks1': '', 'format_control_document_id': 'CEOS-SAR', "
                 "'format_control_document_revision_number': 'A', "
                 "'record_format_revision_level': 'A', 'software_release_and_revision_number': "
                 "'001.001', 'file_number': 3, 'file_id': 'TRAILER FILE', "
                 "'record_sequence_and_location_type_flag': 'FSEQ', "
                 "'sequence_number_of_location': 1, 'field_length_of_sequence_number': 4, "
                 "'record_code_and_location_type_flag': 'FTYP', 'location_of_record_code': 5, "
                 "'field_length_of_record_code': 4, 'record_length_and_location_type_flag': "
                 "'FLGT', 'location_of_record_length': 9, 'field_length_of_record_length': 4, "
                 "'dataset_summary': {'number_of_records': 0, 'record_length': 100}, "
                 "'map_projection': {'number_of_records': 1, 'record_length': 101}, "
                 "'platform_position': {'number_of_records': 2, 'record_length': 102}, "
                 "'attitude': {'number_of_records': 3, 'record_length': 103}, "
                 "'radiometric_data': {'number_of_records': 4, 'record_length': 104}, "
                 "'radiometric_compensation': {'number_of_records': 5, 'record_length': 105}, "
                 "'data_quality_summary': {'number_of_records': 6, 'record_length': 106}, "
                 "'data_histogram': {'number_of_records': 7, 'record_length': 107}, "
                 "'range_spectra': {'number_of_records': 8, 'record_length': 108}, "
                 "'dem_descriptor': {'number_of_records': 9, 'record_length': 109}, "
                 "'radar_parameter_update': {'number_of_records': 10, 'record_length': 110}, "
                 "'annotation_data': {'number_of_records': 11, 'record_length': 111}, "
                 "'detail_processing': {'number_of_records': 12, 'record_length': 112}, "
                 "'calibration': {'number_of_records': 13, 'record_length': 113}, 'gcp': "
                 "{'number_of_records': 14, 'record_length': 114}, 'spare': '', "
                 "'facility_related_data_1': {'number_of_records': 0, 'record_length': 1000}, "
                 "'facility_related_data_2': {'number_of_records': 1, 'record_length': 1001}, "
                 "'facility_related_data_3': {'number_of_records': 2, 'record_length': 1002}, "
                 "'facility_related_data_4': {'number_of_records': 3, 'record_length': 1003}, "
                 "'facility_related_data_5': {'number_of_records': 4, 'record_length': 1004}, "
                 "'number_of_low_resolution_images': 7, 'low_resolution_image_sizes': "
                 "[{'record_length': 4, 'number_of_pixels': 1, 'number_of_lines': 2, "
                 "'number_of_bytes_per_one_sample': 2}, {'record_length': 8, "
                 "'number_of_pixels': 2, 'number_of_lines': 2, "
                 "'number_of_bytes_per_one_sample': 2}, {'record_length': 12, "
                 "'number_of_pixels': 3, 'number_of_lines': 2, "
                 "'number_of_bytes_per_one_sample': 2}, {'record_length': 16, "
                 "'number_of_pixels': 4, 'number_of_lines': 2, "
                 "'number_of_bytes_per_one_sample': 2}, {'record_length': 20, "
                 "'number_of_pixels': 5, 'number_of_lines': 2, "
                 "'number_of_bytes_per_one_sample': 2}, {'record_length': 24, "
                 "'number_of_pixels': 6, 'number_of_lines': 2, "
                 "'number_of_bytes_per_one_sample': 2}, {'record_length': 28, "
                 "'number_of_pixels': 7, 'number_of_lines': 2, "
                 "'number_of_bytes_per_one_sample': 2}], 'blanks': ''}, 'list', [('ndarray', "
                 "'>i2', (1, 2), False, True, [[22978, 8975]]), ('ndarray', '>i2', (2, 2), "
                 "False, True, [[-1758, 774], [16722, 29521]]), ('ndarray', '>i2', (3, 2), "
                 'False, True, [[22123, -15623], [-25605, -13207], [-5649, 20593]]), '
                 "('ndarray', '>i2', (4, 2), False, True, [[20414, -27155], [-21009, -17249], "
                 "[-20883, 19744], [24198, 5384]]), ('ndarray', '>i2', (5, 2), False, True, "
                 '[[14840, 29036], [24995, 742], [28864, 31211], [30820, -27471], [-3046, '
                 "7035]]), ('ndarray', '>i2', (6, 2), False, True, [[11192, 19988], [-31284, "
                 '20181], [-2042, 1004], [8535, -14038], [31426, -29234], [-14554, -7644]]), '
                 "('ndarray', '>i2', (7, 2), False, True, [[-3602, 2501], [1164, -10272], "
                 '[29238, -8581], [10337, -8225], [-3283, 31945], [-20543, 8700], [-4786, '
                 '11424]])])), 832)',
 'memory:trailing-bytes': "(('returned', ('tuple', 'Container', {'preamble': "
                          "{'record_sequence_number': 1, 'first_record_subtype': 63, "
                          "'record_type': 192, 'second_record_subtype': 18, "
                          "'third_record_subtype': 18, 'record_length': 720}, "
                          "'ascii_ebcdic_code': 'A', 'blanks1': '', "
                          "'format_control_document_id': 'CEOS-SAR', "
                          "'format_control_document_revision_number': 'A', "
                          "'record_format_revision_level': 'A', "
                          "'software_release_and_revision_number': '001.001', 'file_number': "
                          "3, 'file_id': 'TRAILER FILE', "
                          "'record_sequence_and_location_type_flag': 'FSEQ', "
                          "'sequence_number_of_location': 1, "
                          "'field_length_of_sequence_number': 4, "
                          "'record_code_and_location_type_flag': 'FTYP', "
                          "'location_of_record_code': 5, 'field_length_of_record_code': 4, "
                          "'record_length_and_location_type_flag': 'FLGT', "
                          "'location_of_record_length': 9, 'field_length_of_record_length': 4, "
                          "'dataset_summary': {'number_of_records': 0, 'record_length': 100}, "
                          "'map_projection': {'number_of_records': 1, 'record_length': 101}, "
                          "'platform_position': {'number_of_records': 2, 'record_length': "
                          "102}, 'attitude': {'number_of_records': 3, 'record_length': 103}, "
                          "'radiometric_data': {'number_of_records': 4, 'record_length': 104}, "
                          "'radiometric_compensation': {'number_of_records': 5, "
                          "'record_length': 105}, 'data_quality_summary': "
                          "{'number_of_records': 6, 'record_length': 106}, 'data_histogram': "
                          "{'number_of_records': 7, 'record_length': 107}, 'range_spectra': "
                          "{'number_of_records': 8, 'record_length': 108}, 'dem_descriptor': "
                          "{'number_of_records': 9, 'record_length': 109}, "
                          "'radar_parameter_update': {'number_of_records': 10, "
                          "'record_length': 110}, 'annotation_data': {'number_of_records': 11, "
                          "'record_length': 111}, 'detail_processing': {'number_of_records': "
                          "12, 'record_length': 112}, 'calibration': {'number_of_records': 13, "
                          "'record_length': 113}, 'gcp': {'number_of_records': 14, "
                          "'record_length': 114}, 'spare': '', 'facility_related_data_1': "
                          "{'number_of_records': 0, 'record_length': 1000}, "
                          "'facility_related_data_2': {'number_of_records': 1, "
                          "'record_length': 1001}, 'facility_related_data_3': "
                          "{'number_of_records': 2, 'record_length': 1002}, "
                          "'facility_related_data_4': {'number_of_records': 3, "
                          "'record_length': 1003}, 'facility_related_data_5': "
                          "{'number_of_records': 4, 'record_length': 1004}, "
                          "'number_of_low_resolution_images': 2, 'low_resolution_image_sizes': "
                          "[{'record_length': 8, 'number_of_pixels': 2, 'number_of_lines': 2, "
                          "'number_of_bytes_per_one_sample': 2}, {'record_length': 3, "
                          "'number_of_pixels': 1, 'number_of_lines': 3, "
                          "'number_of_bytes_per_one_sample': 1}], 'blanks': ''}, 'list', "
                          "[('ndarray', '>i2', (2, 2), False, True, [[22978, 8975], [729, "
                          "-15088]]), ('ndarray', '|i1', (1, 3), False, True, [[-7, 3, "
                          '65]])])), 742)',
 'memory:count-eight': "(('raised', ('PaddingError', 'Error in path (parsing) -> "
                       "blanks\\nlength cannot be negative', None, False)), 720)",
 'memory:header-only': "(('raised', ('ValueError', 'cannot reshape array of size 0 into shape "
                       "(2,2)', None, False)), 720)",
 'not-a-file:none': '(\'raised\', (\'AttributeError\', "\'NoneType\' object has no attribute '
                    '\'read\'", None, False))',
 'not-a-file:bytes': '(\'raised\', (\'AttributeError\', "\'bytes\' object has no attribute '
                     '\'read\'", None, False))',
 'not-a-file:closed': "('raised', ('ValueError', 'I/O operation on closed file.', None, "
                      'False))',
 'patched-decoder:two': "(('returned', ('tuple', 'Container', {'preamble': "
                        "{'record_sequence_number': 1, 'first_record_subtype': 63, "
                        "'record_type': 192, 'second_record_subtype': 18, "
                        "'third_record_subtype': 18, 'record_length': 720}, "
                        "'ascii_ebcdic_code': 'A', 'blanks1': '', "
                        "'format_control_document_id': 'CEOS-SAR', "
                        "'format_control_document_revision_number': 'A', "
                        "'record_format_revision_level': 'A', "
                        "'software_release_and_revision_number': '001.001', 'file_number': 3, "
                        "'file_id': 'TRAILER FILE', 'record_sequence_and_location_type_flag': "
                        "'FSEQ', 'sequence_number_of_location': 1, "
                        "'field_length_of_sequence_number': 4, "
                        "'record_code_and_location_type_flag': 'FTYP', "
                        "'location_of_record_code': 5, 'field_length_of_record_code': 4, "
                        "'record_length_and_location_type_flag': 'FLGT', "
                        "'location_of_record_length': 9, 'field_length_of_record_length': 4, "
                        "'dataset_summary': {'number_of_records': 0, 'record_length': 100}, "
                        "'map_projection': {'number_of_records': 1, 'record_length': 101}, "
                        "'platform_position': {'number_of_records': 2, 'record_length': 102}, "
                        "'attitude': {'number_of_records': 3, 'record_length': 103}, "
                        "'radiometric_data': {'number_of_records': 4, 'record_length': 104}, "
                        "'radiometric_compensation': {'number_of_records': 5, 'record_length': "
                        "105}, 'data_quality_summary': {'number_of_records': 6, "
                        "'record_length': 106}, 'data_histogram': {'number_of_records': 7, "
                        "'record_length': 107}, 'range_spectra': {'number_of_records': 8, "
                        "'record_length': 108}, 'dem_descriptor': {'number_of_records': 9, "
                        "'record_length': 109}, 'radar_parameter_update': "
                        "{'number_of_records': 10, 'record_length': 110}, 'annotation_data': "
                        "{'number_of_records': 11, 'record_length': 111}, 'detail_processing': "
                        "{'number_of_records': 12, 'record_length': 112}, 'calibration': "
                        "{'number_of_records': 13, 'record_length': 113}, 'gcp': "
                        "{'number_of_records': 14, 'record_length': 114}, 'spare': '', "
                        "'facility_related_data_1': {'number_of_records': 0, 'record_length': "
                        "1000}, 'facility_related_data_2': {'number_of_records': 1, "
                        "'record_length': 1001}, 'facility_related_data_3': "
                        "{'number_of_records': 2, 'record_length': 1002}, "
                        "'facility_related_data_4': {'number_of_records': 3, 'record_length': "
                        "1003}, 'facility_related_data_5': {'number_of_records': 4, "
                        "'record_length': 1004}, 'number_of_low_resolution_images': 2, "
                        "'low_resolution_image_sizes': [{'record_length': 24, "
                        "'number_of_pixels': 4, 'number_of_lines': 3, "
                        "'number_of_bytes_per_one_sample': 2}, {'record_length': 16, "
                        "'number_of_pixels': 2, 'number_of_lines': 2, "
                        "'number_of_bytes_per_one_sample': 4}], 'blanks': ''}, 'list', "
                        "[('ndarray', '<i8', (1,), True, True, [0]), ('ndarray', '<i8', (2,), "
                        "True, True, [0, 1])])), [('bytes', "
                        "b'Y\\xc2#\\x0f\\x02\\xd9\\xc5\\x10\\xce\\xcd\\x8a}\\x93B\\x84;\\xac\\xdeP2&@i\\xaa', "
                        "'tuple', (4, 3), 'int', 2), ('bytes', "
                        'b\'\\xf9"\\xe4\\xff\\x03\\x06\\xbd\\xf3AR\\xa8fsQ\\x96\\xbb\', '
                        "'tuple', (2, 2), 'int', 4)], [('read', (720,), {}, 0), ('read', (), "
                        '{}, 720)])',
 'patched-decoder:length-blank-then-image': "(('returned', ('tuple', 'Container', {'preamble': "
                                            "{'record_sequence_number': 1, "
                                            "'first_record_subtype': 63, 'record_type': 192, "
                                            "'second_record_subtype': 18, "
                                            "'third_record_subtype': 18, 'record_length': "
                                            "720}, 'ascii_ebcdic_code': 'A', 'blanks1': '', "
                                            "'format_control_document_id': 'CEOS-SAR', "
                                            "'format_control_document_revision_number': 'A', "
                                            "'record_format_revision_level': 'A', "
                                            "'software_release_and_revision_number': "
                                            "'001.001', 'file_number': 3, 'file_id': 'TRAILER "
                                            "FILE', 'record_sequence_and_location_type_flag': "
                                            "'FSEQ', 'sequence_number_of_location': 1, "
                                            "'field_length_of_sequence_number': 4, "
                                            "'record_code_and_location_type_flag': 'FTYP', "
                                            "'location_of_record_code': 5, "
                                            "'field_length_of_record_code': 4, "
                                            "'record_length_and_location_type_flag': 'FLGT', "
                                            "'location_of_record_length': 9, "
                                            "'field_length_of_record_length': 4, "
                                            "'dataset_summary': {'number_of_records': 0, "
                                            "'record_length': 100}, 'map_projection': "
                                            "{'number_of_records': 1, 'record_length': 101}, "
                                            "'platform_position': {'number_of_records': 2, "
                                            "'record_length': 102}, 'attitude': "
                                            "{'number_of_records': 3, 'record_length': 103}, "
                                            "'radiometric_data': {'number_of_records': 4, "
                                            "'record_length': 104}, "
                                            "'radiometric_compensation': {'number_of_records': "
                                            "5, 'record_length': 105}, 'data_quality_summary': "
                                            "{'number_of_records': 6, 'record_length': 106}, "
                                            "'data_histogram': {'number_of_records': 7, "
                                            "'record_length': 107}, 'range_spectra': "
                                            "{'number_of_records': 8, 'record_length': 108}, "
                                            "'dem_descriptor': {'number_of_records': 9, "
                                            "'record_length': 109}, 'radar_parameter_update': "
                                            "{'number_of_records': 10, 'record_length': 110}, "
                                            "'annotation_data': {'number_of_records': 11, "
                                            "'record_length': 111}, 'detail_processing': "
                                            "{'number_of_records': 12, 'record_length': 112}, "
                                            "'calibration': {'number_of_records': 13, "
                                            "'record_length': 113}, 'gcp': "
                                            "{'number_of_records': 14, 'record_length': 114}, "
                                            "'spare': '', 'facility_related_data_1': "
                                            "{'number_of_records': 0, 'record_length': 1000}, "
                                            "'facility_related_data_2': {'number_of_records': "
                                            "1, 'record_length': 1001}, "
                                            "'facility_related_data_3': {'number_of_records': "
                                            "2, 'record_length': 1002}, "
                                            "'facility_related_data_4': {'number_of_records': "
                                            "3, 'record_length': 1003}, "
                                            "'facility_related_data_5': {'number_of_records': "
                                            "4, 'record_length': 1004}, "
                                            "'number_of_low_resolution_images': 2, "
                                            "'low_resolution_image_sizes': [{'record_length': "
                                            "-1, 'number_of_pixels': 0, 'number_of_lines': 1, "
                                            "'number_of_bytes_per_one_sample': 2}, "
                                            "{'record_length': 8, 'number_of_pixels': 2, "
                                            "'number_of_lines': 2, "
                                            "'number_of_bytes_per_one_sample': 2}], 'blanks': "
                                            "''}, 'list', [('ndarray', '<i8', (1,), True, "
                                            "True, [0]), ('ndarray', '<i8', (2,), True, True, "
                                            "[0, 1])])), [('bytes', "
                                            'b\'Y\\xc2#\\x0f\\x02\\xd9\\xc5\\x10\\xf9"\\x03\\x06ARs\', '
                                            "'tuple', (0, 1), 'int', 2), ('bytes', b'', "
                                            "'tuple', (2, 2), 'int', 2)], [('read', (720,), "
                                            "{}, 0), ('read', (), {}, 720)])",
 'patched-decoder:sample-size-3': "(('returned', ('tuple', 'Container', {'preamble': "
                                  "{'record_sequence_number': 1, 'first_record_subtype': 63, "
                                  "'record_type': 192, 'second_record_subtype': 18, "
                                  "'third_record_subtype': 18, 'record_length': 720}, "
                                  "'ascii_ebcdic_code': 'A', 'blanks1': '', "
                                  "'format_control_document_id': 'CEOS-SAR', "
                                  "'format_control_document_revision_number': 'A', "
                                  "'record_format_revision_level': 'A', "
                                  "'software_release_and_revision_number': '001.001', "
                                  "'file_number': 3, 'file_id': 'TRAILER FILE', "
                                  "'record_sequence_and_location_type_flag': 'FSEQ', "
                                  "'sequence_number_of_location': 1, "
                                  "'field_length_of_sequence_number': 4, "
                                  "'record_code_and_location_type_flag': 'FTYP', "
                                  "'location_of_record_code': 5, "
                                  "'field_length_of_record_code': 4, "
                                  "'record_length_and_location_type_flag': 'FLGT', "
                                  "'location_of_record_length': 9, "
                                  "'field_length_of_record_length': 4, 'dataset_summary': "
                                  "{'number_of_records': 0, 'record_length': 100}, "
                                  "'map_projection': {'number_of_records': 1, 'record_length': "
                                  "101}, 'platform_position': {'number_of_records': 2, "
                                  "'record_length': 102}, 'attitude': {'number_of_records': 3, "
                                  "'record_length': 103}, 'radiometric_data': "
                                  "{'number_of_records': 4, 'record_length': 104}, "
                                  "'radiometric_compensation': {'number_of_records': 5, "
                                  "'record_length': 105}, 'data_quality_summary': "
                                  "{'number_of_records': 6, 'record_length': 106}, "
                                  "'data_histogram': {'number_of_records': 7, 'record_length': "
                                  "107}, 'range_spectra': {'number_of_records': 8, "
                                  "'record_length': 108}, 'dem_descriptor': "
                                  "{'number_of_records': 9, 'record_length': 109}, "
                                  "'radar_parameter_update': {'number_of_records': 10, "
                                  "'record_length': 110}, 'annotation_data': "
                                  "{'number_of_records': 11, 'record_length': 111}, "
                                  "'detail_processing': {'number_of_records': 12, "
                                  "'record_length': 112}, 'calibration': {'number_of_records': "
                                  "13, 'record_length': 113}, 'gcp': {'number_of_records': 14, "
                                  "'record_length': 114}, 'spare': '', "
                                  "'facility_related_data_1': {'number_of_records': 0, "
                                  "'record_length': 1000}, 'facility_related_data_2': "
                                  "{'number_of_records': 1, 'record_length': 1001}, "
                                  "'facility_related_data_3': {'number_of_records': 2, "
                                  "'record_length': 1002}, 'facility_related_data_4': "
                                  "{'number_of_records': 3, 'record_length': 1003}, "
                                  "'facility_related_data_5': {'number_of_records': 4, "
                                  "'record_length': 1004}, 'number_of_low_resolution_images': "
                                  "1, 'low_resolution_image_sizes': [{'record_length': 12, "
                                  "'number_of_pixels': 2, 'number_of_lines': 2, "
                                  "'number_of_bytes_per_one_sample': 3}], 'blanks': ''}, "
                                  "'list', [('ndarray', '<i8', (1,), True, True, [0])])), "
                                  "[('bytes', "
                                  "b'\\x01\\x01\\x01\\x01\\x01\\x01\\x01\\x01\\x01\\x01\\x01\\x01', "
                                  "'tuple', (2, 2), 'int', 3)], [('read', (720,), {}, 0), "
                                  "('read', (), {}, 720)])",
 'patched-decoder:seven': "(('raised', ('RuntimeError', 'third image', None, False)), "
                          "[('bytes', b'Y\\xc2#\\x0f', 'tuple', (1, 2), 'int', 2), ('bytes', "
                          'b\'\\xf9"\\x03\\x06ARsQ\', \'tuple\', (2, 2), \'int\', 2), '
                          "('bytes', b'Vk\\xc2\\xf9\\x9b\\xfb\\xcci\\xe9\\xefPq', 'tuple', (3, "
                          "2), 'int', 2)], [('read', (720,), {}, 0), ('read', (), {}, 720)])",
 'patched-header': "(('returned', ('tuple', 'Container', {'preamble': "
                   "{'record_sequence_number': 1, 'first_record_subtype': 63, 'record_type': "
                   "192, 'second_record_subtype': 18, 'third_record_subtype': 18, "
                   "'record_length': 720}, 'ascii_ebcdic_code': 'A', 'blanks1': '', "
                   "'format_control_document_id': 'CEOS-SAR', "
                   "'format_control_document_revision_number': 'A', "
                   "'record_format_revision_level': 'A', "
                   "'software_release_and_revision_number': '001.001', 'file_number': 3, "
                   "'file_id': 'TRAILER FILE', 'record_sequence_and_location_type_flag': "
                   "'FSEQ', 'sequence_number_of_location': 1, "
                   "'field_length_of_sequence_number': 4, "
                   "'record_code_and_location_type_flag': 'FTYP', 'location_of_record_code': "
                   "5, 'field_length_of_record_code': 4, "
                   "'record_length_and_location_type_flag': 'FLGT', "
                   "'location_of_record_length': 9, 'field_length_of_record_length': 4, "
                   "'dataset_summary': {'number_of_records': 0, 'record_length': 100}, "
                   "'map_projection': {'number_of_records': 1, 'record_length': 101}, "
                   "'platform_position': {'number_of_records': 2, 'record_length': 102}, "
                   "'attitude': {'number_of_records': 3, 'record_length': 103}, "
                   "'radiometric_data': {'number_of_records': 4, 'record_length': 104}, "
                   "'radiometric_compensation': {'number_of_records': 5, 'record_length': "
                   "105}, 'data_quality_summary': {'number_of_records': 6, 'record_length': "
                   "106}, 'data_histogram': {'number_of_records': 7, 'record_length': 107}, "
                   "'range_spectra': {'number_of_records': 8, 'record_length': 108}, "
                   "'dem_descriptor': {'number_of_records': 9, 'record_length': 109}, "
                   "'radar_parameter_update': {'number_of_records': 10, 'record_length': 110}, "
                   "'annotation_data': {'number_of_records': 11, 'record_length': 111}, "
                   "'detail_processing': {'number_of_records': 12, 'record_length': 112}, "
                   "'calibration': {'number_of_records': 13, 'record_length': 113}, 'gcp': "
                   "{'number_of_records': 14, 'record_length': 114}, 'spare': '', "
                   "'facility_related_data_1': {'number_of_records': 0, 'record_length': "
                   "1000}, 'facility_related_data_2': {'number_of_records': 1, "
                   "'record_length': 1001}, 'facility_related_data_3': {'number_of_records': "
                   "2, 'record_length': 1002}, 'facility_related_data_4': "
                   "{'number_of_records': 3, 'record_length': 1003}, "
                   "'facility_related_data_5': {'number_of_records': 4, 'record_length': "
                   "1004}, 'number_of_low_resolution_images': 2, 'low_resolution_image_sizes': "
                   "[{'record_length': 24, 'number_of_pixels': 4, 'number_of_lines': 3, "
                   "'number_of_bytes_per_one_sample': 2}, {'record_length': 16, "
                   "'number_of_pixels': 2, 'number_of_lines': 2, "
                   "'number_of_bytes_per_one_sample': 4}], 'blanks': ''}, 'list', [('ndarray', "
                   "'>i2', (4, 3), False, True, [[12337, 12851, 13365], [13879, 14393, 12337], "
                   "[12851, 13365, 13879], [14393, 12337, 12851]]), ('ndarray', '>i4', (2, 2), "
                   'False, True, [[875902519, 943271985], [842216501, 909588537]])])), '
                   "[('read', (720,), {}, 0), ('read', (), {}, 720)], [720])",
 'parse_image_data:int16': "('returned', ('ndarray', '>i2', (2, 2), False, True, [[1, -2], "
                           '[-32768, 32767]]))',
 'parse_image_data:int8-empty': "('returned', ('ndarray', '|i1', (0, 3), False, True, []))",
 'parse_image_data:int32-list-shape': "('returned', ('ndarray', '>i4', (3, 2), False, True, "
                                      '[[1, 1], [1, 1], [1, 1]]))',
 'parse_image_data:int-shape': "('returned', ('ndarray', '>i2', (3,), False, True, [1, 1, 1]))",
 'parse_image_data:minus-one-shape': "('returned', ('ndarray', '>i2', (2, 3), False, True, "
                                     '[[1, 1, 1], [1, 1, 1]]))',
 'parse_image_data:bytearray': "('returned', ('ndarray', '>i2', (1, 2), True, True, [[258, "
                               '772]]))',
 'parse_image_data:memoryview': "('returned', ('ndarray', '>i2', (2, 1), False, True, [[258], "
                                '[772]]))',
 'parse_image_data:str-n-bytes': "('returned', ('ndarray', '>i2', (2,), False, True, [258, "
                                 '772]))',
 'parse_image_data:bad-n-bytes': '(\'raised\', (\'TypeError\', "data type \'>i3\' not '
                                 'understood", None, False))',
 'parse_image_data:mismatch': "('raised', ('ValueError', 'cannot reshape array of size 2 into "
                              "shape (3,)', None, False))",
 'parse_image_data:str-content': '(\'raised\', (\'TypeError\', "a bytes-like object is '
                                 'required, not \'str\'", None, False))'}
# END EXPECTED


def test_outcomes():
    actual = run()
    assert list(actual) == list(EXPECTED)
    for key, value in actual.items():
        assert value == EXPECTED[key], (key, value, EXPECTED[key])


def test_module_surface():
    check_module_surface()


def test_fresh_results():
    check_fresh_results()


if __name__ == "__main__":
    if "--record" in sys.argv:
        print(repr(run()))
        sys.exit(0)

    test_outcomes()
    test_module_surface()
    test_fresh_results()
    print(f"ok: {len(EXPECTED)} recorded outcomes reproduced")
