"""Equivalence check for refactoring 2
(``ceos_alos2.sar_image.metadata.transform_line_metadata``).

Run as::

    cd /tmp/wt3/e14 && PYTHONPATH=/tmp/wt3/e14 /venv/bin/python _eq/2/equiv.py

or through pytest (``test_equivalence``). ``EXPECTED`` was recorded from the
unchanged code (``python _eq/2/equiv.py --record`` prints a fresh table). Large
results are stored as a sha256 digest of their canonical rendering.
"""

import copy
import datetime as dt
import hashlib
import io as stdlib_io
import sys

import numpy as np

from ceos_alos2.hierarchy import Group, Variable
from ceos_alos2.sar_image import io, metadata


def canon(obj):
    """Type-aware, order-preserving textual form of a result."""
    if isinstance(obj, Group):
        return (
            f"Group(path={obj.path!r}, url={obj.url!r},"
            f" data={canon(obj.data)}, attrs={canon(obj.attrs)})"
        )
    if isinstance(obj, Variable):
        return f"Variable(dims={canon(obj.dims)}, data={canon(obj.data)}, attrs={canon(obj.attrs)})"
    if isinstance(obj, dict):
        items = ", ".join(f"{canon(k)}: {canon(v)}" for k, v in obj.items())
        return f"{type(obj).__name__}{{{items}}}"
    if isinstance(obj, (list, tuple)):
        items = ", ".join(canon(v) for v in obj)
        return f"{type(obj).__name__}[{items}]"
    if isinstance(obj, np.ndarray):
        return f"ndarray<{obj.dtype}, {obj.shape}>{obj.tolist()!r}"
    return f"{type(obj).__name__}:{obj!r}"


def shorten(text):
    if len(text) <= 400:
        return text
    return f"sha256:{hashlib.sha256(text.encode()).hexdigest()} len={len(text)}"


def outcome(func, *args):
    try:
        result = func(*args)
    except BaseException as exc:  # noqa: BLE001
        return f"raise {type(exc).__name__}: {exc}"
    return shorten("ok " + canon(result))


# --- synthetic products -------------------------------------------------------

HEADER_SIZES = {10: 544, 11: 192}


def build_record(kind, index, n_bytes_data, *, varying):
    size = HEADER_SIZES[kind] + n_bytes_data
    seed = index if varying else 0
    raw = bytearray((seed * 31 + j * 7 + 3) % 120 for j in range(size))
    raw[0:4] = (index + 2).to_bytes(4, "big")
    raw[4:8] = bytes([50, kind, 18, 20])
    raw[8:12] = size.to_bytes(4, "big")
    raw[12:16] = (index + 1).to_bytes(4, "big")  # line number
    raw[16:20] = (1).to_bytes(4, "big")  # record index
    raw[36:40] = (2019 + (index // 3 if varying else 0)).to_bytes(4, "big")
    raw[40:44] = (1 + (index * 17) % 365).to_bytes(4, "big")
    raw[44:48] = (index * 1234567 % 86_400_000).to_bytes(4, "big")
    raw[48:50] = (2).to_bytes(2, "big")  # dual polarization
    raw[50:52] = (0).to_bytes(2, "big")  # L band
    raw[52:54] = (index % 2 if varying else 1).to_bytes(2, "big")
    raw[54:56] = (7 if varying and index == 1 else 0).to_bytes(2, "big")  # 7: not in the enum
    if kind == 10:
        raw[64:66] = (index % 2).to_bytes(2, "big")
        raw[66:68] = (1).to_bytes(2, "big")
        raw[84:92] = (index * 987_654_321 % 86_400_000_000).to_bytes(8, "big")
        raw[128:132] = (index % 2).to_bytes(4, "big")
        raw[224:284] = b"\x00" * 60
        raw[288:544] = b"\x00" * 250 + b"abc\x00\x00\x00"
    else:
        raw[108:128] = b"\x00" * 20
    return bytes(raw)


def build_file(kind, n_lines, n_bytes_data, *, varying=True):
    record_size = HEADER_SIZES[kind] + n_bytes_data
    descriptor = bytearray(b" " * 720)
    descriptor[0:12] = (1).to_bytes(4, "big") + bytes([50, 192, 18, 18]) + (720).to_bytes(4, "big")
    descriptor[180:186] = str(n_lines).rjust(6).encode()
    descriptor[186:192] = str(record_size).rjust(6).encode()
    records = b"".join(
        build_record(kind, index, n_bytes_data, varying=varying) for index in range(n_lines)
    )
    return bytes(descriptor) + records


def parsed_lines(kind, n_lines, n_bytes_data, *, varying=True, records_per_chunk=1024):
    f = stdlib_io.BytesIO(build_file(kind, n_lines, n_bytes_data, varying=varying))
    _, lines = io.read_metadata(f, records_per_chunk)
    return lines


# --- cases -----------------------------------------------------------------


def build_cases():
    d1 = dt.datetime(2020, 10, 1, 12, 37, 42, 451000)
    d2 = dt.datetime(2020, 10, 2, 12, 37, 42, 451000)
    cases = {
        "no_lines": [],
        "one_empty_line": [{}],
        "two_empty_lines": [{}, {}],
        "tuple_of_lines": ({"a": 1}, {"a": 2}),
        "ignored": [
            {
                "preamble": {},
                "record_start": 1,
                "actual_count_of_left_fill_pixels": 0,
                "actual_count_of_right_fill_pixels": 0,
                "actual_count_of_data_pixels": 0,
                "alos2_frame_number": 7,
                "palsar_auxiliary_data": b"",
                "blanks2": "",
                "data": {},
            }
        ],
        "spares": [
            {"spare": 1, "spare12": 2, "blanks": 3, "blanks1": 4, "blanks_x": 5, "spare_a": 6}
        ],
        "plain_variable": [{"a": 1}, {"a": 2}, {"a": 3}],
        "variable_with_units": [{"a": (1, {"units": "m"})}, {"a": (2, {"units": "m"})}],
        "units_first_line_wins": [{"a": (1, {"units": "m"})}, {"a": (2, {"units": "s"})}],
        "single_line_with_units": [{"prf": (1500, {"units": "mHz"})}],
        "mixed_tuple_and_scalar": [{"a": (1, {"units": "m"})}, {"a": 2}],
        "scalar_then_tuple": [{"a": 1}, {"a": (2, {"units": "m"})}],
        "triple_raises": [{"a": (1, {"units": "m"}, 3)}, {"a": (2, {"units": "m"}, 3)}],
        "ragged_tuples_raise": [{"a": (1, {"units": "m"})}, {"a": (2,)}],
        "deduplicated": [{"scan_id": 1}, {"scan_id": 1}],
        "deduplicated_first_wins": [{"scan_id": 4}, {"scan_id": 5}, {"scan_id": 6}],
        "deduplicated_with_units": [{"scan_id": (4, {"units": "x"})}, {"scan_id": (5, {})}],
        "all_known_attrs": [
            {
                "sar_image_data_record_index": 1,
                "sensor_parameters_update_flag": 0,
                "scan_id": 3,
                "sar_channel_code": "L",
                "sar_channel_id": "dual_polarization",
                "onboard_range_compressed_flag": False,
                "chirp_type_designator": "linear_fm_chirp",
                "platform_position_parameters_update_flag": "repeat",
                "geographic_reference_parameter_update_flag": 1,
                "transmitted_pulse_polarization": "horizontal",
                "received_pulse_polarization": "vertical",
                "other": index,
            }
            for index in range(3)
        ],
        "attr_is_list": [{"scan_id": [1, 2]}, {"scan_id": [3]}],
        "attr_is_dict": [{"scan_id": {"x": 1}}, {"scan_id": {"x": 2}}],
        "dtype_override": [{"sensor_acquisition_date": d1}, {"sensor_acquisition_date": d2}],
        "dtype_override_both": [
            {"sensor_acquisition_date": d1, "sensor_acquisition_date_microseconds": d2},
            {"sensor_acquisition_date": d2, "sensor_acquisition_date_microseconds": d1},
        ],
        "dtype_override_strings": [
            {"sensor_acquisition_date": "2020-01-01T00:00:00"},
            {"sensor_acquisition_date": "2021-02-03"},
        ],
        "dtype_override_ints": [{"sensor_acquisition_date": 1}, {"sensor_acquisition_date": 2}],
        "dtype_override_invalid": [{"sensor_acquisition_date": "yesterday"}],
        "dtype_override_none": [{"sensor_acquisition_date": None}],
        "renamed": [{"sar_image_data_line_number": 1}, {"sar_image_data_line_number": 2}],
        "renamed_collision": [{"rows": 5, "sar_image_data_line_number": 1}],
        "renamed_collision_reversed": [{"sar_image_data_line_number": 1, "rows": 5}],
        "nested_sections": [
            {"platform_velocity": {"x": (1, {"units": "cm/s"}), "y": (2, {"units": "cm/s"})}},
            {"platform_velocity": {"x": (3, {"units": "cm/s"}), "y": (4, {"units": "cm/s"})}},
        ],
        "nested_with_spares": [{"section": {"blanks1": 1, "spare": 2, "keep": 3}}],
        "missing_keys": [{"a": 1, "b": 2}, {"b": 3}, {"a": 4, "c": 5}],
        "key_order": [{"z": 1, "scan_id": 2, "a": 3}, {"a": 4, "m": 5, "z": 6, "scan_id": 2}],
        "values_are_lists": [{"a": [1, 2]}, {"a": [3, 4]}],
        "values_are_none": [{"a": None}, {"a": None}],
        "values_are_bytes": [{"a": b"x"}, {"a": b""}],
        "empty_tuple_values": [{"a": ()}, {"a": ()}],
        "signal_1_line": parsed_lines(10, 1, 16),
        "signal_4_lines": parsed_lines(10, 4, 24),
        "signal_5_lines_constant": parsed_lines(10, 5, 8, varying=False),
        "signal_7_lines_chunked": parsed_lines(10, 7, 8, records_per_chunk=3),
        "processed_1_line": parsed_lines(11, 1, 10),
        "processed_6_lines": parsed_lines(11, 6, 20),
        "processed_3_lines_constant": parsed_lines(11, 3, 4, varying=False),
        "not_mappings_int": [5],
        "not_mappings_none": [None],
        "not_mappings_two": [{"a": 1}, 5],
        "single_list_of_pairs": [[("a", 1)]],
        "single_list_of_mappings": [[{"a": 1}, {"a": 2}]],
        "metadata_int": 5,
        "metadata_none": None,
        "metadata_mapping": {"a": {"b": 1}},
        "metadata_str": "ab",
    }
    return cases


EXPECTED = {
    'no_lines': "ok Group(path='/', url=None, data=dict{}, attrs=dict{})",
    'one_empty_line': "ok Group(path='/', url=None, data=dict{}, attrs=dict{})",
    'two_empty_lines': "ok Group(path='/', url=None, data=dict{}, attrs=dict{})",
    'tuple_of_lines': "ok Group(path='/', url=None, data=dict{str:'a': Variable(dims=list[str:'rows'], data=list[int:1, int:2], attrs=dict{})}, attrs=dict{})",
    'ignored': "ok Group(path='/', url=None, data=dict{}, attrs=dict{})",
    'spares': "ok Group(path='/', url=None, data=dict{str:'blanks_x': Variable(dims=list[str:'rows'], data=list[int:5], attrs=dict{}), str:'spare_a': Variable(dims=list[str:'rows'], data=list[int:6], attrs=dict{})}, attrs=dict{})",
    'plain_variable': "ok Group(path='/', url=None, data=dict{str:'a': Variable(dims=list[str:'rows'], data=list[int:1, int:2, int:3], attrs=dict{})}, attrs=dict{})",
    'variable_with_units': "ok Group(path='/', url=None, data=dict{str:'a': Variable(dims=list[str:'rows'], data=list[int:1, int:2], attrs=dict{str:'units': str:'m'})}, attrs=dict{})",
    'units_first_line_wins': "ok Group(path='/', url=None, data=dict{str:'a': Variable(dims=list[str:'rows'], data=list[int:1, int:2], attrs=dict{str:'units': str:'m'})}, attrs=dict{})",
    'single_line_with_units': "ok Group(path='/', url=None, data=dict{str:'prf': Variable(dims=list[str:'rows'], data=list[int:1500], attrs=dict{str:'units': str:'mHz'})}, attrs=dict{})",
    'mixed_tuple_and_scalar': "raise TypeError: 'int' object is not iterable",
    'scalar_then_tuple': "ok Group(path='/', url=None, data=dict{str:'a': Variable(dims=list[str:'rows'], data=list[int:1, tuple[int:2, dict{str:'units': str:'m'}]], attrs=dict{})}, attrs=dict{})",
    'triple_raises': 'raise ValueError: too many values to unpack (expected 2)',
    'ragged_tuples_raise': 'raise ValueError: not enough values to unpack (expected 2, got 1)',
    'deduplicated': "ok Group(path='/', url=None, data=dict{}, attrs=dict{str:'scan_id': int:1})",
    'deduplicated_first_wins': "ok Group(path='/', url=None, data=dict{}, attrs=dict{str:'scan_id': int:4})",
    'deduplicated_with_units': "ok Group(path='/', url=None, data=dict{}, attrs=dict{str:'scan_id': int:4})",
    'all_known_attrs': 'sha256:7ac8d37671e5838a2ee003f0b2c86ef002bbc90e83890257c0afd8f167c13dc4 len=658',
    'attr_is_list': "ok Group(path='/', url=None, data=dict{str:'scan_id': Variable(dims=tuple[], data=int:1, attrs=int:2)}, attrs=dict{})",
    'attr_is_dict': "ok Group(path='/', url=None, data=dict{str:'scan_id': Group(path='/scan_id', url=None, data=dict{}, attrs=dict{str:'x': int:1})}, attrs=dict{})",
    'dtype_override': "ok Group(path='/', url=None, data=dict{str:'sensor_acquisition_date': Variable(dims=list[str:'rows'], data=ndarray<datetime64[ns], (2,)>[1601555862451000000, 1601642262451000000], attrs=dict{})}, attrs=dict{})",
    'dtype_override_both': "ok Group(path='/', url=None, data=dict{str:'sensor_acquisition_date': Variable(dims=list[str:'rows'], data=ndarray<datetime64[ns], (2,)>[1601555862451000000, 1601642262451000000], attrs=dict{}), str:'sensor_acquisition_date_microseconds': Variable(dims=list[str:'rows'], data=ndarray<datetime64[ns], (2,)>[1601642262451000000, 1601555862451000000], attrs=dict{})}, attrs=dict{})",
    'dtype_override_strings': "ok Group(path='/', url=None, data=dict{str:'sensor_acquisition_date': Variable(dims=list[str:'rows'], data=ndarray<datetime64[ns], (2,)>[1577836800000000000, 1612310400000000000], attrs=dict{})}, attrs=dict{})",
    'dtype_override_ints': "ok Group(path='/', url=None, data=dict{str:'sensor_acquisition_date': Variable(dims=list[str:'rows'], data=ndarray<datetime64[ns], (2,)>[1, 2], attrs=dict{})}, attrs=dict{})",
    'dtype_override_invalid': 'raise ValueError: Error parsing datetime string "yesterday" at position 0',
    'dtype_override_none': "ok Group(path='/', url=None, data=dict{str:'sensor_acquisition_date': Variable(dims=list[str:'rows'], data=ndarray<datetime64[ns], (1,)>[None], attrs=dict{})}, attrs=dict{})",
    'renamed': "ok Group(path='/', url=None, data=dict{str:'rows': Variable(dims=list[str:'rows'], data=list[int:1, int:2], attrs=dict{})}, attrs=dict{})",
    'renamed_collision': "ok Group(path='/', url=None, data=dict{str:'rows': Variable(dims=list[str:'rows'], data=list[int:1], attrs=dict{})}, attrs=dict{})",
    'renamed_collision_reversed': "ok Group(path='/', url=None, data=dict{str:'rows': Variable(dims=list[str:'rows'], data=list[int:5], attrs=dict{})}, attrs=dict{})",
    'nested_sections': "ok Group(path='/', url=None, data=dict{str:'platform_velocity': Variable(dims=list[str:'rows'], data=list[dict{str:'x': tuple[int:1, dict{str:'units': str:'cm/s'}], str:'y': tuple[int:2, dict{str:'units': str:'cm/s'}]}, dict{str:'x': tuple[int:3, dict{str:'units': str:'cm/s'}], str:'y': tuple[int:4, dict{str:'units': str:'cm/s'}]}], attrs=dict{})}, attrs=dict{})",
    'nested_with_spares': "ok Group(path='/', url=None, data=dict{str:'section': Variable(dims=list[str:'rows'], data=list[dict{str:'keep': int:3}], attrs=dict{})}, attrs=dict{})",
    'missing_keys': "ok Group(path='/', url=None, data=dict{str:'a': Variable(dims=list[str:'rows'], data=list[int:1, int:4], attrs=dict{}), str:'b': Variable(dims=list[str:'rows'], data=list[int:2, int:3], attrs=dict{}), str:'c': Variable(dims=list[str:'rows'], data=list[int:5], attrs=dict{})}, attrs=dict{})",
    'key_order': "ok Group(path='/', url=None, data=dict{str:'z': Variable(dims=list[str:'rows'], data=list[int:1, int:6], attrs=dict{}), str:'a': Variable(dims=list[str:'rows'], data=list[int:3, int:4], attrs=dict{}), str:'m': Variable(dims=list[str:'rows'], data=list[int:5], attrs=dict{})}, attrs=dict{str:'scan_id': int:2})",
    'values_are_lists': "ok Group(path='/', url=None, data=dict{str:'a': Variable(dims=list[str:'rows'], data=list[list[int:1, int:2], list[int:3, int:4]], attrs=dict{})}, attrs=dict{})",
    'values_are_none': "ok Group(path='/', url=None, data=dict{str:'a': Variable(dims=list[str:'rows'], data=list[NoneType:None, NoneType:None], attrs=dict{})}, attrs=dict{})",
    'values_are_bytes': "ok Group(path='/', url=None, data=dict{str:'a': Variable(dims=list[str:'rows'], data=list[bytes:b'x', bytes:b''], attrs=dict{})}, attrs=dict{})",
    'empty_tuple_values': 'raise ValueError: not enough values to unpack (expected 2, got 0)',
    'signal_1_line': 'sha256:f64eb2fa2639cb9302ce600974cebf871607cac77d40f75582479430c9758dfa len=5066',
    'signal_4_lines': 'sha256:9759488f692c00fa9b40bc06a405953f9ab4fb0ae25c2b191f36f38e43c73554 len=9158',
    'signal_5_lines_constant': 'sha256:eccd1980f7298ed198b1fccd6da16cd3f32d7f57b9d121979067da8c66652891 len=10460',
    'signal_7_lines_chunked': 'sha256:6a28e3ed4ff73914bcc9c330f7fa876d454ca38f83c695a63f733ecddce1e65c len=13189',
    'processed_1_line': 'sha256:6b9a52ece3e06310bb360c1c11d42afd98976814b2ad94323f30b60014184704 len=3622',
    'processed_6_lines': 'sha256:25040f89fa3ac80a26776fc8a8060ef25bb73feec5364ff4e4f463108d0e0d3b len=5829',
    'processed_3_lines_constant': 'sha256:c1143e8d225ec5697f4104222b1db1a89b6f0944408be6f16e60b42496ab715b len=4502',
    'not_mappings_int': "raise AttributeError: 'curry' object has no attribute 'items'",
    'not_mappings_none': "raise AttributeError: 'curry' object has no attribute 'items'",
    'not_mappings_two': "raise AttributeError: 'int' object has no attribute 'items'",
    'single_list_of_pairs': "raise AttributeError: 'tuple' object has no attribute 'items'",
    'single_list_of_mappings': "ok Group(path='/', url=None, data=dict{str:'a': Variable(dims=list[str:'rows'], data=list[int:1, int:2], attrs=dict{})}, attrs=dict{})",
    'metadata_int': 'raise TypeError: toolz.dicttoolz.merge_with() argument after * must be an iterable, not int',
    'metadata_none': 'raise TypeError: toolz.dicttoolz.merge_with() argument after * must be an iterable, not NoneType',
    'metadata_mapping': "raise AttributeError: 'str' object has no attribute 'items'",
    'metadata_str': "raise AttributeError: 'str' object has no attribute 'items'",
    'generator_of_lines': "ok Group(path='/', url=None, data=dict{str:'a': Variable(dims=list[str:'rows'], data=list[int:0, int:1, int:2], attrs=dict{})}, attrs=dict{str:'scan_id': int:9})",
    'iterator_of_lines': "ok Group(path='/', url=None, data=dict{str:'prf': Variable(dims=list[str:'rows'], data=list[int:0, int:1], attrs=dict{str:'units': str:'mHz'})}, attrs=dict{})",
}


def run():
    cases = build_cases()
    results = {}
    for name, lines in cases.items():
        snapshot = copy.deepcopy(lines)
        results[name] = outcome(metadata.transform_line_metadata, lines)
        # the input is never modified
        assert canon(snapshot) == canon(lines), name

    # iterators are consumed exactly once
    results["generator_of_lines"] = outcome(
        metadata.transform_line_metadata, ({"a": i, "scan_id": 9} for i in range(3))
    )
    results["iterator_of_lines"] = outcome(
        metadata.transform_line_metadata, iter([{"prf": (i, {"units": "mHz"})} for i in range(2)])
    )
    return results


def check_details():
    lines = parsed_lines(10, 3, 8)
    group = metadata.transform_line_metadata(lines)

    assert type(group) is Group and group.path == "/" and group.url is None
    assert list(group.data)[:3] == ["rows", "sensor_acquisition_date", "prf"]
    assert group.data["rows"] == Variable("rows", [1, 2, 3], {})
    assert group.data["prf"].dims == ["rows"] and group.data["prf"].attrs == {"units": "mHz"}
    assert type(group.data["prf"].data) is list
    assert group.data["sensor_acquisition_date"].data.dtype == np.dtype("datetime64[ns]")
    assert group.data["sensor_acquisition_date_microseconds"].data.dtype == np.dtype(
        "datetime64[ns]"
    )
    assert group.attrs["sar_channel_id"] == "dual_polarization"
    assert "data" not in group.data and "preamble" not in group.data

    # independent results for repeated calls
    again = metadata.transform_line_metadata(lines)
    assert again is not group and again.data is not group.data
    assert canon(again) == canon(group)

    import inspect

    assert str(inspect.signature(metadata.transform_line_metadata)) == "(metadata)"


def test_equivalence():
    results = run()
    assert list(results) == list(EXPECTED)
    for name, actual in results.items():
        assert actual == EXPECTED[name], f"{name}: {actual!r} != {EXPECTED[name]!r}"
    check_details()


if __name__ == "__main__":
    if "--record" in sys.argv:
        print("EXPECTED = {")
        for name, value in run().items():
            print(f"    {name!r}: {value!r},")
        print("}")
    else:
        test_equivalence()
        print(f"ok: {len(EXPECTED)} cases")
