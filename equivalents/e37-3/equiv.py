"""Equivalence check for refactoring 3 (ceos_alos2/volume_directory/metadata.py).

Run as a script (``python equiv.py``) or with pytest. ``python equiv.py --record`` prints
the observed outcomes (used once, on the unchanged code, to fill ``EXPECTED``).
"""

import pprint
import struct
import sys

import fsspec

from ceos_alos2.hierarchy import Group
from ceos_alos2.volume_directory import io, metadata, open_volume_directory


def describe_exception(exc):
    if exc is None:
        return None
    return (type(exc).__name__, str(exc))


def describe(value):
    if isinstance(value, Group):
        return (
            "Group",
            value.path,
            value.url,
            describe(value.data),
            describe(value.attrs),
        )
    if isinstance(value, dict):
        # the order of the items is part of the behaviour
        return (type(value).__name__, [(key, describe(item)) for key, item in value.items()])
    if isinstance(value, (list, tuple)):
        return (type(value).__name__, [describe(item) for item in value])
    return (type(value).__name__, value)


def outcome(func, *args):
    try:
        result = func(*args)
    except Exception as e:  # noqa: BLE001
        return (
            "raises",
            describe_exception(e),
            "cause",
            describe_exception(e.__cause__),
            "context",
            describe_exception(e.__context__),
            e.__suppress_context__,
        )
    return ("returns", describe(result))


all_ignored = {
    "preamble": {"a": 1},
    "ascii_ebcdic_flag": "A",
    "blanks": "",
    "spare": "",
    "local_use_segment": "",
    "total_number_of_physical_volumes_in_logical_volume": 1,
    "physical_volume_sequence_number_of_the_first_tape": 1,
    "physical_volume_sequence_number_of_the_last_tape": 1,
    "physical_volume_sequence_number_of_the_current_tape": 1,
    "file_number_in_the_logical_volume": 2,
    "logical_volume_within_a_volume_set": "a",
    "logical_volume_number_within_physical_volume": 4,
    "number_of_file_pointer_records": 4,
    "number_of_text_records_in_volume_directory": 1,
}
all_translated = {
    "superstructure_format_control_document_id": "a",
    "superstructure_format_control_document_revision_level": "b",
    "superstructure_record_format_revision_level": "c",
    "software_release_and_revision_level": "001.001",
    "logical_volume_creation_datetime": "2020101117233798",
    "logical_volume_generation_country": "d",
    "logical_volume_generating_agency": "e",
    "logical_volume_generating_facility": "f",
}

volume_descriptors = [
    {},
    all_ignored,
    {"number_of_file_pointer_records": 4, "volume_set_id": "abc"},
    all_translated,
    dict(reversed(all_translated.items())),
    all_ignored | all_translated | {"physical_volume_id": "p", "logical_volume_id": "l"},
    {"z": 1} | all_translated | {"y": 2} | all_ignored | {"x": 3},
    {"logical_volume_creation_datetime": "2020101117233798"},
    {"creation_datetime": "2020101117233798"},
    {"creation_datetime": "20201011172337"},
    {"creation_datetime": "202010111723379812"},
    # both the original and the translated name: last value, first position
    {"creation_datetime": "2020101117233798", "a": 1, "logical_volume_creation_datetime": "2019"},
    {"logical_volume_creation_datetime": "1999010100000000", "creation_datetime": "2020101117233798"},
    {"creation_country": "x", "logical_volume_generation_country": "y", "creation_agency": "z"},
    # already translated names are kept
    {"control_document_id": "a", "software_version": "b"},
    # not ignored in the volume descriptor
    {"physical_tape_id": "a", "file_descriptors": [1], "blanks1": "", "spare1": ""},
    # values are not touched
    {"volume_set_id": None, "physical_volume_id": ["a"], "logical_volume_id": {"nested": {"blanks": 1}}},
    {1: "a", None: "b", ("preamble",): "c"},
    # failures
    {"logical_volume_creation_datetime": ""},
    {"logical_volume_creation_datetime": "abc"},
    {"logical_volume_creation_datetime": "2020131117233798"},
    {"creation_datetime": None},
    {"creation_datetime": 2020101117233798},
    {"a": 1, "creation_datetime": "x", "logical_volume_creation_datetime": "2020101117233798"},
    None,
    [("a", 1)],
    "abc",
]

texts = [
    {},
    {"preamble": {}, "ascii_ebcdic_flag": "a", "blanks": "", "physical_tape_id": 1},
    {"blanks": "", "product_id": "PRODUCT:WWDR1.5RUA"},
    {"product_id": "b", "location_and_datetime_of_product_creation": "a"},
    {"location_and_datetime_of_product_creation": "a", "product_id": "b"},
    {"product_creation": "x", "b": 1, "location_and_datetime_of_product_creation": "y"},
    {"location_and_datetime_of_product_creation": "y", "b": 1, "product_creation": "x"},
    {
        "preamble": {"record_sequence_number": 6},
        "ascii_ebcdic_flag": "A",
        "blanks": "",
        "product_id": "PRODUCT:WWDR1.5RUA",
        "location_and_datetime_of_product_creation": "PROCESS:JAPAN-JAXA-ALOS2-EICS  20191015 031551",
        "physical_tape_id": "TAPE ID:",
        "scene_id": "ORBIT:ALOS2290760600-191011",
        "scene_location_id": "FRAME:RSP050 0600",
    },
    # not ignored in the text record
    {"spare": "", "local_use_segment": "", "number_of_file_pointer_records": 1, "blanks1": ""},
    # not translated in the text record
    {"logical_volume_creation_datetime": "2020101117233798", "creation_datetime": "abc"},
    {1: "a", None: "b"},
    None,
    [("a", 1)],
    7,
]

records = [
    {},
    {
        "volume_descriptor": {"a": 1},
        "file_descriptors": [{"b": 2}, {"c": 3}],
        "text_record": {"d": 4},
    },
    {
        "volume_descriptor": {"preamble": "a", "logical_volume_generation_country": "a"},
        "text_record": {"blanks": "", "location_and_datetime_of_product_creation": "b"},
    },
    {"volume_descriptor": {"a": 1, "b": 2}, "text_record": {"c": 3, "d": 4}},
    {"text_record": {"c": 3, "d": 4}, "volume_descriptor": {"a": 1, "b": 2}},
    {"volume_descriptor": all_ignored | all_translated, "file_descriptors": [], "text_record": texts[7]},
    {"volume_descriptor": all_ignored, "text_record": texts[1]},
    {"volume_descriptor": {"a": 1}},
    {"text_record": {"a": 1}},
    {"file_descriptors": [{"a": 1}]},
    # colliding names: last value at the first position
    {"volume_descriptor": {"a": 1, "b": 2}, "text_record": {"c": 3, "a": 4}},
    {"a": 0, "volume_descriptor": {"a": 1, "b": 2}, "c": 5, "text_record": {"c": 3, "a": 4}},
    {"volume_descriptor": {"a": 1}, "text_record": {"b": 2}, "b": 3, "a": 4},
    # unknown sections: dicts are flattened, anything else is kept
    {"other": {"x": 1, "preamble": 2}, "scalar": 5, "list": [{"a": 1}], "none": None, "empty": {}},
    {"other": {"nested": {"deep": {"blanks": 1}}}, "volume_descriptor": {"v": {"preamble": 1}}},
    {"volume_descriptor": {"file_descriptors": 1}, "text_record": {"file_descriptors": 2}},
    {"volume_descriptor": {"text_record": {"preamble": 1}}},
    # the text record does not normalize datetimes, the volume descriptor does
    {
        "volume_descriptor": {"logical_volume_creation_datetime": "2020101117233798"},
        "text_record": {"creation_datetime": "unchanged"},
    },
    {
        "text_record": {"creation_datetime": "unchanged"},
        "volume_descriptor": {"logical_volume_creation_datetime": "2020101117233798"},
    },
    # failures: the first failing section (in the order of the mapping) is reported
    {"volume_descriptor": {"creation_datetime": "x"}, "text_record": None},
    {"text_record": None, "volume_descriptor": {"creation_datetime": "x"}},
    {"volume_descriptor": None, "text_record": {}},
    {"volume_descriptor": "abc"},
    {"text_record": 5},
    {"file_descriptors": None, "volume_descriptor": {"creation_datetime": 1}},
    {"unknown": {"creation_datetime": 1}, "volume_descriptor": []},
    None,
    [],
    "volume_descriptor",
]


def ascii_field(value, width):
    encoded = str(value).encode("ascii")
    assert len(encoded) <= width, (value, width)
    return encoded.ljust(width)


def preamble(number, subtype1, type_, subtype2, subtype3, length=360):
    return struct.pack(">IBBBBI", number, subtype1, type_, subtype2, subtype3, length)


def volume_descriptor_bytes(n_pointers, *, datetime="2019101503155100", count_width=4):
    fields = [
        ("A", 2), ("", 2), ("CEOS-SAR", 12), ("A", 2), ("A", 2), ("001.001", 12),
        ("PHYS-VOL", 16), ("LOG-VOL", 16), ("ALOS2  SAR", 16),
        (1, 2), (1, 2), (1, 2), (1, 2), (1, 4), (1, 4), (1, 4),
        (datetime, 16), ("JAPAN", 12), ("JAXA", 8), ("EICS", 12),
        (n_pointers, 4), (1, 4), ("", 92), ("", 100),
    ]  # fmt: skip
    data = preamble(1, 192, 192, 18, 18) + b"".join(ascii_field(v, w) for v, w in fields)
    assert len(data) == 360
    return data


def file_descriptor_bytes(number, name):
    fields = [
        ("A", 2), ("", 2), (number, 4), (name, 16), ("SAR LEADER FILE", 28), ("SARL", 4),
        ("MIXED BINARY AND ASCII", 28), ("MBAA", 4), (10, 8), (720, 8), (4680, 8),
        ("VARIABLE LEN", 12), ("VARE", 4), (1, 2), (1, 2), (1, 8), (10, 8), ("", 100), ("", 100),
    ]  # fmt: skip
    data = preamble(number + 1, 219, 192, 18, 18) + b"".join(ascii_field(v, w) for v, w in fields)
    assert len(data) == 360
    return data


def text_record_bytes(number, product="PRODUCT:WWDR1.5RUA"):
    fields = [
        ("A", 2), ("", 2), (product, 40),
        ("PROCESS:JAPAN-JAXA-ALOS2-EICS  20191015 031551", 60), ("TAPE ID:", 40),
        ("ORBIT:ALOS2290760600-191011", 40), ("FRAME:RSP050 0600", 40), ("", 124),
    ]  # fmt: skip
    data = preamble(number, 18, 63, 18, 18) + b"".join(ascii_field(v, w) for v, w in fields)
    assert len(data) == 360
    return data


def volume_directory_bytes(n_pointers, **kwargs):
    return b"".join(
        [volume_descriptor_bytes(n_pointers, **kwargs)]
        + [file_descriptor_bytes(index + 1, f"ALOS2 FILE {index}") for index in range(n_pointers)]
        + [text_record_bytes(n_pointers + 2)]
    )


files = {
    "VOL-0": volume_directory_bytes(0),
    "VOL-1": volume_directory_bytes(1),
    "VOL-4": volume_directory_bytes(4),
    "VOL-10": volume_directory_bytes(10),
    "VOL-blank-datetime": volume_directory_bytes(2, datetime=""),
    "VOL-short-datetime": volume_directory_bytes(2, datetime="20191015031551"),
    "VOL-bad-datetime": volume_directory_bytes(2, datetime="2019-10-15T03:15"),
    "VOL-truncated": volume_directory_bytes(4)[:-1],
    "VOL-too-few-pointers": volume_descriptor_bytes(5) + file_descriptor_bytes(1, "A") * 2,
    "VOL-trailing": volume_directory_bytes(3) + b"trailing bytes",
    "VOL-empty": b"",
    "VOL-non-ascii": volume_directory_bytes(1)[:20] + b"\xff" + volume_directory_bytes(1)[21:],
    "sub/VOL-nested": volume_directory_bytes(2),
}


class RecordingMapper(dict):
    """a mapper that remembers the requests it gets"""

    def __init__(self, *args, **kwargs):
        super().__init__(*args, **kwargs)
        self.requests = []

    def __getitem__(self, key):
        self.requests.append(("getitem", key))
        return super().__getitem__(key)

    def __contains__(self, key):
        self.requests.append(("contains", key))
        return super().__contains__(key)

    def get(self, key, default=None):
        self.requests.append(("get", key))
        return super().get(key, default)


def observe():
    observed = {}
    observed["volume_descriptor"] = [
        outcome(metadata.transform_volume_descriptor, mapping) for mapping in volume_descriptors
    ]
    observed["text"] = [outcome(metadata.transform_text, mapping) for mapping in texts]
    observed["record"] = [outcome(metadata.transform_record, mapping) for mapping in records]

    fs = fsspec.filesystem("memory")
    root = "/equiv-e37-3"
    if fs.exists(root):
        fs.rm(root, recursive=True)
    for name, content in files.items():
        fs.pipe(f"{root}/{name}", content)
    mapper = fs.get_mapper(root)
    names = list(files) + ["missing", "sub", "sub/missing", ""]
    observed["open"] = [(name, outcome(open_volume_directory, mapper, name)) for name in names]
    fs.rm(root, recursive=True)

    recording = RecordingMapper(files)
    observed["open_dict"] = [
        (name, outcome(open_volume_directory, recording, name)) for name in ["VOL-4", "missing"]
    ]
    observed["requests"] = recording.requests

    observed["parse_data"] = [
        outcome(lambda data: sorted(io.parse_data(data)), files["VOL-4"]),
        outcome(lambda data: len(io.parse_data(data)["file_descriptors"]), files["VOL-10"]),
    ]
    return observed


def check_inputs_untouched():
    import copy

    for func, inputs in [
        (metadata.transform_volume_descriptor, volume_descriptors),
        (metadata.transform_text, texts),
        (metadata.transform_record, records),
    ]:
        for mapping in inputs:
            before = copy.deepcopy(mapping)
            try:
                result = func(mapping)
            except Exception:  # noqa: BLE001
                result = None
            assert mapping == before
            if isinstance(mapping, dict):
                assert list(mapping) == list(before)
            assert result is None or result is not mapping

    # every call builds new objects
    mapping = {"volume_descriptor": {"a": 1}, "text_record": {"b": 2}}
    first = metadata.transform_record(mapping)
    second = metadata.transform_record(mapping)
    assert first.attrs is not second.attrs and first.data is not second.data
    first.attrs["c"] = 3
    first.data["d"] = 4
    third = metadata.transform_record(mapping)
    assert third.attrs == {"a": 1, "b": 2} and third.data == {}
    assert type(third) is Group and type(third.attrs) is dict and type(third.data) is dict

    # values are passed on, not copied
    marker = object()
    nested = {"x": marker}
    result = metadata.transform_record({"volume_descriptor": {"m": marker, "n": nested}})
    assert result.attrs["m"] is marker and result.attrs["n"] is nested
    assert metadata.transform_text({"m": marker})["m"] is marker
    assert metadata.transform_volume_descriptor({"m": marker})["m"] is marker


EXPECTED = None  # filled below


def test_equivalent():
    observed = observe()
    assert sorted(observed) == sorted(EXPECTED)
    for section, expected in EXPECTED.items():
        actual = observed[section]
        assert len(actual) == len(expected), section
        for index, (a, e) in enumerate(zip(actual, expected)):
            assert a == e, (section, index, a, e)
    check_inputs_untouched()


# EXPECTED-BEGIN
# fmt: off
EXPECTED = {'volume_descriptor': [('returns', ('dict', [])), ('returns', ('dict', [])), ('returns', ('dict', [('volume_set_id', ('str', 'abc'))])),
                       ('returns',
                        ('dict',
                         [('control_document_id', ('str', 'a')), ('control_document_revision_level', ('str', 'b')),
                          ('record_format_revision_level', ('str', 'c')), ('software_version', ('str', '001.001')),
                          ('creation_datetime', ('str', '2020-10-11T17:23:37.980000')), ('creation_country', ('str', 'd')),
                          ('creation_agency', ('str', 'e')), ('creation_facility', ('str', 'f'))])),
                       ('returns',
                        ('dict',
                         [('creation_facility', ('str', 'f')), ('creation_agency', ('str', 'e')), ('creation_country', ('str', 'd')),
                          ('creation_datetime', ('str', '2020-10-11T17:23:37.980000')), ('software_version', ('str', '001.001')),
                          ('record_format_revision_level', ('str', 'c')), ('control_document_revision_level', ('str', 'b')),
                          ('control_document_id', ('str', 'a'))])),
                       ('returns',
                        ('dict',
                         [('control_document_id', ('str', 'a')), ('control_document_revision_level', ('str', 'b')),
                          ('record_format_revision_level', ('str', 'c')), ('software_version', ('str', '001.001')),
                          ('creation_datetime', ('str', '2020-10-11T17:23:37.980000')), ('creation_country', ('str', 'd')),
                          ('creation_agency', ('str', 'e')), ('creation_facility', ('str', 'f')), ('physical_volume_id', ('str', 'p')),
                          ('logical_volume_id', ('str', 'l'))])),
                       ('returns',
                        ('dict',
                         [('z', ('int', 1)), ('control_document_id', ('str', 'a')), ('control_document_revision_level', ('str', 'b')),
                          ('record_format_revision_level', ('str', 'c')), ('software_version', ('str', '001.001')),
                          ('creation_datetime', ('str', '2020-10-11T17:23:37.980000')), ('creation_country', ('str', 'd')),
                          ('creation_agency', ('str', 'e')), ('creation_facility', ('str', 'f')), ('y', ('int', 2)), ('x', ('int', 3))])),
                       ('returns', ('dict', [('creation_datetime', ('str', '2020-10-11T17:23:37.980000'))])),
                       ('returns', ('dict', [('creation_datetime', ('str', '2020-10-11T17:23:37.980000'))])),
                       ('returns', ('dict', [('creation_datetime', ('str', '2020-10-11T17:23:03.700000'))])),
                       ('returns', ('dict', [('creation_datetime', ('str', '2020-10-11T17:23:37.981200'))])),
                       ('raises', ('ValueError', "time data '2019' does not match format '%Y%m%d%H%M%S%f'"), 'cause', None, 'context', None, False),
                       ('returns', ('dict', [('creation_datetime', ('str', '2020-10-11T17:23:37.980000'))])),
                       ('returns', ('dict', [('creation_country', ('str', 'y')), ('creation_agency', ('str', 'z'))])),
                       ('returns', ('dict', [('control_document_id', ('str', 'a')), ('software_version', ('str', 'b'))])),
                       ('returns',
                        ('dict',
                         [('physical_tape_id', ('str', 'a')), ('file_descriptors', ('list', [('int', 1)])), ('blanks1', ('str', '')),
                          ('spare1', ('str', ''))])),
                       ('returns',
                        ('dict',
                         [('volume_set_id', ('NoneType', None)), ('physical_volume_id', ('list', [('str', 'a')])),
                          ('logical_volume_id', ('dict', [('nested', ('dict', [('blanks', ('int', 1))]))]))])),
                       ('returns', ('dict', [(1, ('str', 'a')), (None, ('str', 'b')), (('preamble',), ('str', 'c'))])),
                       ('raises', ('ValueError', "time data '' does not match format '%Y%m%d%H%M%S%f'"), 'cause', None, 'context', None, False),
                       ('raises', ('ValueError', "time data 'abc' does not match format '%Y%m%d%H%M%S%f'"), 'cause', None, 'context', None, False),
                       ('returns', ('dict', [('creation_datetime', ('str', '2020-01-31T11:07:23.379800'))])),
                       ('raises', ('TypeError', 'strptime() argument 1 must be str, not None'), 'cause', None, 'context', None, False),
                       ('raises', ('TypeError', 'strptime() argument 1 must be str, not int'), 'cause', None, 'context', None, False),
                       ('returns', ('dict', [('a', ('int', 1)), ('creation_datetime', ('str', '2020-10-11T17:23:37.980000'))])),
                       ('raises', ('AttributeError', "'NoneType' object has no attribute 'items'"), 'cause', None, 'context', None, False),
                       ('raises', ('AttributeError', "'list' object has no attribute 'items'"), 'cause', None, 'context', None, False),
                       ('raises', ('AttributeError', "'str' object has no attribute 'items'"), 'cause', None, 'context', None, False)],
 'text': [('returns', ('dict', [])), ('returns', ('dict', [])), ('returns', ('dict', [('product_id', ('str', 'PRODUCT:WWDR1.5RUA'))])),
          ('returns', ('dict', [('product_id', ('str', 'b')), ('product_creation', ('str', 'a'))])),
          ('returns', ('dict', [('product_creation', ('str', 'a')), ('product_id', ('str', 'b'))])),
          ('returns', ('dict', [('product_creation', ('str', 'y')), ('b', ('int', 1))])),
          ('returns', ('dict', [('product_creation', ('str', 'x')), ('b', ('int', 1))])),
          ('returns',
           ('dict',
            [('product_id', ('str', 'PRODUCT:WWDR1.5RUA')), ('product_creation', ('str', 'PROCESS:JAPAN-JAXA-ALOS2-EICS  20191015 031551')),
             ('scene_id', ('str', 'ORBIT:ALOS2290760600-191011')), ('scene_location_id', ('str', 'FRAME:RSP050 0600'))])),
          ('returns',
           ('dict',
            [('spare', ('str', '')), ('local_use_segment', ('str', '')), ('number_of_file_pointer_records', ('int', 1)), ('blanks1', ('str', ''))])),
          ('returns', ('dict', [('logical_volume_creation_datetime', ('str', '2020101117233798')), ('creation_datetime', ('str', 'abc'))])),
          ('returns', ('dict', [(1, ('str', 'a')), (None, ('str', 'b'))])),
          ('raises', ('AttributeError', "'NoneType' object has no attribute 'items'"), 'cause', None, 'context', None, False),
          ('raises', ('AttributeError', "'list' object has no attribute 'items'"), 'cause', None, 'context', None, False),
          ('raises', ('AttributeError', "'int' object has no attribute 'items'"), 'cause', None, 'context', None, False)],
 'record': [('returns', ('Group', '/', None, ('dict', []), ('dict', []))),
            ('returns', ('Group', '/', None, ('dict', []), ('dict', [('a', ('int', 1)), ('d', ('int', 4))]))),
            ('returns', ('Group', '/', None, ('dict', []), ('dict', [('creation_country', ('str', 'a')), ('product_creation', ('str', 'b'))]))),
            ('returns', ('Group', '/', None, ('dict', []), ('dict', [('a', ('int', 1)), ('b', ('int', 2)), ('c', ('int', 3)), ('d', ('int', 4))]))),
            ('returns', ('Group', '/', None, ('dict', []), ('dict', [('c', ('int', 3)), ('d', ('int', 4)), ('a', ('int', 1)), ('b', ('int', 2))]))),
            ('returns',
             ('Group', '/', None, ('dict', []),
              ('dict',
               [('control_document_id', ('str', 'a')), ('control_document_revision_level', ('str', 'b')),
                ('record_format_revision_level', ('str', 'c')), ('software_version', ('str', '001.001')),
                ('creation_datetime', ('str', '2020-10-11T17:23:37.980000')), ('creation_country', ('str', 'd')), ('creation_agency', ('str', 'e')),
                ('creation_facility', ('str', 'f')), ('product_id', ('str', 'PRODUCT:WWDR1.5RUA')),
                ('product_creation', ('str', 'PROCESS:JAPAN-JAXA-ALOS2-EICS  20191015 031551')), ('scene_id', ('str', 'ORBIT:ALOS2290760600-191011')),
                ('scene_location_id', ('str', 'FRAME:RSP050 0600'))]))),
            ('returns', ('Group', '/', None, ('dict', []), ('dict', []))),
            ('returns', ('Group', '/', None, ('dict', []), ('dict', [('a', ('int', 1))]))),
            ('returns', ('Group', '/', None, ('dict', []), ('dict', [('a', ('int', 1))]))),
            ('returns', ('Group', '/', None, ('dict', []), ('dict', []))),
            ('returns', ('Group', '/', None, ('dict', []), ('dict', [('a', ('int', 4)), ('b', ('int', 2)), ('c', ('int', 3))]))),
            ('returns', ('Group', '/', None, ('dict', []), ('dict', [('a', ('int', 4)), ('b', ('int', 2)), ('c', ('int', 3))]))),
            ('returns', ('Group', '/', None, ('dict', []), ('dict', [('a', ('int', 4)), ('b', ('int', 3))]))),
            ('returns',
             ('Group', '/', None, ('dict', []),
              ('dict',
               [('x', ('int', 1)), ('preamble', ('int', 2)), ('scalar', ('int', 5)), ('list', ('list', [('dict', [('a', ('int', 1))])])),
                ('none', ('NoneType', None))]))),
            ('returns',
             ('Group', '/', None, ('dict', []),
              ('dict', [('nested', ('dict', [('deep', ('dict', [('blanks', ('int', 1))]))])), ('v', ('dict', [('preamble', ('int', 1))]))]))),
            ('returns', ('Group', '/', None, ('dict', []), ('dict', [('file_descriptors', ('int', 2))]))),
            ('returns', ('Group', '/', None, ('dict', []), ('dict', [('text_record', ('dict', [('preamble', ('int', 1))]))]))),
            ('returns', ('Group', '/', None, ('dict', []), ('dict', [('creation_datetime', ('str', 'unchanged'))]))),
            ('returns', ('Group', '/', None, ('dict', []), ('dict', [('creation_datetime', ('str', '2020-10-11T17:23:37.980000'))]))),
            ('raises', ('ValueError', "time data 'x' does not match format '%Y%m%d%H%M%S%f'"), 'cause', None, 'context', None, False),
            ('raises', ('AttributeError', "'NoneType' object has no attribute 'items'"), 'cause', None, 'context', None, False),
            ('raises', ('AttributeError', "'NoneType' object has no attribute 'items'"), 'cause', None, 'context', None, False),
            ('raises', ('AttributeError', "'str' object has no attribute 'items'"), 'cause', None, 'context', None, False),
            ('raises', ('AttributeError', "'int' object has no attribute 'items'"), 'cause', None, 'context', None, False),
            ('raises', ('TypeError', 'strptime() argument 1 must be str, not int'), 'cause', None, 'context', None, False),
            ('raises', ('AttributeError', "'list' object has no attribute 'items'"), 'cause', None, 'context', None, False),
            ('raises', ('AttributeError', "'NoneType' object has no attribute 'items'"), 'cause', None, 'context', None, False),
            ('raises', ('AttributeError', "'list' object has no attribute 'items'"), 'cause', None, 'context', None, False),
            ('raises', ('AttributeError', "'str' object has no attribute 'items'"), 'cause', None, 'context', None, False)],
 'open': [('VOL-0',
           ('returns',
            ('Group', '/', None, ('dict', []),
             ('dict',
              [('control_document_id', ('str', 'CEOS-SAR')), ('control_document_revision_level', ('str', 'A')),
               ('record_format_revision_level', ('str', 'A')), ('software_version', ('str', '001.001')), ('physical_volume_id', ('str', 'PHYS-VOL')),
               ('logical_volume_id', ('str', 'LOG-VOL')), ('volume_set_id', ('str', 'ALOS2  SAR')),
               ('creation_datetime', ('str', '2019-10-15T03:15:51')), ('creation_country', ('str', 'JAPAN')), ('creation_agency', ('str', 'JAXA')),
               ('creation_facility', ('str', 'EICS')), ('product_id', ('str', 'PRODUCT:WWDR1.5RUA')),
               ('product_creation', ('str', 'PROCESS:JAPAN-JAXA-ALOS2-EICS  20191015 031551')), ('scene_id', ('str', 'ORBIT:ALOS2290760600-191011')),
               ('scene_location_id', ('str', 'FRAME:RSP050 0600'))])))),
          ('VOL-1',
           ('returns',
            ('Group', '/', None, ('dict', []),
             ('dict',
              [('control_document_id', ('str', 'CEOS-SAR')), ('control_document_revision_level', ('str', 'A')),
               ('record_format_revision_level', ('str', 'A')), ('software_version', ('str', '001.001')), ('physical_volume_id', ('str', 'PHYS-VOL')),
               ('logical_volume_id', ('str', 'LOG-VOL')), ('volume_set_id', ('str', 'ALOS2  SAR')),
               ('creation_datetime', ('str', '2019-10-15T03:15:51')), ('creation_country', ('str', 'JAPAN')), ('creation_agency', ('str', 'JAXA')),
               ('creation_facility', ('str', 'EICS')), ('product_id', ('str', 'PRODUCT:WWDR1.5RUA')),
               ('product_creation', ('str', 'PROCESS:JAPAN-JAXA-ALOS2-EICS  20191015 031551')), ('scene_id', ('str', 'ORBIT:ALOS2290760600-191011')),
               ('scene_location_id', ('str', 'FRAME:RSP050 0600'))])))),
          ('VOL-4',
           ('returns',
            ('Group', '/', None, ('dict', []),
             ('dict',
              [('control_document_id', ('str', 'CEOS-SAR')), ('control_document_revision_level', ('str', 'A')),
               ('record_format_revision_level', ('str', 'A')), ('software_version', ('str', '001.001')), ('physical_volume_id', ('str', 'PHYS-VOL')),
               ('logical_volume_id', ('str', 'LOG-VOL')), ('volume_set_id', ('str', 'ALOS2  SAR')),
               ('creation_datetime', ('str', '2019-10-15T03:15:51')), ('creation_country', ('str', 'JAPAN')), ('creation_agency', ('str', 'JAXA')),
               ('creation_facility', ('str', 'EICS')), ('product_id', ('str', 'PRODUCT:WWDR1.5RUA')),
               ('product_creation', ('str', 'PROCESS:JAPAN-JAXA-ALOS2-EICS  20191015 031551')), ('scene_id', ('str', 'ORBIT:ALOS2290760600-191011')),
               ('scene_location_id', ('str', 'FRAME:RSP050 0600'))])))),
          ('VOL-10',
           ('returns',
            ('Group', '/', None, ('dict', []),
             ('dict',
              [('control_document_id', ('str', 'CEOS-SAR')), ('control_document_revision_level', ('str', 'A')),
               ('record_format_revision_level', ('str', 'A')), ('software_version', ('str', '001.001')), ('physical_volume_id', ('str', 'PHYS-VOL')),
               ('logical_volume_id', ('str', 'LOG-VOL')), ('volume_set_id', ('str', 'ALOS2  SAR')),
               ('creation_datetime', ('str', '2019-10-15T03:15:51')), ('creation_country', ('str', 'JAPAN')), ('creation_agency', ('str', 'JAXA')),
               ('creation_facility', ('str', 'EICS')), ('product_id', ('str', 'PRODUCT:WWDR1.5RUA')),
               ('product_creation', ('str', 'PROCESS:JAPAN-JAXA-ALOS2-EICS  20191015 031551')), ('scene_id', ('str', 'ORBIT:ALOS2290760600-191011')),
               ('scene_location_id', ('str', 'FRAME:RSP050 0600'))])))),
          ('VOL-blank-datetime',
           ('raises', ('ValueError', "time data '' does not match format '%Y%m%d%H%M%S%f'"), 'cause', None, 'context', None, False)),
          ('VOL-short-datetime',
           ('returns',
            ('Group', '/', None, ('dict', []),
             ('dict',
              [('control_document_id', ('str', 'CEOS-SAR')), ('control_document_revision_level', ('str', 'A')),
               ('record_format_revision_level', ('str', 'A')), ('software_version', ('str', '001.001')), ('physical_volume_id', ('str', 'PHYS-VOL')),
               ('logical_volume_id', ('str', 'LOG-VOL')), ('volume_set_id', ('str', 'ALOS2  SAR')),
               ('creation_datetime', ('str', '2019-10-15T03:15:05.100000')), ('creation_country', ('str', 'JAPAN')),
               ('creation_agency', ('str', 'JAXA')), ('creation_facility', ('str', 'EICS')), ('product_id', ('str', 'PRODUCT:WWDR1.5RUA')),
               ('product_creation', ('str', 'PROCESS:JAPAN-JAXA-ALOS2-EICS  20191015 031551')), ('scene_id', ('str', 'ORBIT:ALOS2290760600-191011')),
               ('scene_location_id', ('str', 'FRAME:RSP050 0600'))])))),
          ('VOL-bad-datetime',
           ('raises', ('ValueError', "time data '2019-10-15T03:15' does not match format '%Y%m%d%H%M%S%f'"), 'cause', None, 'context', None, False)),
          ('VOL-truncated',
           ('raises',
            ('StreamError', 'Error in path (parsing) -> text_record -> blanks\nstream read less than specified amount, expected 124, found 123'),
            'cause', None, 'context', None, False)),
          ('VOL-too-few-pointers',
           ('raises',
            ('StreamError',
             'Error in path (parsing) -> file_descriptors -> preamble -> record_sequence_number\n'
             'stream read less than specified amount, expected 4, found 0'),
            'cause', None, 'context', None, False)),
          ('VOL-trailing',
           ('returns',
            ('Group', '/', None, ('dict', []),
             ('dict',
              [('control_document_id', ('str', 'CEOS-SAR')), ('control_document_revision_level', ('str', 'A')),
               ('record_format_revision_level', ('str', 'A')), ('software_version', ('str', '001.001')), ('physical_volume_id', ('str', 'PHYS-VOL')),
               ('logical_volume_id', ('str', 'LOG-VOL')), ('volume_set_id', ('str', 'ALOS2  SAR')),
               ('creation_datetime', ('str', '2019-10-15T03:15:51')), ('creation_country', ('str', 'JAPAN')), ('creation_agency', ('str', 'JAXA')),
               ('creation_facility', ('str', 'EICS')), ('product_id', ('str', 'PRODUCT:WWDR1.5RUA')),
               ('product_creation', ('str', 'PROCESS:JAPAN-JAXA-ALOS2-EICS  20191015 031551')), ('scene_id', ('str', 'ORBIT:ALOS2290760600-191011')),
               ('scene_location_id', ('str', 'FRAME:RSP050 0600'))])))),
          ('VOL-empty',
           ('raises',
            ('StreamError',
             'Error in path (parsing) -> volume_descriptor -> preamble -> record_sequence_number\n'
             'stream read less than specified amount, expected 4, found 0'),
            'cause', None, 'context', None, False)),
          ('VOL-non-ascii',
           ('raises', ('StringError', "cannot use encoding 'ascii' to decode b'CEOS\\xffSAR    '"), 'cause', None, 'context',
            ('UnicodeDecodeError', "'ascii' codec can't decode byte 0xff in position 4: ordinal not in range(128)"), False)),
          ('sub/VOL-nested',
           ('returns',
            ('Group', '/', None, ('dict', []),
             ('dict',
              [('control_document_id', ('str', 'CEOS-SAR')), ('control_document_revision_level', ('str', 'A')),
               ('record_format_revision_level', ('str', 'A')), ('software_version', ('str', '001.001')), ('physical_volume_id', ('str', 'PHYS-VOL')),
               ('logical_volume_id', ('str', 'LOG-VOL')), ('volume_set_id', ('str', 'ALOS2  SAR')),
               ('creation_datetime', ('str', '2019-10-15T03:15:51')), ('creation_country', ('str', 'JAPAN')), ('creation_agency', ('str', 'JAXA')),
               ('creation_facility', ('str', 'EICS')), ('product_id', ('str', 'PRODUCT:WWDR1.5RUA')),
               ('product_creation', ('str', 'PROCESS:JAPAN-JAXA-ALOS2-EICS  20191015 031551')), ('scene_id', ('str', 'ORBIT:ALOS2290760600-191011')),
               ('scene_location_id', ('str', 'FRAME:RSP050 0600'))])))),
          ('missing',
           ('raises', ('FileNotFoundError', 'Cannot open missing'), 'cause', ('KeyError', "'missing'"), 'context', ('KeyError', "'missing'"), True)),
          ('sub', ('raises', ('FileNotFoundError', 'Cannot open sub'), 'cause', ('KeyError', "'sub'"), 'context', ('KeyError', "'sub'"), True)),
          ('sub/missing',
           ('raises', ('FileNotFoundError', 'Cannot open sub/missing'), 'cause', ('KeyError', "'sub/missing'"), 'context',
            ('KeyError', "'sub/missing'"), True)),
          ('', ('raises', ('FileNotFoundError', 'Cannot open '), 'cause', ('KeyError', "''"), 'context', ('KeyError', "''"), True))],
 'open_dict': [('VOL-4',
                ('returns',
                 ('Group', '/', None, ('dict', []),
                  ('dict',
                   [('control_document_id', ('str', 'CEOS-SAR')), ('control_document_revision_level', ('str', 'A')),
                    ('record_format_revision_level', ('str', 'A')), ('software_version', ('str', '001.001')),
                    ('physical_volume_id', ('str', 'PHYS-VOL')), ('logical_volume_id', ('str', 'LOG-VOL')), ('volume_set_id', ('str', 'ALOS2  SAR')),
                    ('creation_datetime', ('str', '2019-10-15T03:15:51')), ('creation_country', ('str', 'JAPAN')),
                    ('creation_agency', ('str', 'JAXA')), ('creation_facility', ('str', 'EICS')), ('product_id', ('str', 'PRODUCT:WWDR1.5RUA')),
                    ('product_creation', ('str', 'PROCESS:JAPAN-JAXA-ALOS2-EICS  20191015 031551')),
                    ('scene_id', ('str', 'ORBIT:ALOS2290760600-191011')), ('scene_location_id', ('str', 'FRAME:RSP050 0600'))])))),
               ('missing',
                ('raises', ('FileNotFoundError', 'Cannot open missing'), 'cause', ('KeyError', "'missing'"), 'context', ('KeyError', "'missing'"),
                 True))],
 'requests': [('getitem', 'VOL-4'), ('getitem', 'missing')],
 'parse_data': [('returns', ('list', [('str', 'file_descriptors'), ('str', 'text_record'), ('str', 'volume_descriptor')])), ('returns', ('int', 10))]}
# fmt: on
# EXPECTED-END

if __name__ == "__main__":
    if "--record" in sys.argv:
        text = pprint.pformat(observe(), width=150, compact=True, sort_dicts=False)
        print("EXPECTED = " + text)
    else:
        test_equivalent()
        n = sum(len(v) for v in EXPECTED.values())
        print(f"equivalent: {n} recorded outcomes reproduced")
